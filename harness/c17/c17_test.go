// C17 — the secp256k1 curve implements the group law for all points and scalars.
package c17

import (
	"bytes"
	stdelliptic "crypto/elliptic"
	"fmt"
	"math/big"
	"testing"

	"github.com/wollac/iota-crypto-demo/pkg/slip10/btccurve"
	slipelliptic "github.com/wollac/iota-crypto-demo/pkg/slip10/elliptic"
	"pgregory.net/rapid"

	"verifharness/fc"
	"verifharness/h"
	ref "verifharness/ref/secp"
)

var K = ref.K1

// the two copies of the curve: the public package and the internal copy reached through the
// slip10 curve object (its dynamic type promotes the embedded elliptic.Curve methods).
var copies = map[string]stdelliptic.Curve{}

func TestMain(m *testing.M) {
	h.FirstCallsChild(fc.Secp256k1()) // never returns in a first-call child process
	if err := K.SelfCheck(); err != nil {
		fmt.Println("VERIF-INFRA reference self-check failed:", err)
		panic(err)
	}
	copies["public"] = btccurve.Secp256k1()
	if c, ok := slipelliptic.Secp256k1().(stdelliptic.Curve); ok {
		copies["internal"] = c
	} else {
		h.Note("internal curve copy not reachable as elliptic.Curve; only the public copy is exercised directly")
	}
	h.Main(m)
}

// A point is given by its discrete log: K = 0 is the identity.
type scalar string // hex

func (s scalar) big() *big.Int {
	v, ok := new(big.Int).SetString(string(s), 16)
	if !ok {
		return new(big.Int)
	}
	return v
}

func pointOf(s scalar) ref.Point {
	return K.BaseMul(new(big.Int).Mod(s.big(), K.N))
}

type opCase struct {
	Op     string `json:"op"`           // add, double, mult, basemult, oncurve, laws
	K1     scalar `json:"k1,omitempty"` // discrete logs of P, Q, R (hex); "0" = identity
	K2     scalar `json:"k2,omitempty"`
	K3     scalar `json:"k3,omitempty"`
	Scalar h.B    `json:"scalar,omitempty"` // scalar byte string for mult/basemult
	X      scalar `json:"x,omitempty"`      // raw coordinates for oncurve
	Y      scalar `json:"y,omitempty"`
	// reuse: further (point, scalar) pairs for the same argument objects
	Scalar2 h.B `json:"scalar2,omitempty"`
	Scalar3 h.B `json:"scalar3,omitempty"`
}

func fmtPt(p ref.Point) string {
	if p.Inf {
		return "O"
	}
	return fmt.Sprintf("(%x,%x)", p.X, p.Y)
}

func got(x, y *big.Int) (ref.Point, error) {
	if x == nil || y == nil {
		return ref.Point{}, fmt.Errorf("returned nil coordinates")
	}
	if x.Sign() < 0 || y.Sign() < 0 || x.Cmp(K.P) >= 0 || y.Cmp(K.P) >= 0 {
		return ref.Point{}, fmt.Errorf("returned unreduced coordinates (%x,%x)", x, y)
	}
	return ref.FromXY(x, y), nil
}

func relation(k1, k2 *big.Int) string {
	a, b := new(big.Int).Mod(k1, K.N), new(big.Int).Mod(k2, K.N)
	switch {
	case a.Sign() == 0 && b.Sign() == 0:
		return "O+O"
	case a.Sign() == 0 || b.Sign() == 0:
		return "P+O"
	case a.Cmp(b) == 0:
		return "P+P"
	case new(big.Int).Add(a, b).Cmp(K.N) == 0:
		return "P+(-P)"
	}
	// same y, different x (Q = lambda*P or lambda^2*P) / opposite y, different x
	for _, l := range []*big.Int{lambda, lambda2} {
		la := new(big.Int).Mul(a, l)
		la.Mod(la, K.N)
		if la.Cmp(b) == 0 {
			return "P+lambdaP"
		}
		if la.Add(la, b).Cmp(K.N) == 0 {
			return "P+(-lambdaP)"
		}
	}
	return "P+Q"
}

func scalarClass(b []byte) string {
	v := new(big.Int).SetBytes(b)
	switch {
	case len(b) == 0:
		return "empty"
	case v.Sign() == 0:
		return "zero"
	case v.Cmp(K.N) == 0:
		return "n"
	case v.Cmp(K.N) > 0:
		return ">n"
	case len(b) > 0 && b[0] == 0:
		return "leading-zero"
	}
	return "<n"
}

func checkOp(c opCase) (h.Info, error) {
	info := h.Info{}
	for name, cv := range copies {
		i, err := checkOn(name, cv, c)
		info = i
		if err != nil {
			return info, fmt.Errorf("[%s copy] %w", name, err)
		}
		if err := checkIndependence(cv, c); err != nil {
			return info, fmt.Errorf("[%s copy] %w", name, err)
		}
	}
	return info, nil
}

// checkIndependence: a caller may do what it likes with returned coordinates; that must change
// neither the operands nor the curve parameters nor later results.
func checkIndependence(cv stdelliptic.Curve, c opCase) error {
	if c.Op == "oncurve" {
		return nil
	}
	p := pointOf(c.K1)
	px, py := p.XY()
	a1, a2 := new(big.Int).Set(px), new(big.Int).Set(py)
	zx, zy := new(big.Int), new(big.Int)
	var outs []*big.Int
	x, y := cv.Add(a1, a2, zx, zy) // P + O
	outs = append(outs, x, y)
	x, y = cv.Add(zx, zy, a1, a2) // O + P
	outs = append(outs, x, y)
	x, y = cv.ScalarMult(a1, a2, []byte{0, 0, 1})
	outs = append(outs, x, y)
	x, y = cv.ScalarBaseMult([]byte{1})
	outs = append(outs, x, y)
	x, y = cv.ScalarBaseMult(append([]byte{}, c.Scalar...))
	outs = append(outs, x, y)
	x, y = cv.Double(a1, a2)
	outs = append(outs, x, y)
	for _, o := range outs {
		if o != nil {
			o.SetInt64(12345) // scribble
		}
	}
	if a1.Cmp(px) != 0 || a2.Cmp(py) != 0 || zx.Sign() != 0 || zy.Sign() != 0 {
		return fmt.Errorf("writing into returned coordinates changed an operand (results alias their inputs) for P=%s", fmtPt(p))
	}
	if cv.Params().Gx.Cmp(K.Gx) != 0 || cv.Params().Gy.Cmp(K.Gy) != 0 || cv.Params().P.Cmp(K.P) != 0 || cv.Params().N.Cmp(K.N) != 0 {
		return fmt.Errorf("writing into returned coordinates changed the curve parameters (results alias Params())")
	}
	gx, gy := cv.ScalarBaseMult([]byte{2})
	if g, err := got(gx, gy); err != nil || !g.Equal(K.BaseMul(big.NewInt(2))) {
		return fmt.Errorf("ScalarBaseMult(2) is wrong after a caller wrote into earlier results")
	}
	return nil
}

func checkOn(name string, cv stdelliptic.Curve, c opCase) (h.Info, error) {
	switch c.Op {
	case "add":
		p, q := pointOf(c.K1), pointOf(c.K2)
		rel := relation(c.K1.big(), c.K2.big())
		info := h.Info{Class: "add/" + rel, NT: rel != "P+Q"}
		px, py := p.XY()
		qx, qy := q.XY()
		a1, a2, a3, a4 := new(big.Int).Set(px), new(big.Int).Set(py), new(big.Int).Set(qx), new(big.Int).Set(qy)
		x, y := cv.Add(a1, a2, a3, a4)
		g, err := got(x, y)
		want := K.Add(p, q)
		if err != nil || !g.Equal(want) {
			return info, fmt.Errorf("Add(%s, %s) [%s] = %s %v, group sum %s", fmtPt(p), fmtPt(q), rel, fmtPt(g), errStr(err), fmtPt(want))
		}
		if a1.Cmp(px) != 0 || a2.Cmp(py) != 0 || a3.Cmp(qx) != 0 || a4.Cmp(qy) != 0 {
			return info, fmt.Errorf("Add(%s, %s) modified its arguments", fmtPt(p), fmtPt(q))
		}
		if rel == "P+P" || rel == "O+O" { // the same *big.Int pointers for both operands
			x, y = cv.Add(a1, a2, a1, a2)
			if g2, err := got(x, y); err != nil || !g2.Equal(want) {
				return info, fmt.Errorf("Add(P, P) with identical argument pointers = %s %v, want %s", fmtPt(g2), errStr(err), fmtPt(want))
			}
		}
		return info, nil
	case "double":
		p := pointOf(c.K1)
		info := h.Info{Class: "double/P", NT: true}
		if p.Inf {
			info.Class = "double/O"
		}
		px, py := p.XY()
		x, y := cv.Double(new(big.Int).Set(px), new(big.Int).Set(py))
		g, err := got(x, y)
		want := K.Add(p, p)
		if err != nil || !g.Equal(want) {
			return info, fmt.Errorf("Double(%s) = %s %v, want %s", fmtPt(p), fmtPt(g), errStr(err), fmtPt(want))
		}
		return info, nil
	case "mult":
		p := pointOf(c.K1)
		sc := scalarClass(c.Scalar)
		info := h.Info{Class: "mult/" + sc, NT: sc != "<n" || p.Inf}
		if p.Inf {
			info.Class = "mult/O*" + sc
		}
		px, py := p.XY()
		b1, b2 := new(big.Int).Set(px), new(big.Int).Set(py)
		kk := append(append(make([]byte, 0, len(c.Scalar)+8), c.Scalar...), 0xff, 0xff, 0xff, 0xff)[:len(c.Scalar)]
		x, y := cv.ScalarMult(b1, b2, kk)
		g, err := got(x, y)
		want := K.Mul(p, new(big.Int).SetBytes(c.Scalar))
		if err != nil || !g.Equal(want) {
			return info, fmt.Errorf("ScalarMult(%s, %x) [%s] = %s %v, want %s", fmtPt(p), []byte(c.Scalar), sc, fmtPt(g), errStr(err), fmtPt(want))
		}
		if b1.Cmp(px) != 0 || b2.Cmp(py) != 0 || string(kk) != string(c.Scalar) {
			return info, fmt.Errorf("ScalarMult(%s, %x) modified its arguments", fmtPt(p), []byte(c.Scalar))
		}
		return info, nil
	case "basemult":
		sc := scalarClass(c.Scalar)
		info := h.Info{Class: "basemult/" + sc, NT: sc != "<n"}
		x, y := cv.ScalarBaseMult(append([]byte{}, c.Scalar...))
		g, err := got(x, y)
		want := K.BaseMul(new(big.Int).SetBytes(c.Scalar))
		if err != nil || !g.Equal(want) {
			return info, fmt.Errorf("ScalarBaseMult(%x) [%s] = %s %v, want %s", []byte(c.Scalar), sc, fmtPt(g), errStr(err), fmtPt(want))
		}
		return info, nil
	case "reuse":
		// a caller that keeps ONE pair of coordinate objects and ONE scalar buffer and overwrites them in
		// place between calls (x.Set(...), copy(buf, ...)): every call is judged by the values it is given
		pts := []ref.Point{pointOf(c.K1), pointOf(c.K2), pointOf(c.K3)}
		scs := [][]byte{c.Scalar, c.Scalar2, c.Scalar3}
		info := h.Info{Class: "reuse/points", NT: true}
		if pts[0].Inf || pts[1].Inf || pts[2].Inf {
			info.Class = "reuse/with-identity"
		}
		x, y := new(big.Int), new(big.Int)
		buf := make([]byte, 0, 128)
		for i := range pts {
			px, py := pts[i].XY()
			x.Set(px)
			y.Set(py)
			buf = append(buf[:0], scs[i]...)
			rx, ry := cv.ScalarMult(x, y, buf)
			g, err := got(rx, ry)
			want := K.Mul(pts[i], new(big.Int).SetBytes(scs[i]))
			if err != nil || !g.Equal(want) {
				return info, fmt.Errorf("call %d of a sequence that reuses one pair of coordinate objects (set in place) and one scalar buffer: ScalarMult(%s, %x) = %s %v, want %s (previous point %s)", i, fmtPt(pts[i]), scs[i], fmtPt(g), errStr(err), fmtPt(want), fmtPt(pts[(i+2)%3]))
			}
			if x.Cmp(px) != 0 || y.Cmp(py) != 0 {
				return info, fmt.Errorf("ScalarMult modified its arguments")
			}
		}
		// second pass: the other entry points with the same reused objects
		for i := range pts {
			px, py := pts[i].XY()
			x.Set(px)
			y.Set(py)
			buf = append(buf[:0], scs[i]...)
			bx, by := cv.ScalarBaseMult(buf)
			g, err := got(bx, by)
			if wantB := K.BaseMul(new(big.Int).SetBytes(scs[i])); err != nil || !g.Equal(wantB) {
				return info, fmt.Errorf("call %d of a sequence that reuses one scalar buffer: ScalarBaseMult(%x) = %s %v, want %s", i, scs[i], fmtPt(g), errStr(err), fmtPt(wantB))
			}
			dx, dy := cv.Double(x, y)
			g, err = got(dx, dy)
			if wantD := K.Add(pts[i], pts[i]); err != nil || !g.Equal(wantD) {
				return info, fmt.Errorf("call %d, reused coordinate objects: Double(%s) = %s %v, want %s", i, fmtPt(pts[i]), fmtPt(g), errStr(err), fmtPt(wantD))
			}
			qx, qy := pts[(i+1)%3].XY()
			ax, ay := cv.Add(x, y, qx, qy)
			g, err = got(ax, ay)
			if wantA := K.Add(pts[i], pts[(i+1)%3]); err != nil || !g.Equal(wantA) {
				return info, fmt.Errorf("call %d, reused coordinate objects: Add(%s, %s) = %s %v, want %s", i, fmtPt(pts[i]), fmtPt(pts[(i+1)%3]), fmtPt(g), errStr(err), fmtPt(wantA))
			}
		}
		return info, nil
	case "oncurve":
		x, y := c.X.big(), c.Y.big()
		if x.Cmp(K.P) >= 0 || y.Cmp(K.P) >= 0 {
			return h.Info{Class: "oncurve/out-of-domain"}, nil
		}
		want := K.OnCurve(x, y)
		info := h.Info{Class: fmt.Sprintf("oncurve/%v", want), NT: true}
		if want && (y.Cmp(K.N) >= 0 || x.Cmp(K.N) >= 0) {
			info.Class = "oncurve/true-coordinate>=n"
		}
		if g := cv.IsOnCurve(new(big.Int).Set(x), new(big.Int).Set(y)); g != want {
			return info, fmt.Errorf("IsOnCurve(%x, %x) = %v, y^2 = x^3+7 says %v", x, y, g, want)
		}
		return info, nil
	case "laws":
		// implementation-only algebraic laws (no reference arithmetic in the comparison)
		p, q, r := pointOf(c.K1), pointOf(c.K2), pointOf(c.K3)
		rel := relation(c.K1.big(), c.K2.big())
		info := h.Info{Class: "laws/" + rel, NT: true}
		add := func(a, b ref.Point) (ref.Point, error) {
			ax, ay := a.XY()
			bx, by := b.XY()
			return got(cv.Add(new(big.Int).Set(ax), new(big.Int).Set(ay), new(big.Int).Set(bx), new(big.Int).Set(by)))
		}
		pq, e1 := add(p, q)
		qp, e2 := add(q, p)
		if e1 != nil || e2 != nil || !pq.Equal(qp) {
			return info, fmt.Errorf("P+Q != Q+P for P=%s Q=%s: %s vs %s (%v %v)", fmtPt(p), fmtPt(q), fmtPt(pq), fmtPt(qp), e1, e2)
		}
		l, e1 := add(pq, r)
		qr, e2 := add(q, r)
		if e1 != nil || e2 != nil {
			return info, fmt.Errorf("associativity operands: %v %v", e1, e2)
		}
		rr, e3 := add(p, qr)
		if e3 != nil || !l.Equal(rr) {
			return info, fmt.Errorf("(P+Q)+R != P+(Q+R) for P=%s Q=%s R=%s: %s vs %s %v", fmtPt(p), fmtPt(q), fmtPt(r), fmtPt(l), fmtPt(rr), errStr(e3))
		}
		if !p.Inf && !pq.Inf && !K.OnCurve(pq.X, pq.Y) {
			return info, fmt.Errorf("P+Q not on the curve")
		}
		// (a+b)G = aG + bG through the scalar API
		a, b := c.K1.big(), c.K2.big()
		ab := new(big.Int).Add(a, b)
		sx, sy := cv.ScalarBaseMult(ab.Bytes())
		s, e4 := got(sx, sy)
		if e4 != nil || !s.Equal(pq) {
			return info, fmt.Errorf("(a+b)G != aG+bG for a=%x b=%x: %s vs %s %v", a, b, fmtPt(s), fmtPt(pq), errStr(e4))
		}
		// k*P = (k mod n)*P
		k := new(big.Int).SetBytes(c.Scalar)
		px, py := p.XY()
		x1, y1 := cv.ScalarMult(new(big.Int).Set(px), new(big.Int).Set(py), k.Bytes())
		x2, y2 := cv.ScalarMult(new(big.Int).Set(px), new(big.Int).Set(py), new(big.Int).Mod(k, K.N).Bytes())
		g1, e5 := got(x1, y1)
		g2, e6 := got(x2, y2)
		if e5 != nil || e6 != nil || !g1.Equal(g2) {
			return info, fmt.Errorf("k*P != (k mod n)*P for k=%x P=%s: %s vs %s (%v %v)", k, fmtPt(p), fmtPt(g1), fmtPt(g2), e5, e6)
		}
		dx, dy := cv.Double(new(big.Int).Set(px), new(big.Int).Set(py))
		d, e7 := got(dx, dy)
		pp, e8 := add(p, p)
		if e7 != nil || e8 != nil || !d.Equal(pp) {
			return info, fmt.Errorf("Double(P) != Add(P,P) for P=%s: %s vs %s (%v %v)", fmtPt(p), fmtPt(d), fmtPt(pp), e7, e8)
		}
		return info, nil
	}
	return h.Info{}, fmt.Errorf("PRECONDITION: unknown op %q", c.Op)
}

func errStr(err error) string {
	if err == nil {
		return ""
	}
	return "(" + err.Error() + ")"
}

var bigOne = big.NewInt(1)

// lambda, lambda2: the non-trivial cube roots of unity mod n; lambda*(x,y) = (beta*x, y), the only
// pairs of distinct points with equal y (and with -lambda: opposite y) on this curve.
var lambda, lambda2 = func() (*big.Int, *big.Int) {
	e := new(big.Int).Sub(ref.K1.N, big.NewInt(1))
	e.Div(e, big.NewInt(3))
	for g := int64(2); ; g++ {
		l := new(big.Int).Exp(big.NewInt(g), e, ref.K1.N)
		if l.Cmp(big.NewInt(1)) != 0 {
			l2 := new(big.Int).Mul(l, l)
			return l, l2.Mod(l2, ref.K1.N)
		}
	}
}()

func cornerScalars() []*big.Int {
	n := K.N
	half := new(big.Int).Rsh(n, 1) // (n-1)/2
	return []*big.Int{
		big.NewInt(0), big.NewInt(1), big.NewInt(2), big.NewInt(3),
		new(big.Int).Sub(n, bigOne), new(big.Int).Sub(n, big.NewInt(2)),
		half, new(big.Int).Add(half, bigOne),
		new(big.Int).Set(n), new(big.Int).Add(n, bigOne), new(big.Int).Lsh(n, 1),
		new(big.Int).Sub(new(big.Int).Lsh(bigOne, 256), bigOne),
		// endomorphism corners: the ladder adds B to lambda*B (equal y) for the scalar lambda+1
		new(big.Int).Set(lambda), new(big.Int).Add(lambda, bigOne), new(big.Int).Sub(lambda, bigOne),
		new(big.Int).Set(lambda2), new(big.Int).Add(lambda2, bigOne), new(big.Int).Sub(K.N, lambda),
	}
}

func genK(t *rapid.T, label string) *big.Int {
	switch h.Pick(t, label+"k", 4, 5) {
	case 0:
		cs := cornerScalars()
		return cs[rapid.IntRange(0, len(cs)-1).Draw(t, label+"c")]
	}
	return new(big.Int).SetBytes(rapid.SliceOfN(rapid.Byte(), 32, 32).Draw(t, label+"r"))
}

// limbScalar: values whose 64-bit or 32-bit limbs are special (all ones, zero, equal to the limbs of n, one
// below / above them), of 1..40 bytes: carry and borrow chains of a limb-wise comparison, subtraction or
// addition, and comparisons that look at raw bytes of scalars shorter or longer than 32 bytes
func limbScalar(t *rapid.T) []byte {
	nb := K.N.FillBytes(make([]byte, 32))
	switch h.Pick(t, "limbk", 3, 3, 2, 2) {
	case 0: // all-ones of any length (2^(8k)-1), optionally with the last byte changed
		b := bytes.Repeat([]byte{0xff}, rapid.IntRange(1, 40).Draw(t, "ffs"))
		if rapid.Bool().Draw(t, "fflast") {
			b[len(b)-1] = byte(rapid.IntRange(0xf0, 0xff).Draw(t, "fflastv"))
		}
		return b
	case 1: // n with one 8-byte limb replaced by zero / all ones / itself -+ 1 / random
		b := append([]byte{}, nb...)
		li := rapid.IntRange(0, 3).Draw(t, "limb") * 8
		switch h.Pick(t, "limbv", 1, 1, 2, 2, 2) {
		case 0:
			copy(b[li:], make([]byte, 8))
		case 1:
			copy(b[li:], bytes.Repeat([]byte{0xff}, 8))
		case 2:
			v := new(big.Int).SetBytes(b[li : li+8])
			if v.Sign() > 0 {
				v.Sub(v, bigOne)
				v.FillBytes(b[li : li+8])
			}
		case 3:
			v := new(big.Int).SetBytes(b[li : li+8])
			v.Add(v, bigOne)
			if v.BitLen() <= 64 {
				v.FillBytes(b[li : li+8])
			}
		default:
			copy(b[li:], h.BytesN(t, "limbr", 8))
		}
		return b
	case 2: // n -+ 2^k, and a proper byte prefix / suffix of n
		v := new(big.Int).Lsh(bigOne, uint(rapid.IntRange(0, 255).Draw(t, "pow")))
		if rapid.Bool().Draw(t, "minus") {
			v.Sub(K.N, v)
		} else {
			v.Add(K.N, v)
		}
		if v.Sign() < 0 {
			v.Neg(v)
		}
		return v.Bytes()
	default:
		k := rapid.IntRange(1, 31).Draw(t, "cut")
		if rapid.Bool().Draw(t, "suffix") {
			return append([]byte{}, nb[32-k:]...)
		}
		return append([]byte{}, nb[:k]...)
	}
}

func genScalarBytes(t *rapid.T) []byte {
	if h.Pick(t, "limbs", 4, 1) == 1 {
		return limbScalar(t)
	}
	switch h.Pick(t, "sk", 3, 3, 1, 1, 1, 1) {
	case 5: // a corner scalar as a proper bit prefix of a longer scalar (the ladder passes through it)
		cs := cornerScalars()
		v := new(big.Int).Set(cs[rapid.IntRange(0, len(cs)-1).Draw(t, "pc")])
		sh := uint(rapid.IntRange(1, 24).Draw(t, "psh"))
		v.Lsh(v, sh)
		v.Or(v, big.NewInt(int64(rapid.IntRange(0, 1<<sh-1).Draw(t, "plow"))))
		return v.Bytes()
	case 0:
		cs := cornerScalars()
		b := cs[rapid.IntRange(0, len(cs)-1).Draw(t, "sc")].Bytes()
		// optional leading zero bytes
		z := h.Pick(t, "lz", 3, 1, 1)
		return append(make([]byte, z*3), b...)
	case 1:
		return rapid.SliceOfN(rapid.Byte(), 32, 32).Draw(t, "sr")
	case 2:
		return make([]byte, rapid.IntRange(0, 40).Draw(t, "zeros"))
	case 3:
		if rapid.Bool().Draw(t, "verylong") {
			return rapid.SliceOfN(rapid.Byte(), 64, 100).Draw(t, "verylong64")
		}
		return rapid.SliceOfN(rapid.Byte(), 33, 48).Draw(t, "long")
	}
	return rapid.SliceOfN(rapid.Byte(), 0, 8).Draw(t, "short")
}

func hexOf(v *big.Int) scalar { return scalar(fmt.Sprintf("%x", v)) }

func genOp(t *rapid.T) opCase {
	op := []string{"add", "double", "mult", "basemult", "oncurve", "laws", "reuse"}[h.Pick(t, "op", 5, 1, 3, 3, 2, 3, 1)]
	c := opCase{Op: op}
	k1 := genK(t, "k1")
	c.K1 = hexOf(k1)
	switch op {
	case "add", "laws":
		switch h.Pick(t, "rel", 4, 2, 2, 1, 2) {
		case 4: // equal or opposite y with a different x
			l := h.OneOf(t, "lam", lambda, lambda2)
			k2 := new(big.Int).Mul(new(big.Int).Mod(k1, K.N), l)
			k2.Mod(k2, K.N)
			if rapid.Bool().Draw(t, "neglam") {
				k2.Sub(K.N, k2).Mod(k2, K.N)
			}
			c.K2 = hexOf(k2)
		case 0:
			c.K2 = hexOf(genK(t, "k2"))
		case 1:
			c.K2 = c.K1
		case 2:
			c.K2 = hexOf(new(big.Int).Sub(K.N, new(big.Int).Mod(k1, K.N)))
		default:
			c.K2 = "0"
		}
		if rapid.Bool().Draw(t, "swap") {
			c.K1, c.K2 = c.K2, c.K1
		}
		if op == "laws" {
			switch h.Pick(t, "rel3", 3, 1, 1, 1) {
			case 0:
				c.K3 = hexOf(genK(t, "k3"))
			case 1:
				c.K3 = c.K2
			case 2:
				c.K3 = hexOf(new(big.Int).Sub(K.N, new(big.Int).Mod(new(big.Int).Add(c.K1.big(), c.K2.big()), K.N)))
			default:
				c.K3 = "0"
			}
			c.Scalar = genScalarBytes(t)
		}
	case "mult", "basemult":
		c.Scalar = genScalarBytes(t)
	case "reuse":
		c.K2, c.K3 = hexOf(genK(t, "k2")), hexOf(genK(t, "k3"))
		if h.Pick(t, "same", 2, 1) == 1 {
			c.K3 = c.K1
		}
		c.Scalar, c.Scalar2, c.Scalar3 = genScalarBytes(t), genScalarBytes(t), genScalarBytes(t)
	case "oncurve":
		x := new(big.Int).SetBytes(rapid.SliceOfN(rapid.Byte(), 32, 32).Draw(t, "x"))
		x.Mod(x, K.P)
		if h.Pick(t, "xk", 6, 1, 1) == 1 {
			x = big.NewInt(int64(rapid.IntRange(0, 5).Draw(t, "xs")))
		}
		y, ok := K.SqrtY(x)
		switch h.Pick(t, "yk", 3, 2, 2, 2, 1) {
		case 0: // root (or the non-root candidate when x^3+7 is a non-residue)
		case 1:
			y = new(big.Int).Mod(new(big.Int).Sub(K.P, y), K.P)
		case 2:
			y = new(big.Int).Mod(new(big.Int).Add(y, bigOne), K.P)
		case 3:
			y = new(big.Int).Mod(new(big.Int).SetBytes(rapid.SliceOfN(rapid.Byte(), 32, 32).Draw(t, "yr")), K.P)
		default:
			x, y = new(big.Int), new(big.Int)
		}
		_ = ok
		// coordinates in the thin band [n, p) and right below p: construct y first, x as a cube root
		if h.Pick(t, "band", 3, 2) == 1 {
			lo := new(big.Int).Set(K.N)
			span := new(big.Int).Sub(K.P, lo)
			var yb *big.Int
			if rapid.Bool().Draw(t, "nearp") {
				yb = new(big.Int).Sub(K.P, big.NewInt(int64(rapid.IntRange(1, 64).Draw(t, "dp"))))
			} else {
				r := new(big.Int).SetBytes(rapid.SliceOfN(rapid.Byte(), 32, 32).Draw(t, "yb"))
				yb = r.Mod(r, span).Add(r, lo)
			}
			rhs := new(big.Int).Mul(yb, yb)
			rhs.Sub(rhs, big.NewInt(7)).Mod(rhs, K.P)
			if xr, ok := cubeRoot(rhs); ok {
				x, y = xr, yb                     // a genuine curve point with y >= n
				if rapid.Bool().Draw(t, "xalt") { // the two other cube roots are also solutions
					x = new(big.Int).Mod(new(big.Int).Mul(x, omega()), K.P)
				}
			} else {
				y = yb // x from above: off-curve with overwhelming probability
			}
		}
		c.X, c.Y = hexOf(x), hexOf(y)
	}
	return c
}

// cubeRoot returns a cube root of a mod p if one exists (p = 7 mod 9 for secp256k1: a^((p+2)/9)).
func cubeRoot(a *big.Int) (*big.Int, bool) {
	e := new(big.Int).Add(K.P, big.NewInt(2))
	e.Div(e, big.NewInt(9))
	r := new(big.Int).Exp(a, e, K.P)
	chk := new(big.Int).Exp(r, big.NewInt(3), K.P)
	return r, chk.Cmp(new(big.Int).Mod(a, K.P)) == 0
}

// omega is a primitive cube root of unity mod p.
func omega() *big.Int {
	e := new(big.Int).Sub(K.P, big.NewInt(1))
	e.Div(e, big.NewInt(3))
	for g := int64(2); ; g++ {
		w := new(big.Int).Exp(big.NewInt(g), e, K.P)
		if w.Cmp(big.NewInt(1)) != 0 {
			return w
		}
	}
}

func TestOps(t *testing.T) {
	h.Run(t, h.Sub[opCase]{
		Prop: "C17", Name: "group-ops", N: 3000,
		Gen: genOp, Check: checkOp,
		Require: []string{"add/P+Q", "add/P+P", "add/P+(-P)", "add/P+O", "add/O+O", "double/P", "mult/zero", "mult/n", "mult/>n", "mult/<n", "mult/empty",
			"basemult/zero", "basemult/n", "basemult/>n", "basemult/leading-zero", "oncurve/true", "oncurve/false", "oncurve/true-coordinate>=n", "laws/P+Q", "laws/P+P", "laws/P+(-P)", "add/P+lambdaP", "add/P+(-lambdaP)", "reuse/points", "reuse/with-identity"},
		Rule: "points given by their discrete log (corners 0,1,2,3,n-1,n-2,(n+-1)/2,n,n+1,2n,2^256-1, the endomorphism eigenvalues lambda, lambda+-1, lambda^2, lambda^2+1, n-lambda, and random), pairs random/equal/opposite/identity/equal-y-different-x (Q = +-lambda P), corner scalars as bit prefixes of longer scalars, sequences that reuse one pair of coordinate objects and one scalar buffer in place, scalar byte strings (corners with leading zeros, all-zero of length 0..40, 33-48 bytes, random), IsOnCurve on roots / negated roots / neighbours / (0,0) and on genuine curve points whose y lies in [n, p) or within 64 of p (x by cube root); every operation on both copies of the curve = affine reference with explicit case analysis, identity as (0,0), no panic; group laws on the implementation alone; non-trivial = corner pair/scalar, identity involved, law instance, on-curve query; distinct by case",
	})
}

// complete corner grid: all corner pairs for Add, all corner scalars for the scalar API
func TestCornerGrid(t *testing.T) {
	h.RunEnum(t, h.Enum[opCase]{
		Prop: "C17", Name: "corner-grid",
		Rule: "complete grid over the 18 corner scalars: Add on all 324 ordered pairs, Double, ScalarBaseMult and ScalarMult (on 4 base points incl. the identity) for every corner scalar with 0..2 leading zero bytes",
		Each: func(yield func(opCase) bool) {
			cs := cornerScalars()
			for _, a := range cs {
				if !yield(opCase{Op: "double", K1: hexOf(a)}) {
					return
				}
				for _, b := range cs {
					if !yield(opCase{Op: "add", K1: hexOf(a), K2: hexOf(b)}) {
						return
					}
				}
				for z := 0; z < 3; z++ {
					sb := append(make([]byte, z), a.Bytes()...)
					if !yield(opCase{Op: "basemult", K1: "1", Scalar: sb}) {
						return
					}
					for _, base := range []string{"0", "1", "2", hexOf(new(big.Int).Sub(K.N, bigOne)).str()} {
						if !yield(opCase{Op: "mult", K1: scalar(base), Scalar: sb}) {
							return
						}
					}
				}
			}
		},
		Check: func(c opCase) (h.Info, error) {
			info, err := checkOp(c)
			info.NT = true
			return info, err
		},
	})
}

func (s scalar) str() string { return string(s) }

// every combination of special 64-bit limbs: each of the four limbs of a 32-byte scalar is the limb of n, that
// limb minus one, plus one, zero or all ones (625 scalars, above and below n): the carry and borrow chains of
// a limb-wise comparison with / reduction by the group order
func TestLimbGrid(t *testing.T) {
	nb := K.N.FillBytes(make([]byte, 32))
	h.RunEnum(t, h.Enum[opCase]{
		Prop: "C17", Name: "limb-grid",
		Rule: "complete enumeration of the 5^4 32-byte scalars whose 64-bit limbs are each the limb of n, that limb -1 / +1 (wrapping), zero or all ones: ScalarBaseMult on both copies = reference multiple; all non-trivial",
		Each: func(yield func(opCase) bool) {
			for mix := 0; mix < 625; mix++ {
				sb := make([]byte, 32)
				for li, m := 0, mix; li < 4; li, m = li+1, m/5 {
					v := new(big.Int).SetBytes(nb[li*8 : li*8+8])
					switch m % 5 {
					case 1:
						v.Sub(v, bigOne)
					case 2:
						v.Add(v, bigOne)
					case 3:
						v.SetInt64(0)
					case 4:
						v.SetUint64(^uint64(0))
					}
					v.And(v, new(big.Int).SetUint64(^uint64(0)))
					v.FillBytes(sb[li*8 : li*8+8])
				}
				if !yield(opCase{Op: "basemult", K1: "1", Scalar: sb}) {
					return
				}
			}
		},
		Check: func(c opCase) (h.Info, error) {
			info, err := checkOp(c)
			info.NT = true
			return info, err
		},
	})
}

// FuzzGenOps: the structured generator driven by Go's coverage-guided fuzzer (thorough tier).
func FuzzGenOps(f *testing.F) {
	h.FuzzSub(f, h.Sub[opCase]{Prop: "C17", Name: "group-ops", Gen: genOp, Check: checkOp})
}

// which public entry point is called first in a process (and by how many goroutines at once)
func TestFirstCalls(t *testing.T) { h.FirstCallsSub(t, "C17", fc.Secp256k1(), 6) }
