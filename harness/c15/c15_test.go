// C15 — Merkle Hash is the RFC 6962-style tree hash for every leaf count.
package c15

import (
	"bytes"
	"crypto"
	"crypto/md5"
	_ "crypto/sha1"
	_ "crypto/sha256"
	_ "crypto/sha512"
	"encoding"
	"errors"
	"fmt"
	"io"
	"runtime"
	"testing"
	"time"

	"github.com/wollac/iota-crypto-demo/pkg/merkle"
	_ "golang.org/x/crypto/blake2b"
	_ "golang.org/x/crypto/blake2s"
	_ "golang.org/x/crypto/ripemd160"
	_ "golang.org/x/crypto/sha3"
	"pgregory.net/rapid"

	"verifharness/fc"
	"verifharness/h"
)

func TestMain(m *testing.M) {
	h.FirstCallsChild(fc.Merkle()) // never returns in a first-call child process
	lateRegistration()
	h.Main(m)
}

// lateRegistration: a Hasher for crypto.MD4 is created while no implementation is registered for that
// identifier (nothing in this binary links x/crypto/md4); only then the harness registers one (MD5 under
// MD4's identifier: a 16-byte digest, as crypto.MD4.Size() promises). The identifier becomes entry 17 of
// hashes and the early Hasher is the one all cases use for it, so every sub-check also covers "the hash
// function became available after NewHasher". A library that refuses to construct a Hasher for an
// unavailable function is not contradicted by the statement: then the Hasher is simply created later.
func lateRegistration() {
	if crypto.MD4.Available() {
		h.Note("C15: crypto.MD4 is already registered in this binary; no late registration")
		return
	}
	var early *merkle.Hasher
	func() {
		defer func() {
			if r := recover(); r != nil {
				h.Note("C15: NewHasher panics for a hash function that is not registered yet (%v); the Hasher is created after registration", r)
			}
		}()
		early = merkle.NewHasher(crypto.MD4)
	}()
	crypto.RegisterHash(crypto.MD4, md5.New)
	hashes = append(hashes, crypto.MD4)
	if early != nil {
		hashers[len(hashes)-1] = early
	}
}

// every hash function of the crypto registry that is linked in (the first four are the ones the
// library's own tests and examples use)
var hashes = []crypto.Hash{crypto.SHA256, crypto.SHA512, crypto.BLAKE2b_256, crypto.SHA1,
	crypto.SHA224, crypto.SHA384, crypto.SHA512_224, crypto.SHA512_256, crypto.SHA3_224, crypto.SHA3_256, crypto.SHA3_384, crypto.SHA3_512,
	crypto.BLAKE2b_384, crypto.BLAKE2b_512, crypto.BLAKE2s_256, crypto.MD5, crypto.RIPEMD160}

func hsum(hf crypto.Hash, parts ...[]byte) []byte {
	x := hf.New()
	for _, p := range parts {
		x.Write(p)
	}
	return x.Sum(nil)
}

// refRoot: iterative bottom-up construction with a binary-counter stack (no recursion,
// no split function): push leaf hashes; while the number of leaves seen has a trailing
// 1-bit pattern, merge equal-height subtrees; at the end fold the stack right to left.
func refRoot(hf crypto.Hash, leaves [][]byte) []byte {
	if len(leaves) == 0 {
		return hsum(hf)
	}
	type node struct {
		h      []byte
		height int
	}
	var stack []node
	for _, l := range leaves {
		stack = append(stack, node{hsum(hf, []byte{0}, l), 0})
		for len(stack) >= 2 && stack[len(stack)-1].height == stack[len(stack)-2].height {
			r, l := stack[len(stack)-1], stack[len(stack)-2]
			stack = stack[:len(stack)-2]
			stack = append(stack, node{hsum(hf, []byte{1}, l.h, r.h), l.height + 1})
		}
	}
	for len(stack) >= 2 {
		r, l := stack[len(stack)-1], stack[len(stack)-2]
		stack = stack[:len(stack)-2]
		stack = append(stack, node{hsum(hf, []byte{1}, l.h, r.h), l.height + 1})
	}
	return stack[0].h
}

// RFC 9162 section 2.1.3.1: audit path for leaf m in a tree of n leaves, computed on the
// reference's own subtree hashes (PATH(m, D_n)), k = largest power of two < n.
func refPath(hf crypto.Hash, leaves [][]byte, m int) [][]byte {
	n := len(leaves)
	if n <= 1 {
		return nil
	}
	k := 1
	for k*2 < n {
		k *= 2
	}
	if m < k {
		return append(refPath(hf, leaves[:k], m), refRoot(hf, leaves[k:]))
	}
	return append(refPath(hf, leaves[k:], m-k), refRoot(hf, leaves[:k]))
}

// RFC 9162 section 2.1.3.2: verify an inclusion proof (iterative fn/sn algorithm).
func verifyInclusion(hf crypto.Hash, leaf []byte, index, size int, path [][]byte, root []byte) bool {
	if index >= size {
		return false
	}
	fn, sn := index, size-1
	r := hsum(hf, []byte{0}, leaf)
	for _, p := range path {
		if sn == 0 {
			return false
		}
		if fn&1 == 1 || fn == sn {
			r = hsum(hf, []byte{1}, p, r)
			if fn&1 == 0 {
				for fn&1 == 0 && fn != 0 {
					fn >>= 1
					sn >>= 1
				}
			}
		} else {
			r = hsum(hf, []byte{1}, r, p)
		}
		fn >>= 1
		sn >>= 1
	}
	return sn == 0 && bytes.Equal(r, root)
}

// leaf types
type rawLeaf []byte

func (l rawLeaf) MarshalBinary() ([]byte, error) { return l, nil }

type structLeaf struct{ a, b []byte }

func (l *structLeaf) MarshalBinary() ([]byte, error) {
	return append(append([]byte{}, l.a...), l.b...), nil
}

// scratchLeaf marshals into one buffer shared by all leaves of a list: the returned slice is valid only
// until the next MarshalBinary call (a marshaler is free to work like that; Hash must consume each
// encoding before asking for the next one).
type scratchLeaf struct {
	content []byte
	buf     *[]byte
}

func (l scratchLeaf) MarshalBinary() ([]byte, error) {
	*l.buf = append((*l.buf)[:0], l.content...)
	return *l.buf, nil
}

// nilLeaf marshals to a nil slice with a nil error: the empty encoding, like []byte{}.
type nilLeaf struct{}

func (nilLeaf) MarshalBinary() ([]byte, error) { return nil, nil }

// leaves whose dynamic value is nil (a nil slice, pointer, map or func of a type with a nil-safe
// MarshalBinary): they are perfectly good BinaryMarshalers with an empty encoding
type ptrLeaf struct{ content []byte }

func (l *ptrLeaf) MarshalBinary() ([]byte, error) {
	if l == nil {
		return []byte{}, nil
	}
	return l.content, nil
}

type mapLeaf map[string][]byte

func (l mapLeaf) MarshalBinary() ([]byte, error) { return l["content"], nil }

type funcLeaf func() []byte

func (l funcLeaf) MarshalBinary() ([]byte, error) {
	if l == nil {
		return nil, nil
	}
	return l(), nil
}

// nestedLeaf is a tree of trees: its encoding is the root of a subtree computed with the same Hasher
// from inside MarshalBinary (Hash is re-entered on the same object, on the same goroutine)
type nestedLeaf struct {
	hasher *merkle.Hasher
	sub    []encoding.BinaryMarshaler
}

func (l nestedLeaf) MarshalBinary() ([]byte, error) { return l.hasher.Hash(l.sub) }

type failLeaf struct{ idx int }

var errLeaf = errors.New("leaf cannot be marshalled")

type leafErr struct{ idx int }

func (e leafErr) Error() string { return fmt.Sprintf("leaf %d cannot be marshalled;", e.idx) }

func (l failLeaf) MarshalBinary() ([]byte, error) { return nil, leafErr{l.idx} }

// a leaf that cannot be marshalled can still be written, printed and read
func (l failLeaf) WriteTo(w io.Writer) (int64, error) {
	n, err := w.Write([]byte("decoy:WriteTo"))
	return int64(n), err
}
func (l failLeaf) String() string { return "decoy:String" }

// decoyLeaf has, next to MarshalBinary, the other ways Go types hand out bytes (io.WriterTo, io.Reader,
// Bytes, String, MarshalText, GobEncode, MarshalJSON): each yields something else, and the consuming ones
// (WriteTo, Read) use the leaf up. Only MarshalBinary defines the leaf.
type decoyLeaf struct {
	content  []byte
	consumed *int
}

func (l *decoyLeaf) MarshalBinary() ([]byte, error) { return l.content, nil }
func (l *decoyLeaf) WriteTo(w io.Writer) (int64, error) {
	*l.consumed++
	n, err := w.Write([]byte("decoy:WriteTo"))
	return int64(n), err
}
func (l *decoyLeaf) Read(p []byte) (int, error) {
	*l.consumed++
	return copy(p, "decoy:Read"), io.EOF
}
func (l *decoyLeaf) Bytes() []byte                { return []byte("decoy:Bytes") }
func (l *decoyLeaf) String() string               { return "decoy:String" }
func (l *decoyLeaf) Len() int                     { return 11 }
func (l *decoyLeaf) MarshalText() ([]byte, error) { return []byte("decoy:MarshalText"), nil }
func (l *decoyLeaf) GobEncode() ([]byte, error)   { return []byte("decoy:GobEncode"), nil }
func (l *decoyLeaf) MarshalJSON() ([]byte, error) { return []byte(`"decoy:MarshalJSON"`), nil }

var hashers = map[int]*merkle.Hasher{}

// the root returned for the previous case, as returned (same backing array) and as a private copy
var (
	keptRoot, keptRootCopy []byte
	keptRootWhat           string
)

// name of the sub-check in progress (for reports that end the process)
var curSub = "random-trees"

type treeCase struct {
	Hash   int   `json:"hash"` // index into hashes
	Leaves []h.B `json:"leaves"`
	Fail   []int `json:"fail,omitempty"`  // indices of leaves whose MarshalBinary fails
	Probe  []int `json:"probe,omitempty"` // leaf indices for inclusion proofs
}

func checkTree(c treeCase) (h.Info, error) {
	hf := hashes[c.Hash]
	n := len(c.Leaves)
	pow2 := n > 0 && n&(n-1) == 0
	info := h.Info{Class: "balanced", NT: false}
	switch {
	case n == 0:
		info.Class = "empty"
	case n == 1:
		info.Class = "single"
	case len(c.Fail) > 0:
		info = h.Info{Class: "failing-leaf", NT: true}
	case !pow2 && n >= 3:
		info = h.Info{Class: fmt.Sprintf("unbalanced/odd=%d", n&1), NT: true}
	}
	hasher := hashers[c.Hash] // reused from case to case
	if hasher == nil {
		hasher = merkle.NewHasher(hf)
		hashers[c.Hash] = hasher
	}
	if hasher.Size() != hf.Size() {
		return info, fmt.Errorf("Size() = %d", hasher.Size())
	}
	raw := make([][]byte, n)
	for i := range raw {
		raw[i] = c.Leaves[i]
	}
	failing := map[int]bool{}
	for _, f := range c.Fail {
		if f >= 0 && f < n {
			failing[f] = true
		}
	}
	data := make([]encoding.BinaryMarshaler, n)
	alt := make([]encoding.BinaryMarshaler, n)
	backing := make([][]byte, n)
	for i := range data {
		backing[i] = append([]byte{}, raw[i]...)
		if failing[i] {
			data[i] = failLeaf{i}
			alt[i] = failLeaf{i}
		} else {
			data[i] = rawLeaf(backing[i])
			cut := len(raw[i]) / 2
			alt[i] = &structLeaf{raw[i][:cut], raw[i][cut:]}
		}
	}
	snapshot := append([]encoding.BinaryMarshaler{}, data...)
	got, err := hasher.Hash(data)
	for i := range data {
		if failing[i] {
			continue
		}
		if !bytes.Equal(backing[i], raw[i]) {
			return info, fmt.Errorf("Hash modified leaf %d", i)
		}
		if fmt.Sprintf("%p", data[i]) != fmt.Sprintf("%p", snapshot[i]) {
			return info, fmt.Errorf("Hash modified the slice at %d", i)
		}
	}
	if len(failing) > 0 {
		first := n
		for f := range failing {
			if f < first {
				first = f
			}
		}
		var le leafErr
		// "the first marshaling error is returned": the error value itself, possibly wrapped so that
		// errors.As still finds it; a new error that only quotes its text is not that error
		isFirst := err != nil && errors.As(err, &le) && le.idx == first
		if len(got) != 0 || !isFirst { // "instead of a hash": no digest next to the error; nil or empty is not prescribed
			return info, fmt.Errorf("Hash with failing leaves %v: got %x, %v; want (nil, error of leaf %d)", c.Fail, got, err, first)
		}
		return info, nil
	}
	if err != nil {
		return info, fmt.Errorf("Hash: %v", err)
	}
	want := refRoot(hf, raw)
	if !bytes.Equal(got, want) {
		return info, fmt.Errorf("Hash of %d leaves with %v = %x, bottom-up reference %x", n, hf, got, want)
	}
	// roots handed out by earlier calls (any Hasher, any leaf count) belong to their callers: the root of the
	// previous case must still read the same now that this case has hashed its leaves
	if keptRoot != nil && !bytes.Equal(keptRoot, keptRootCopy) {
		return info, fmt.Errorf("the root returned for an earlier tree (%s) read %x when it was returned and reads %x after a later Hash call of %d leaves", keptRootWhat, keptRootCopy, keptRoot, n)
	}
	if fresh, err := hasher.Hash(data); err == nil {
		keptRoot, keptRootCopy, keptRootWhat = fresh, append([]byte{}, fresh...), fmt.Sprintf("%d leaves, %v", n, hf)
	}
	if n == 0 && !bytes.Equal(got, hasher.EmptyRoot()) {
		return info, fmt.Errorf("Hash(nil) != EmptyRoot()")
	}
	if n == 0 {
		g2, err := hasher.Hash(nil)
		if err != nil || !bytes.Equal(g2, want) {
			return info, fmt.Errorf("Hash(nil) = %x, %v", g2, err)
		}
	}
	// no state between calls: overwrite the returned root and hash the same leaves again
	for i := range got {
		got[i] ^= 0xff
	}
	if again, err := hasher.Hash(data); err != nil || !bytes.Equal(again, want) {
		return info, fmt.Errorf("second Hash of the same %d leaves = %x, %v after the first root was overwritten; want %x", n, again, err, want)
	}
	got = append([]byte{}, want...)
	g2, err := hasher.Hash(alt)
	if err != nil || !bytes.Equal(g2, got) {
		return info, fmt.Errorf("same marshalled content through another leaf type gives %x, %v (want %x)", g2, err, got)
	}
	// leaves that marshal into one shared scratch buffer
	if n >= 2 {
		shared := make([]byte, 0, 2048)
		fourth := make([]encoding.BinaryMarshaler, n)
		for i := range fourth {
			fourth[i] = scratchLeaf{raw[i], &shared}
		}
		if g4, err := hasher.Hash(fourth); err != nil || !bytes.Equal(g4, got) {
			return info, fmt.Errorf("the same %d leaves marshalled through one shared scratch buffer (each encoding valid until the next MarshalBinary call) give %x, %v (want %x)", n, g4, err, got)
		}
	}
	// leaves that can also be written, read, printed and encoded in other ways
	{
		consumed := 0
		fifth := make([]encoding.BinaryMarshaler, n)
		for i := range fifth {
			fifth[i] = &decoyLeaf{raw[i], &consumed}
		}
		for pass := 1; pass <= 2; pass++ {
			g5, err := hasher.Hash(fifth)
			if err != nil || !bytes.Equal(g5, got) {
				return info, fmt.Errorf("the same %d leaves through a type that also implements io.WriterTo, io.Reader, Bytes, String, MarshalText, GobEncode and MarshalJSON (all yielding other bytes than MarshalBinary) give %x, %v on pass %d (want %x: only the MarshalBinary encoding defines a leaf)", n, g5, err, pass, got)
			}
			if consumed != 0 {
				return info, fmt.Errorf("Hash called a consuming method (WriteTo / Read) of its leaves %d time(s): the inputs are used up", consumed)
			}
		}
	}
	// an empty leaf may come as a nil slice
	hasEmpty := false
	third := make([]encoding.BinaryMarshaler, n)
	for i := range third {
		third[i] = data[i]
		if len(raw[i]) == 0 {
			switch i % 5 {
			case 0:
				third[i] = nilLeaf{}
			case 1:
				third[i] = rawLeaf(nil) // the leaf value itself is a nil slice
			case 2:
				third[i] = (*ptrLeaf)(nil)
			case 3:
				third[i] = mapLeaf(nil)
			default:
				third[i] = funcLeaf(nil)
			}
			hasEmpty = true
		}
	}
	if hasEmpty {
		if g3, err := hasher.Hash(third); err != nil || !bytes.Equal(g3, got) {
			return info, fmt.Errorf("the same %d leaves with the empty ones given as a leaf marshalling to a nil slice / a nil slice value / a nil pointer / a nil map / a nil func (all with a nil error and an empty encoding) give %x, %v (want %x)", n, g3, err, got)
		}
	}
	// a tree of trees: leaf j is replaced by a leaf whose encoding is the root of a subtree over the same
	// Hasher, computed inside MarshalBinary; the reference hashes the subtree first
	if n >= 2 && n <= 64 {
		j := n / 3
		sub := data[:1+n/2]
		subRoot := refRoot(hf, raw[:1+n/2])
		outerRaw := append([][]byte{}, raw...)
		outerRaw[j] = subRoot
		outer := append([]encoding.BinaryMarshaler{}, data...)
		outer[j] = nestedLeaf{hasher, sub}
		type res struct {
			root []byte
			err  error
		}
		ch := make(chan res, 1)
		go func() {
			r, err := hasher.Hash(outer)
			ch <- res{r, err}
		}()
		select {
		case r := <-ch:
			if want := refRoot(hf, outerRaw); r.err != nil || !bytes.Equal(r.root, want) {
				return info, fmt.Errorf("%d leaves of which leaf %d computes the root of a %d-leaf subtree with the same Hasher inside MarshalBinary: %x, %v; reference %x", n, j, len(sub), r.root, r.err, want)
			}
		case <-time.After(60 * time.Second):
			h.FailAndExit("C15", curSub, c, fmt.Errorf("Hash did not return within 60 s: %d leaves of which leaf %d computes the root of a %d-leaf subtree with the same Hasher inside its MarshalBinary (Hash re-entered on the same Hasher)", n, j, len(sub)))
		}
	}
	for _, m := range c.Probe {
		if m < 0 || m >= n {
			continue
		}
		if !verifyInclusion(hf, raw[m], m, n, refPath(hf, raw, m), got) {
			return info, fmt.Errorf("RFC 9162 inclusion proof of leaf %d/%d does not verify against the returned root %x", m, n, got)
		}
	}
	return info, nil
}

func patternLeaves(n, variant int) []h.B {
	out := make([]h.B, n)
	for i := range out {
		switch variant {
		case 0:
			out[i] = h.B{byte(i), byte(i >> 8), byte(i >> 16)}
		case 1:
			out[i] = h.B{} // all leaves empty and equal
		default:
			l := (i*7 + n) % 41
			if i%5 == 3 {
				l = 120 + (i/5+n)%16 // 120..135: around 128
			}
			b := make([]byte, l)
			for j := range b {
				b[j] = byte(i*31 + j*17 + n)
			}
			out[i] = b
		}
	}
	return out
}

// every leaf count 0..N
type countCase struct {
	N, Hash, Variant int
}

func TestEveryCount(t *testing.T) {
	maxN := 600
	if h.Thorough() {
		maxN = 6000
	}
	h.RunEnum(t, h.Enum[countCase]{
		Prop: "C15", Name: "every-leaf-count",
		Rule: fmt.Sprintf("complete enumeration of every leaf count 0..%d (x hash function by rotation x 3 leaf patterns by rotation, SHA-256 for every count) plus n = 0..5 under each of the 17 linked hash functions and under an identifier (crypto.MD4) whose implementation the harness registers only after the Hasher was created, plus 2^k+{-2..2} for k <= 13 (quick) / 18 (thorough) and 65537, 65538, 98305, 131073 in every tier; root = iterative bottom-up reference, RFC 9162 inclusion proofs of leaves 0, n/2, k-1, k, n-1 verify; non-trivial = n >= 3 and not a power of two; distinct by construction", maxN),
		Each: func(yield func(countCase) bool) {
			for n := 0; n <= maxN; n++ {
				if !yield(countCase{n, 0, n % 3}) {
					return
				}
				if !yield(countCase{n, 1 + n%3, (n + 1) % 3}) {
					return
				}
			}
			// the smallest trees (incl. the empty one) under every linked hash function
			for hi := range hashes {
				for n := 0; n <= 5; n++ {
					if !yield(countCase{n, hi, n % 3}) {
						return
					}
				}
			}
			maxK := 13
			if h.Thorough() {
				maxK = 18
			}
			for k := 9; k <= maxK; k++ {
				for d := -2; d <= 2; d++ {
					if n := 1<<k + d; n > maxN {
						if !yield(countCase{n, k % 4, 0}) {
							return
						}
					}
				}
			}
			// a few counts beyond 2^16 / 2^17 in every tier (shift-width and int-size slips)
			for _, n := range []int{1<<16 + 1, 1<<16 + 2, 1<<17 + 1, 3<<15 + 1} {
				if maxK < 16 {
					if !yield(countCase{n, 0, 0}) {
						return
					}
				}
			}
		},
		Check: func(c countCase) (h.Info, error) {
			n := c.N
			k := 1
			for k*2 < n {
				k *= 2
			}
			tc := treeCase{Hash: c.Hash, Leaves: patternLeaves(n, c.Variant), Probe: []int{0, n / 2, k - 1, k, n - 1}}
			curSub = "every-leaf-count"
			info, err := checkTree(tc)
			curSub = "random-trees"
			if err != nil {
				return info, fmt.Errorf("n=%d hash=%d variant=%d: %w", c.N, c.Hash, c.Variant, err)
			}
			return info, nil
		},
		Require: []string{"empty", "single", "balanced", "unbalanced/odd=0", "unbalanced/odd=1"},
	})
}

// ---- configuration: scheduler width (GOMAXPROCS) x large leaf counts ----

type procsCase struct {
	Procs   int `json:"gomaxprocs"`
	N       int `json:"n"`
	Hash    int `json:"hash"`
	Variant int `json:"variant"`
}

func TestSchedulerWidth(t *testing.T) {
	h.Run(t, h.Sub[procsCase]{
		Prop: "C15", Name: "gomaxprocs-x-large-counts", N: 96,
		Gen: func(t *rapid.T) procsCase {
			c := procsCase{Procs: h.OneOf(t, "procs", 1, 2, 3, 4, 5, 6, 7, 8, 9, 10, 12, 15, 16, 24, 32), Hash: rapid.IntRange(0, len(hashes)-1).Draw(t, "hash"), Variant: rapid.IntRange(0, 2).Draw(t, "variant")}
			switch h.Pick(t, "nk", 3, 3, 2) {
			case 0:
				c.N = 1 << uint(rapid.IntRange(10, 13).Draw(t, "k"))
				c.N += rapid.IntRange(-2, 2).Draw(t, "d")
			case 1:
				c.N = rapid.IntRange(1000, 3000).Draw(t, "n")
			default:
				c.N = rapid.IntRange(3001, 9000).Draw(t, "nl")
			}
			return c
		},
		Check: func(c procsCase) (h.Info, error) {
			if c.Procs < 1 || c.Procs > 64 || c.N < 0 || c.N > 1<<16 {
				return h.Info{}, fmt.Errorf("PRECONDITION: procs/n")
			}
			old := runtime.GOMAXPROCS(c.Procs)
			defer runtime.GOMAXPROCS(old)
			k := 1
			for k*2 < c.N {
				k *= 2
			}
			_, err := checkTree(treeCase{Hash: c.Hash, Leaves: patternLeaves(c.N, c.Variant), Probe: []int{0, k, c.N - 1}})
			info := h.Info{Class: "procs=power-of-two", NT: true}
			if c.Procs&(c.Procs-1) != 0 {
				info.Class = "procs=other"
			}
			if err != nil {
				return info, fmt.Errorf("GOMAXPROCS=%d, n=%d hash=%d variant=%d: %w", c.Procs, c.N, c.Hash, c.Variant, err)
			}
			return info, nil
		},
		Require: []string{"procs=power-of-two", "procs=other"},
		Rule:    "configurations: GOMAXPROCS in {1..10, 12, 15, 16, 24, 32} x leaf counts 1000..9000 (weighted to 2^k+-2, k = 10..13) x 4 hash functions: root = bottom-up reference and RFC 9162 inclusion proofs verify, whatever the scheduler width; all non-trivial",
	})
}

// ---- concurrent callers sharing one Hasher ----

type concCase struct {
	Hash  int     `json:"hash"`
	Trees [][]h.B `json:"trees"`
	Iters int     `json:"iters"`
}

func checkConcurrent(c concCase) (h.Info, error) {
	hf := hashes[c.Hash]
	info := h.Info{Class: fmt.Sprintf("goroutines=%d", len(c.Trees)), NT: len(c.Trees) > 1}
	hasher := merkle.NewHasher(hf)
	wants := make([][]byte, len(c.Trees))
	datas := make([][]encoding.BinaryMarshaler, len(c.Trees))
	for g, tr := range c.Trees {
		raw := make([][]byte, len(tr))
		for i := range tr {
			raw[i] = tr[i]
			datas[g] = append(datas[g], rawLeaf(append([]byte{}, tr[i]...)))
		}
		wants[g] = refRoot(hf, raw)
	}
	err := h.Parallel(len(c.Trees), func(g int) error {
		for it := 0; it < c.Iters; it++ {
			got, err := hasher.Hash(datas[g])
			if err != nil || !bytes.Equal(got, wants[g]) {
				return fmt.Errorf("goroutine %d of %d sharing one Hasher (%v), iteration %d: Hash of its own %d leaves = %x, %v; bottom-up reference %x", g, len(c.Trees), hf, it, len(datas[g]), got, err, wants[g])
			}
		}
		return nil
	})
	return info, err
}

func TestConcurrent(t *testing.T) {
	h.Run(t, h.Sub[concCase]{
		Prop: "C15", Name: "concurrent-callers", N: 80,
		Gen: func(t *rapid.T) concCase {
			c := concCase{Hash: rapid.IntRange(0, len(hashes)-1).Draw(t, "hash"), Iters: 60}
			for i := h.OneOf(t, "g", 2, 4, 8); i > 0; i-- {
				tc := genTree(t)
				if len(tc.Leaves) > 40 {
					tc.Leaves = tc.Leaves[:40]
				}
				c.Trees = append(c.Trees, tc.Leaves)
			}
			return c
		},
		Check:   checkConcurrent,
		Require: []string{"goroutines=2", "goroutines=8"},
		Rule:    "schedules: 2..8 goroutines released together share one Hasher and hash their own leaf lists (0..40 leaves) 60 times each; every root = bottom-up reference computed beforehand; all non-trivial",
	})
}

func genTree(t *rapid.T) treeCase {
	var n int
	switch h.Pick(t, "nk", 5, 3, 2) {
	case 0:
		n = rapid.IntRange(0, 20).Draw(t, "n")
	case 1:
		n = rapid.IntRange(0, 300).Draw(t, "n")
	default:
		k := rapid.IntRange(1, 9).Draw(t, "k")
		n = 1<<k + rapid.IntRange(-2, 2).Draw(t, "d")
		if n < 0 {
			n = 0
		}
	}
	leaves := make([]h.B, n)
	equal := h.Pick(t, "eq", 6, 1) == 1
	for i := range leaves {
		if equal && i > 0 {
			leaves[i] = leaves[0]
			continue
		}
		switch h.Pick(t, "lk", 5, 1, 1, 2) {
		case 3: // lengths around hash block sizes and small buffers
			l := h.OneOf(t, "ll", 31, 32, 33, 55, 56, 63, 64, 65, 111, 112, 119, 120, 127, 128, 129, 130, 255, 256, 257, 1000)
			leaves[i] = h.BytesN(t, "leafb", l)
		case 0:
			leaves[i] = h.Bytes(t, "leaf", 0, 40)
		case 1:
			leaves[i] = h.B{}
		default: // content that looks like an inner node: 0x01 || 2 hashes
			leaves[i] = append(h.B{1}, h.BytesN(t, "node", 64)...)
		}
	}
	c := treeCase{Hash: rapid.IntRange(0, len(hashes)-1).Draw(t, "hash"), Leaves: leaves}
	if n > 0 {
		if h.Pick(t, "fk", 4, 1) == 1 {
			c.Fail = rapid.SliceOfN(rapid.IntRange(0, n-1), 1, 3).Draw(t, "fail")
		}
		c.Probe = rapid.SliceOfN(rapid.IntRange(0, n-1), 0, 4).Draw(t, "probe")
	}
	return c
}

func TestRandomTrees(t *testing.T) {
	h.Run(t, h.Sub[treeCase]{
		Prop: "C15", Name: "random-trees", N: 6000,
		Gen: genTree, Check: checkTree,
		Require: []string{"failing-leaf", "unbalanced/odd=0", "unbalanced/odd=1", "balanced", "empty", "single"},
		Rule:    "0..300 leaves (and 2^k+-2) with random contents 0..40 bytes incl. empty, equal and node-shaped leaves, 4 hash functions, optional failing leaves (first error by index must be returned), second leaf type with equal marshalled content, inputs unmodified, inclusion proofs; non-trivial = n >= 3 not a power of two, or failing leaves; distinct by case",
	})
}

// FuzzGenTrees: the structured generator driven by Go's coverage-guided fuzzer (thorough tier).
func FuzzGenTrees(f *testing.F) {
	h.FuzzSub(f, h.Sub[treeCase]{Prop: "C15", Name: "random-trees", Gen: genTree, Check: checkTree})
}

// which public entry point is called first in a process (and by how many goroutines at once)
func TestFirstCalls(t *testing.T) { h.FirstCallsSub(t, "C15", fc.Merkle(), 6) }
