// Package hostile constructs inputs aimed at shortcuts an implementation might take: here, inputs that
// collide under the short non-cryptographic hashes (32-bit FNV-1 / FNV-1a) commonly used as cache or
// index keys.  A correct implementation is indifferent to them; one that identifies a string by such
// a hash alone is not.
package hostile

const (
	fnvOffset32 = 2166136261
	fnvPrime32  = 16777619
)

var fnvPrimeInv32 = func() uint32 { // multiplicative inverse of the prime mod 2^32 (Newton iteration)
	x := uint32(fnvPrime32)
	for i := 0; i < 5; i++ {
		x *= 2 - fnvPrime32*x
	}
	if x*fnvPrime32 != 1 {
		panic("fnv inverse")
	}
	return x
}()

func step(h uint32, b byte, a bool) uint32 {
	if a {
		return (h ^ uint32(b)) * fnvPrime32
	}
	return (h * fnvPrime32) ^ uint32(b)
}

func unstep(h uint32, b byte, a bool) uint32 {
	if a {
		return (h * fnvPrimeInv32) ^ uint32(b)
	}
	return (h ^ uint32(b)) * fnvPrimeInv32
}

// FNV32 is the 32-bit FNV-1a (a = true) or FNV-1 hash of s.
func FNV32(s []byte, a bool) uint32 {
	h := uint32(fnvOffset32)
	for _, b := range s {
		h = step(h, b, a)
	}
	return h
}

// FNVNeighbour looks for a string m != v of the same length and the same FNV hash that differs from
// v only inside one window of four adjacent positions within [lo, hi) and uses only alphabet bytes
// there (meet in the middle over the two halves of the window: about 2*len(alphabet)^2 steps per
// window). For a 32-symbol alphabet a window succeeds with probability about 2^-12.
func FNVNeighbour(v []byte, lo, hi int, alphabet []byte, a bool) ([]byte, bool) {
	n := len(v)
	if hi > n {
		hi = n
	}
	pre := make([]uint32, n+1) // pre[i] = state after v[:i]
	pre[0] = fnvOffset32
	for i, b := range v {
		pre[i+1] = step(pre[i], b, a)
	}
	target := pre[n]
	// back[i] = state that must hold after position i-1 so that v[i:] leads to target
	back := make([]uint32, n+1)
	back[n] = target
	for i := n - 1; i >= 0; i-- {
		back[i] = unstep(back[i+1], v[i], a)
	}
	type pair struct{ x, y byte }
	fwd := make(map[uint32]pair, len(alphabet)*len(alphabet))
	for w := lo; w+4 <= hi; w++ {
		for k := range fwd {
			delete(fwd, k)
		}
		for _, x := range alphabet {
			hx := step(pre[w], x, a)
			for _, y := range alphabet {
				fwd[step(hx, y, a)] = pair{x, y}
			}
		}
		for _, d := range alphabet {
			hd := unstep(back[w+4], d, a)
			for _, c := range alphabet {
				if p, ok := fwd[unstep(hd, c, a)]; ok {
					if p.x == v[w] && p.y == v[w+1] && c == v[w+2] && d == v[w+3] {
						continue
					}
					m := append([]byte{}, v...)
					m[w], m[w+1], m[w+2], m[w+3] = p.x, p.y, c, d
					if FNV32(m, a) != target {
						panic("FNVNeighbour: construction failed")
					}
					return m, true
				}
			}
		}
	}
	return nil, false
}

// FNVCollisions enumerates all strings of exactly k units (each unit one of the given byte strings) and
// returns, for at most max of them, those whose hash equals the hash of one of the words without being
// one of the words: pairs (impostor, word).
func FNVCollisions(words []string, units []string, k int, a bool, max int) [][2]string {
	byHash := make(map[uint32]string, len(words))
	isWord := make(map[string]bool, len(words))
	for _, w := range words {
		byHash[FNV32([]byte(w), a)] = w
		isWord[w] = true
	}
	var out [][2]string
	idx := make([]int, k)
	states := make([]uint32, k+1)
	states[0] = fnvOffset32
	adv := func(from int) { // recompute states[from+1..k]
		for i := from; i < k; i++ {
			h := states[i]
			for j := 0; j < len(units[idx[i]]); j++ {
				h = step(h, units[idx[i]][j], a)
			}
			states[i+1] = h
		}
	}
	adv(0)
	for {
		if w, ok := byHash[states[k]]; ok {
			s := ""
			for _, i := range idx {
				s += units[i]
			}
			if !isWord[s] {
				out = append(out, [2]string{s, w})
				if len(out) >= max {
					return out
				}
			}
		}
		p := k - 1
		for p >= 0 {
			idx[p]++
			if idx[p] < len(units) {
				break
			}
			idx[p] = 0
			p--
		}
		if p < 0 {
			return out
		}
		adv(p)
	}
}
