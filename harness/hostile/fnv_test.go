package hostile

import (
	"hash/fnv"
	"testing"
)

func TestFNV(t *testing.T) {
	for _, s := range []string{"", "a", "hello world"} {
		h1 := fnv.New32a()
		h1.Write([]byte(s))
		h0 := fnv.New32()
		h0.Write([]byte(s))
		if FNV32([]byte(s), true) != h1.Sum32() || FNV32([]byte(s), false) != h0.Sum32() {
			t.Fatal("FNV32 mismatch")
		}
	}
	alpha := []byte("qpzry9x8gf2tvdw0s3jn54khce6mua7l")
	found := 0
	for i := 0; i < 400 && found == 0; i++ {
		v := []byte("iota1qpzry9x8gf2tvdw0s3jn54khce6mua7lqpzry9x8gf2tvdw0s3jn54khce6mua7l")
		v[10] = alpha[i%32]
		v[11] = alpha[(i/32)%32]
		if m, ok := FNVNeighbour(v, 5, len(v), alpha, true); ok {
			found++
			t.Logf("%s ~ %s", v, m)
		}
	}
	if found == 0 {
		t.Fatal("no neighbour found")
	}
	var units []string
	for c := 'a'; c <= 'z'; c++ {
		units = append(units, string(c))
	}
	col := FNVCollisions([]string{"hello", "heart", "verify", "clock", "potato", "solar"}, units, 6, true, 3)
	t.Log(col)
}
