// C16 — the Bech32 checksum detects every error of up to four characters.
package c16

import (
	"crypto/sha256"
	"fmt"
	"sort"
	"sync"
	"testing"

	"github.com/wollac/iota-crypto-demo/pkg/bech32"
	"pgregory.net/rapid"

	"verifharness/bgen"
	"verifharness/fc"
	"verifharness/h"
	"verifharness/hostile"
	ref "verifharness/ref/bech32"
)

func TestMain(m *testing.M) {
	h.FirstCallsChild(fc.Bech32()) // never returns in a first-call child process
	if err := ref.SelfCheck(); err != nil {
		fmt.Println("VERIF-INFRA reference self-check failed:", err)
		panic(err)
	}
	h.Main(m)
}

// ---------- (1) syndrome level, black box through the real Encode ----------

func symOf(c byte) int {
	for i := 0; i < 32; i++ {
		if ref.Charset[i] == c {
			return i
		}
	}
	return -1
}

// checksumOf returns the 30-bit checksum value of Encode(hrp, data) read from the string.
func checksumOf(hrp string, data []byte) (uint32, error) {
	s, err := bech32.Encode(hrp, data)
	if err != nil {
		return 0, err
	}
	var v uint32
	for i := len(s) - 6; i < len(s); i++ {
		x := symOf(s[i])
		if x < 0 {
			return 0, fmt.Errorf("non-charset checksum character in %q", s)
		}
		v = v<<5 | uint32(x)
	}
	return v, nil
}

// setSym writes 5-bit value v as symbol j of the byte string (MSB-first regrouping).
func xorSym(data []byte, j int, v byte) {
	for b := 0; b < 5; b++ {
		if v>>(4-b)&1 == 1 {
			bit := j*5 + b
			data[bit/8] ^= 0x80 >> (bit % 8)
		}
	}
}

type synCase struct {
	D1, V1, D2, V2 int
	Note           string
}

// measure S[d][v] for d = 0..88 via checksum differences of the real encoder.
func measureTable() (tab [89][32]uint32, err error) {
	// d = 0..5: the checksum symbols themselves
	for d := 0; d < 6; d++ {
		for v := 1; v < 32; v++ {
			tab[d][v] = uint32(v) << (5 * d)
		}
	}
	measure := func(hrp string, nbytes int, j int, v byte) (uint32, error) {
		base := make([]byte, nbytes)
		for i := range base {
			base[i] = byte(i*73 + 11)
		}
		c0, err := checksumOf(hrp, base)
		if err != nil {
			return 0, err
		}
		mod := append([]byte{}, base...)
		xorSym(mod, j, v)
		c1, err := checksumOf(hrp, mod)
		if err != nil {
			return 0, err
		}
		return c0 ^ c1, nil
	}
	seen := [89]bool{}
	// 50 bytes = 80 whole symbols: symbol j is at distance d = 6 + 79 - j
	for j := 0; j < 80; j++ {
		d := 6 + 79 - j
		for v := 1; v < 32; v++ {
			s, err := measure("a", 50, j, byte(v))
			if err != nil {
				return tab, err
			}
			tab[d][v] = s
		}
		seen[d] = true
	}
	// 51 bytes = 82 symbols (last one carries 3 data bits): symbol j at d = 6 + 81 - j; j <= 80 are whole
	for j := 0; j <= 80; j++ {
		d := 6 + 81 - j
		for v := 1; v < 32; v++ {
			s, err := measure("a", 51, j, byte(v))
			if err != nil {
				return tab, err
			}
			if seen[d] && tab[d][v] != s {
				return tab, fmt.Errorf("syndrome of (distance %d, value %d) depends on the payload length: %08x vs %08x", d, v, tab[d][v], s)
			}
			tab[d][v] = s
		}
		seen[d] = true
	}
	// d = 88: the low bits of a one-letter prefix in front of 82 data symbols
	data := make([]byte, 51)
	for i := range data {
		data[i] = byte(i*73 + 11)
	}
	for v := 1; v < 32; v++ {
		a, b := byte(96), byte(96+v) // '`' has low bits 0
		if v == 31 {
			a, b = 'a', '~' // 1 ^ 30
		}
		ca, err := checksumOf(string([]byte{a}), data)
		if err != nil {
			return tab, err
		}
		cb, err := checksumOf(string([]byte{b}), data)
		if err != nil {
			return tab, err
		}
		tab[88][v] = ca ^ cb
	}
	return tab, nil
}

func TestSyndromes(t *testing.T) {
	if si, _ := h.Shard(); si != 0 {
		return
	}
	bulk := h.NewBulk("syndromes-weight<=4", "black-box syndrome table S[d][v] (d = 0..88 symbols from the end, v = 1..31) measured as checksum differences of the real Encode; linearity checked for all d, v1, v2; then {0} u singles u pairs (3 766 036 syndromes) must be pairwise distinct = no error pattern of weight 1..4 inside the 89-symbol window [low prefix bits][data][checksum] has zero syndrome; each syndrome is one evaluation, distinct by construction", []string{"single", "pair"}, true)
	tab, err := measureTable()
	if err != nil {
		h.Fail(t, "C16", "syndrome-table", synCase{Note: err.Error()}, err)
		bulk.Failed()
		return
	}
	// linearity in the value: S[d][v1^v2] = S[d][v1]^S[d][v2]
	for d := 0; d < 89; d++ {
		for v1 := 1; v1 < 32; v1++ {
			for v2 := 1; v2 < 32; v2++ {
				if v1 == v2 {
					continue
				}
				if tab[d][v1^v2] != tab[d][v1]^tab[d][v2] {
					err := fmt.Errorf("checksum not linear at distance %d: S[%d^%d] != S[%d]^S[%d]", d, v1, v2, v1, v2)
					h.Fail(t, "C16", "syndrome-table", synCase{D1: d, V1: v1, D2: d, V2: v2}, err)
					bulk.Failed()
					return
				}
			}
		}
	}
	// prefix letters at other distances act like data symbols at the same distance (position-only dependence)
	for _, cfg := range []struct{ hl, nb int }{{5, 40}, {20, 25}, {83, 0}, {40, 10}} {
		nsym := (cfg.nb*8 + 4) / 5
		data := make([]byte, cfg.nb)
		hrp := make([]byte, cfg.hl)
		for i := range hrp {
			hrp[i] = 'b' + byte(i%20)
		}
		c0, err := checksumOf(string(hrp), data)
		if err != nil {
			t.Fatalf("VERIF-INFRA %v", err)
		}
		for k := 0; k < cfg.hl; k++ {
			d := 6 + nsym + (cfg.hl - 1 - k)
			mod := append([]byte{}, hrp...)
			mod[k] = 'z'
			v := int(hrp[k]&31) ^ int('z'&31)
			c1, err := checksumOf(string(mod), data)
			if err != nil {
				t.Fatalf("VERIF-INFRA %v", err)
			}
			if c0^c1 != tab[d][v] {
				err := fmt.Errorf("prefix letter %d of %d (distance %d) has syndrome %08x, data symbol at the same distance %08x", k, cfg.hl, d, c0^c1, tab[d][v])
				h.Fail(t, "C16", "syndrome-table", synCase{D1: d, V1: v, Note: "prefix-vs-data"}, err)
				bulk.Failed()
				return
			}
		}
	}
	// all syndromes of weight <= 2, each tagged with its pattern
	type ent struct {
		s uint32
		p uint32 // packed pattern d1,v1,d2,v2
	}
	all := make([]ent, 0, 3766036)
	all = append(all, ent{0, 0})
	for d := 0; d < 89; d++ {
		for v := 1; v < 32; v++ {
			all = append(all, ent{tab[d][v], uint32(d)<<24 | uint32(v)<<16 | 0xffff})
			bulk.Add("single", true, uint64(d)<<8|uint64(v))
		}
	}
	for d1 := 0; d1 < 89; d1++ {
		for d2 := d1 + 1; d2 < 89; d2++ {
			for v1 := 1; v1 < 32; v1++ {
				for v2 := 1; v2 < 32; v2++ {
					all = append(all, ent{tab[d1][v1] ^ tab[d2][v2], uint32(d1)<<24 | uint32(v1)<<16 | uint32(d2)<<8 | uint32(v2)})
				}
			}
		}
	}
	sort.Slice(all, func(i, j int) bool { return all[i].s < all[j].s })
	for i := 1; i < len(all); i++ {
		if all[i].s == all[i-1].s {
			a, b := all[i-1].p, all[i].p
			c := synCase{D1: int(a >> 24), V1: int(a >> 16 & 255), D2: int(b >> 24), V2: int(b >> 16 & 255),
				Note: fmt.Sprintf("patterns %08x and %08x (d1,v1,d2,v2 packed; ffff = single, 0 = no error) have the same syndrome %08x: their sum is an undetected error of weight <= 4", a, b, all[i].s)}
			h.Fail(t, "C16", "syndrome-table", c, fmt.Errorf("%s", c.Note))
			bulk.Failed()
			return
		}
	}
	// hostile constants: a verifier that also accepts another checksum constant (Bech32m's 0x2bc830a3
	// next to Bech32's 1, an all-zero residue, ...) accepts exactly the error patterns whose syndrome is
	// the XOR of the two constants. Such patterns of weight <= 4 are computed from the table (meet in
	// the middle) and tried end to end on valid strings of maximal length.
	unpack := func(p uint32) (out [][2]int) {
		if p == 0 {
			return nil
		}
		out = append(out, [2]int{int(p >> 24), int(p >> 16 & 255)})
		if p&0xffff != 0xffff {
			out = append(out, [2]int{int(p >> 8 & 255), int(p & 255)})
		}
		return out
	}
	find := func(s uint32) (uint32, bool) {
		i := sort.Search(len(all), func(i int) bool { return all[i].s >= s })
		if i < len(all) && all[i].s == s {
			return all[i].p, true
		}
		return 0, false
	}
	hostBulk := h.NewBulk("hostile-constant-cosets", "for each alternative checksum constant c (Bech32m 0x2bc830a3, 0, 0x3fffffff, 2) every weight<=4 pattern found by meet-in-the-middle whose syndrome is 1^c (up to 400 per constant, data and checksum positions) is applied to valid 90-character strings and Decode must reject; one evaluation per mutated string", nil, false)
	for _, constant := range []uint32{0x2bc830a3, 0, 0x3fffffff, 2} {
		delta := constant ^ 1
		found := 0
		for _, a := range all {
			if found >= 400 {
				break
			}
			pb, ok := find(a.s ^ delta)
			if !ok {
				continue
			}
			// combine the two halves into one pattern (same position: XOR the values)
			comb := map[int]int{}
			for _, dv := range append(unpack(a.p), unpack(pb)...) {
				comb[dv[0]] ^= dv[1]
			}
			var pos []int
			okPat := true
			for d, v := range comb {
				if v == 0 {
					delete(comb, d)
					continue
				}
				if d > 87 { // keep to data + checksum of a one-letter prefix with 82 data symbols
					okPat = false
				}
				pos = append(pos, d)
			}
			if !okPat || len(comb) == 0 || len(comb) > 4 {
				continue
			}
			found++
			// valid 90-character string: prefix "a", 51 bytes of data (82 symbols), pattern bytes vary with the pattern
			data := make([]byte, 51)
			for i := range data {
				data[i] = byte(i*29 + found)
			}
			base, err := bech32.Encode("a", data)
			if err != nil || len(base) != 90 {
				t.Fatalf("VERIF-INFRA cannot build the base string: %v", err)
			}
			m := []byte(base)
			var ps []int
			var rs []byte
			for d, v := range comb {
				i := len(m) - 1 - d
				m[i] = ref.Charset[symOf(m[i])^v]
				ps = append(ps, i)
				rs = append(rs, m[i])
			}
			hostBulk.Add(fmt.Sprintf("constant-%08x/weight%d", constant, len(comb)), true, uint64(constant)<<32|uint64(a.p))
			if _, _, err := bech32.Decode(string(m)); err == nil {
				ec := e2eCase{S: h.S(base), Pos: ps, Repl: h.S(rs)}
				h.Fail(t, "C16", "e2e", ec, fmt.Errorf("Decode accepted %q, which differs from the valid string %q in %d characters: the pattern's syndrome is %08x, i.e. the verifier also accepts the checksum constant %#x", m, base, len(comb), delta, constant))
				hostBulk.Failed()
				return
			}
			if found == 1 {
				hostBulk.Sample(fmt.Sprintf("constant-%08x", constant), map[string]any{"base": base, "mutated": string(m), "positions_from_end": pos})
			}
		}
		h.Note("hostile constant %#x: %d weight<=4 patterns with syndrome %08x tried end to end", constant, found, delta)
	}
	// pairs are recorded after the sort so a failure is reported quickly
	for d1 := 0; d1 < 89; d1++ {
		for d2 := d1 + 1; d2 < 89; d2++ {
			for v := 0; v < 961; v++ {
				bulk.Add("pair", true, 1<<40|uint64(d1)<<24|uint64(d2)<<16|uint64(v))
			}
		}
	}
	bulk.Add("zero", false, 0)
	bulk.Sample("single", map[string]any{"distance": 7, "value": 1, "syndrome": fmt.Sprintf("%08x", tab[7][1])})
	bulk.Sample("pair", map[string]any{"d1": 0, "v1": 1, "d2": 88, "v2": 31, "syndrome": fmt.Sprintf("%08x", tab[0][1]^tab[88][31])})
	h.Note("syndrome table measured through Encode: %d syndromes pairwise distinct", len(all))
}

// replayable stand-in so that a syndrome-table replay file is addressed to a sub-check
func TestSyndromeReplay(t *testing.T) {
	h.RunEnum(t, h.Enum[synCase]{Prop: "C16", Name: "syndrome-table", Rule: "replay hook: re-measures the table and re-checks it",
		Each: func(yield func(synCase) bool) {},
		Check: func(c synCase) (h.Info, error) {
			tab, err := measureTable()
			if err != nil {
				return h.Info{}, err
			}
			if c.Note == "prefix-vs-data" || c.D1 >= 89 || c.D2 >= 89 {
				return h.Info{}, fmt.Errorf("re-run TestSyndromes: %s", c.Note)
			}
			var s1, s2 uint32
			if c.V1 > 0 && c.V1 < 32 {
				s1 = tab[c.D1][c.V1]
			}
			if c.V2 > 0 && c.V2 < 32 {
				s2 = tab[c.D2][c.V2]
			}
			if s1 == s2 {
				return h.Info{}, fmt.Errorf("syndromes of (%d,%d) and (%d,%d) coincide: %08x", c.D1, c.V1, c.D2, c.V2, s1)
			}
			return h.Info{}, nil
		}})
}

// ---------- (2) end to end through Decode ----------

var premiseOnce sync.Once

type e2eCase struct {
	S    h.S   `json:"s"`    // valid Bech32 string
	Pos  []int `json:"pos"`  // positions to replace (distinct)
	Repl h.S   `json:"repl"` // replacement characters, one per position
}

func kind(c byte) int {
	switch {
	case c >= 'a' && c <= 'z':
		return 1
	case c >= 'A' && c <= 'Z':
		return 2
	case c >= '0' && c <= '9':
		return 3
	}
	return 0
}

// checkE2E validates the case against the statement's premises (returning an error marked
// PRECONDITION if the case itself is malformed — that is a harness bug, not a finding) and
// then requires Decode to reject the mutated string.
func checkE2E(c e2eCase) (h.Info, error) {
	s := string(c.S)
	r := ref.Decode(s)
	if !r.OK {
		return h.Info{Class: "invalid-base"}, fmt.Errorf("PRECONDITION: base string %q is not valid Bech32 (stage %s)", s, r.Stage)
	}
	if len(c.Pos) < 1 || len(c.Pos) > 4 || len(c.Pos) != len(c.Repl) {
		return h.Info{Class: "invalid-pattern"}, fmt.Errorf("PRECONDITION: pattern weight %d", len(c.Pos))
	}
	sep := len(r.HRP)
	baseUpper := s != ref.AsciiLower(s)
	baseLower := s != ref.AsciiUpper(s)
	replUpper, replLower := false, false
	m := []byte(s)
	seen := map[int]bool{}
	inHRP := 0
	for i, p := range c.Pos {
		if p < 0 || p >= len(s) || p == sep || seen[p] {
			return h.Info{Class: "invalid-pattern"}, fmt.Errorf("PRECONDITION: bad position %d", p)
		}
		seen[p] = true
		nc := c.Repl[i]
		if nc == s[p] {
			return h.Info{Class: "invalid-pattern"}, fmt.Errorf("PRECONDITION: replacement equals original at %d", p)
		}
		if p > sep {
			// "other charset characters": in the spelling of the string; a string without letters may be
			// continued in either (single) case
			lc := nc
			if nc >= 'A' && nc <= 'Z' {
				lc = nc + 32
				replUpper = true
			} else if nc >= 'a' && nc <= 'z' {
				replLower = true
			}
			// the charset as BIP-173 writes it is lower case: its characters are "other charset characters" for
			// an upper-case string too (the result is mixed case, one more reason to reject it); upper-case
			// spellings are charset characters only inside a string that is otherwise upper case
			if replUpper && (baseLower || replLower) {
				return h.Info{Class: "invalid-pattern"}, fmt.Errorf("PRECONDITION: upper-case replacement %q in a string with lower-case letters", nc)
			}
			if symOf(lc) < 0 {
				return h.Info{Class: "invalid-pattern"}, fmt.Errorf("PRECONDITION: replacement %q not in charset", nc)
			}
		} else {
			inHRP++
			if kind(nc) == 0 || kind(nc) != kind(s[p]) {
				return h.Info{Class: "invalid-pattern"}, fmt.Errorf("PRECONDITION: prefix replacement %q for %q is not of the same kind", nc, s[p])
			}
		}
		m[p] = nc
	}
	// premise of the statement and of the syndrome argument: the unmodified valid string is accepted.
	// If Decode rejects it, C16 cannot be decided by this check (that defect is C04/C05's to report):
	// the run is marked inconclusive, it is neither a C16 violation nor a pass.
	// (a failing call first: state left behind by an error path must not affect the next call)
	_, _, _ = bech32.Decode("x1b" + s[len(s)-8:])
	if _, _, err := bech32.Decode(s); err != nil {
		premiseOnce.Do(func() {
			fmt.Printf("VERIF-INFRA C16 premise broken: Decode rejects the valid Bech32 string %q (%v); C16 is undecidable on this tree, see C04/C05\n", s, err)
		})
	}
	cls := fmt.Sprintf("weight%d", len(c.Pos))
	if inHRP > 0 {
		cls += "+prefix"
	}
	if replLower && baseUpper {
		// only where an upper-case letter remains: otherwise the result may simply be the lower-case spelling
		// of a valid string
		if string(m) == ref.AsciiLower(string(m)) {
			return h.Info{Class: "invalid-pattern"}, fmt.Errorf("PRECONDITION: lower-case replacements leave no upper-case letter")
		}
		cls += "+lower-case-charset-in-upper-case-string"
	}
	info := h.Info{Class: cls, NT: true}
	hrp, data, err := bech32.Decode(string(m))
	if err == nil {
		return info, fmt.Errorf("Decode accepted %q = (%q, %x), which differs from the valid string %q in %d characters (positions %v)", m, hrp, data, s, len(c.Pos), c.Pos)
	}
	return info, nil
}

func replacementFor(t *rapid.T, orig byte, dataPart, upper bool) (byte, bool) {
	if dataPart {
		for {
			c := ref.Charset[rapid.IntRange(0, 31).Draw(t, "rc")]
			if upper && c >= 'a' && c <= 'z' {
				c -= 32
			}
			if c != orig {
				return c, true
			}
		}
	}
	switch kind(orig) {
	case 1:
		c := byte('a' + (int(orig-'a')+rapid.IntRange(1, 25).Draw(t, "rl"))%26)
		return c, true
	case 2:
		c := byte('A' + (int(orig-'A')+rapid.IntRange(1, 25).Draw(t, "rl"))%26)
		return c, true
	case 3:
		c := byte('0' + (int(orig-'0')+rapid.IntRange(1, 9).Draw(t, "rd"))%10)
		return c, true
	}
	return 0, false
}

func genE2E(t *rapid.T) e2eCase {
	s, hrp, _ := bgen.Valid(t, true, false)
	if h.Pick(t, "statehrp", 15, 1) == 1 { // a prefix that leaves the checksum register at 0 (or 1)
		s, hrp, _ = bgen.ValidStateHRP(t)
	}
	upper := false
	if rapid.IntRange(0, 3).Draw(t, "up") == 0 {
		s = bgen.Upper(s)
		upper = true
	}
	sep := len(hrp)
	// one in five upper-case strings is edited with the charset as BIP-173 spells it (lower case)
	crossCase := upper && h.Pick(t, "crosscase", 4, 1) == 1
	if crossCase {
		// when the data part has at most four letters: all of them, each by its own lower-case spelling (the
		// symbol values, and so the checksum, stay as they are; each part of the string is single-case)
		var letters []int
		for p := sep + 1; p < len(s); p++ {
			if s[p] >= 'A' && s[p] <= 'Z' {
				letters = append(letters, p)
			}
		}
		if len(letters) >= 1 && len(letters) <= 4 && hrp != ref.AsciiUpper(hrp) && rapid.Bool().Draw(t, "swapall") {
			repl := make([]byte, len(letters))
			for i, p := range letters {
				repl[i] = s[p] + 32
			}
			return e2eCase{S: h.S(s), Pos: letters, Repl: h.S(repl)}
		}
	}
	var cand []int
	for p := 0; p < len(s); p++ {
		if p > sep || (p < sep && kind(s[p]) != 0) {
			cand = append(cand, p)
		}
	}
	w := rapid.IntRange(1, 4).Draw(t, "w")
	if w > len(cand) {
		w = len(cand)
	}
	// bias: burst (adjacent) patterns, checksum-only patterns, prefix+checksum patterns
	var pos []int
	switch h.Pick(t, "shape", 4, 2, 2) {
	case 1: // burst
		start := rapid.IntRange(0, len(cand)-w).Draw(t, "start")
		pos = append(pos, cand[start:start+w]...)
	case 2: // inside the last 8 characters
		lo := len(cand) - 8
		if lo < 0 {
			lo = 0
		}
		perm := rapid.Permutation(cand[lo:]).Draw(t, "tail")
		if w > len(perm) {
			w = len(perm)
		}
		pos = perm[:w]
	default:
		perm := rapid.Permutation(cand).Draw(t, "perm")
		pos = perm[:w]
	}
	repl := make([]byte, len(pos))
	for i, p := range pos {
		c, _ := replacementFor(t, s[p], p > sep, upper && !crossCase)
		repl[i] = c
	}
	if crossCase {
		m := []byte(s)
		for i, p := range pos {
			m[p] = repl[i]
		}
		if string(m) == ref.AsciiLower(string(m)) { // no upper-case letter would remain: stay in the string's case
			for i, p := range pos {
				repl[i], _ = replacementFor(t, s[p], p > sep, true)
			}
		}
	}
	return e2eCase{S: h.S(s), Pos: pos, Repl: h.S(repl)}
}

func TestEndToEnd(t *testing.T) {
	h.Run(t, h.Sub[e2eCase]{
		Prop: "C16", Name: "e2e", N: 200000,
		Gen: genE2E, Check: checkE2E,
		Require: []string{"weight1", "weight2", "weight3", "weight4", "weight4+prefix", "weight2+lower-case-charset-in-upper-case-string"},
		Rule:    "random valid strings (prefix 1..83 characters, one in eight a well-known network prefix, whole-byte data; one in four upper case), substitution patterns of weight 1..4 over data+checksum characters (other charset character in the string's case; for one in five upper-case strings the charset's own lower-case characters, including all <= 4 data letters by their lower-case spelling) and prefix letters/digits (same kind), random / burst / tail shapes; Decode must reject; every case non-trivial; distinct by (string, pattern)",
	})
}

// ---- neighbours that collide under a short hash ----
//
// A valid string V and a string M at distance <= 4 with the same length and the same 32-bit FNV hash
// (FNV-1a or FNV-1), decoded right after V was accepted: an implementation that remembers accepted
// strings by such a hash would accept M.

func genHashNeighbour(t *rapid.T) e2eCase {
	hl := rapid.IntRange(1, 12).Draw(t, "hl")
	hrp := bgen.HRP(t, hl)
	a := rapid.Bool().Draw(t, "fnv1a")
	upper := rapid.IntRange(0, 3).Draw(t, "up") == 0
	seed := rapid.Uint64().Draw(t, "seed")
	alphabet := []byte(ref.Charset)
	if upper {
		alphabet = []byte(ref.AsciiUpper(ref.Charset))
	}
	for j := 0; j < 3000; j++ {
		d := sha256.Sum256([]byte(fmt.Sprintf("%d/%d", seed, j)))
		nb := 20 + int(d[31])%24
		if (hl+7)+(nb*8+4)/5 > 90 {
			nb = 20
		}
		s := ref.EncodeSymbols(hrp, ref.ToSymbols(append(d[:], d[:]...)[:nb]))
		if upper {
			s = ref.AsciiUpper(s)
		}
		m, ok := hostile.FNVNeighbour([]byte(s), hl+1, len(s), alphabet, a)
		if !ok {
			continue
		}
		c := e2eCase{S: h.S(s)}
		var repl []byte
		for p := range m {
			if m[p] != s[p] {
				c.Pos = append(c.Pos, p)
				repl = append(repl, m[p])
			}
		}
		c.Repl = h.S(repl)
		return c
	}
	// (not reached in practice: one window in about 4096 succeeds and a string has some 40 windows)
	c := genE2E(t)
	return c
}

func TestHashNeighbours(t *testing.T) {
	h.Run(t, h.Sub[e2eCase]{
		Prop: "C16", Name: "hash-colliding-neighbours", N: 48,
		Gen: genHashNeighbour,
		Check: func(c e2eCase) (h.Info, error) {
			info, err := checkE2E(c)
			if err == nil {
				m := []byte(string(c.S))
				for i, p := range c.Pos {
					m[p] = c.Repl[i]
				}
				switch {
				case hostile.FNV32(m, true) == hostile.FNV32([]byte(string(c.S)), true):
					info.Class = "fnv1a-collision/" + info.Class
				case hostile.FNV32(m, false) == hostile.FNV32([]byte(string(c.S)), false):
					info.Class = "fnv1-collision/" + info.Class
				default:
					info.Class = "no-collision/" + info.Class
				}
			}
			return info, err
		},
		Rule: "valid strings V and neighbours M (up to four adjacent data characters replaced, same length) constructed by a meet-in-the-middle search so that the 32-bit FNV-1a or FNV-1 hashes of V and M are equal; Decode(V) must succeed and Decode(M), called right afterwards, must fail; all non-trivial; distinct by (V, pattern)",
	})
}

// ---- concurrent callers sharing a human-readable part ----

type concCase struct {
	Valid []h.S   `json:"valid"` // decoded by all goroutines but the last
	Bad   e2eCase `json:"bad"`   // its mutated string is decoded by the last goroutine
	Iters int     `json:"iters"`
}

func checkConcurrent(c concCase) (h.Info, error) {
	if _, err := checkE2E(c.Bad); err != nil { // validates the pattern (and the sequential verdict)
		return h.Info{Class: "sequential"}, err
	}
	for _, v := range c.Valid {
		if !ref.Decode(string(v)).OK {
			return h.Info{}, fmt.Errorf("PRECONDITION: %q is not valid", v)
		}
	}
	m := []byte(string(c.Bad.S))
	for i, p := range c.Bad.Pos {
		m[p] = c.Bad.Repl[i]
	}
	info := h.Info{Class: fmt.Sprintf("goroutines=%d/weight%d", len(c.Valid)+1, len(c.Bad.Pos)), NT: true}
	err := h.Parallel(len(c.Valid)+1, func(g int) error {
		for it := 0; it < c.Iters; it++ {
			if g == len(c.Valid) {
				if hrp, data, err := bech32.Decode(string(m)); err == nil {
					return fmt.Errorf("while %d other goroutines decode valid strings with the same human-readable part (iteration %d): Decode accepted %q = (%q, %x), which differs from the valid string %q in %d characters (positions %v)", len(c.Valid), it, m, hrp, data, string(c.Bad.S), len(c.Bad.Pos), c.Bad.Pos)
				}
			} else {
				_, _, _ = bech32.Decode(string(c.Valid[g])) // (whether valid strings are accepted is C04's question)
			}
		}
		return nil
	})
	return info, err
}

func genConcurrent(t *rapid.T) concCase {
	c := concCase{Iters: 400}
	var hrp string
	var s string
	for {
		s, hrp, _ = bgen.Valid(t, true, false)
		if len(hrp) <= 40 {
			break
		}
	}
	sep := len(hrp)
	room := (90 - sep - 7) * 5 / 8
	// the corrupted copy differs from one of the concurrently decoded valid strings in 1..4 data characters
	w := rapid.IntRange(1, 4).Draw(t, "w")
	if w > len(s)-sep-1 {
		w = len(s) - sep - 1
	}
	perm := rapid.Permutation(seq(sep+1, len(s))).Draw(t, "perm")
	c.Bad = e2eCase{S: h.S(s), Pos: perm[:w]}
	repl := make([]byte, w)
	for i, p := range c.Bad.Pos {
		repl[i], _ = replacementFor(t, s[p], true, false)
	}
	c.Bad.Repl = h.S(repl)
	c.Valid = append(c.Valid, h.S(s))
	for i := h.OneOf(t, "g", 1, 3, 7) - 1; i > 0; i-- {
		nb := rapid.IntRange(0, room).Draw(t, "nb")
		c.Valid = append(c.Valid, h.S(ref.EncodeSymbols(hrp, ref.ToSymbols(rapid.SliceOfN(rapid.Byte(), nb, nb).Draw(t, "data")))))
	}
	return c
}

func seq(lo, hi int) []int {
	var out []int
	for i := lo; i < hi; i++ {
		out = append(out, i)
	}
	return out
}

func TestConcurrent(t *testing.T) {
	h.Run(t, h.Sub[concCase]{
		Prop: "C16", Name: "concurrent-callers", N: 150,
		Gen: genConcurrent, Check: checkConcurrent,
		Require: []string{"goroutines=2/weight1", "goroutines=4/weight4", "goroutines=8/weight2"},
		Rule:    "schedules: 1..7 goroutines decode valid strings (one of them the original) while one goroutine decodes a copy with 1..4 substituted data characters, all with the same human-readable part, 400 times each, released together; the corrupted copy must be rejected every time; all non-trivial",
	})
}

// Complete weight-1 and weight-2 enumeration on sampled code words.
type wordCase struct {
	S h.S `json:"s"`
}

func alternatives(orig byte, dataPart, upper bool) []byte {
	var out []byte
	if dataPart {
		for i := 0; i < 32; i++ {
			c := ref.Charset[i]
			if upper && c >= 'a' && c <= 'z' {
				c -= 32
			}
			if c != orig {
				out = append(out, c)
			}
		}
		return out
	}
	switch kind(orig) {
	case 1:
		for c := byte('a'); c <= 'z'; c++ {
			if c != orig {
				out = append(out, c)
			}
		}
	case 2:
		for c := byte('A'); c <= 'Z'; c++ {
			if c != orig {
				out = append(out, c)
			}
		}
	case 3:
		for c := byte('0'); c <= '9'; c++ {
			if c != orig {
				out = append(out, c)
			}
		}
	}
	return out
}

func TestWeight2Exhaustive(t *testing.T) {
	bulk := h.NewBulk("weight<=2-exhaustive-per-word", "for each sampled valid string every substitution pattern of weight 1 and 2 (all positions of data, checksum and prefix letters/digits x all admissible replacement characters) is applied and Decode must reject; one evaluation per mutated string, distinct by (word, pattern)", []string{"weight1", "weight2"}, false)
	maxLen := 40
	n := 2
	if h.Thorough() {
		maxLen, n = 90, 32
	}
	failed := false
	h.Run(t, h.Sub[wordCase]{
		Prop: "C16", Name: "weight<=2-words", N: n,
		Rule: "sampled code words for the complete weight<=2 enumeration (see weight<=2-exhaustive-per-word)",
		Gen: func(t *rapid.T) wordCase {
			for {
				s, _, _ := bgen.Valid(t, true, false)
				if len(s) <= maxLen || rapid.IntRange(0, 9).Draw(t, "keep") == 0 && h.Thorough() {
					if rapid.IntRange(0, 3).Draw(t, "up") == 0 {
						s = bgen.Upper(s)
					}
					return wordCase{S: h.S(s)}
				}
			}
		},
		Check: func(c wordCase) (h.Info, error) {
			s := string(c.S)
			r := ref.Decode(s)
			if !r.OK {
				return h.Info{}, fmt.Errorf("PRECONDITION: %q not valid", s)
			}
			sep := len(r.HRP)
			upper := s != ref.AsciiLower(s)
			wh := h.Hash64([]byte(s))
			var pos []int
			var alts [][]byte
			for p := 0; p < len(s); p++ {
				if p == sep {
					continue
				}
				a := alternatives(s[p], p > sep, upper)
				if len(a) > 0 {
					pos = append(pos, p)
					alts = append(alts, a)
				}
			}
			m := []byte(s)
			try := func(ps []int, cs []byte) error {
				if _, _, err := bech32.Decode(string(m)); err == nil {
					ec := e2eCase{S: c.S, Pos: ps, Repl: h.S(cs)}
					e := fmt.Errorf("Decode accepted %q, which differs from the valid string %q in %d characters", m, s, len(ps))
					if !failed {
						h.Fail(t, "C16", "e2e", ec, e)
					}
					failed = true
					bulk.Failed()
					return e
				}
				return nil
			}
			for i, p := range pos {
				for _, c1 := range alts[i] {
					m[p] = c1
					bulk.Add("weight1", true, wh^uint64(p)<<48^uint64(c1)<<40)
					if err := try([]int{p}, []byte{c1}); err != nil {
						return h.Info{Class: "word"}, err
					}
					for j := i + 1; j < len(pos); j++ {
						q := pos[j]
						for _, c2 := range alts[j] {
							m[q] = c2
							bulk.Add("weight2", true, wh^uint64(p)<<48^uint64(c1)<<40^uint64(q)<<32^uint64(c2)<<24^1)
							if err := try([]int{p, q}, []byte{c1, c2}); err != nil {
								return h.Info{Class: "word"}, err
							}
						}
						m[q] = s[q]
					}
				}
				m[p] = s[p]
			}
			bulk.Sample("weight2", map[string]any{"word": s, "positions": len(pos)})
			return h.Info{Class: "word", NT: true}, nil
		},
	})
}

// FuzzGenE2E: the structured generator driven by Go's coverage-guided fuzzer (thorough tier).
func FuzzGenE2E(f *testing.F) {
	h.FuzzSub(f, h.Sub[e2eCase]{Prop: "C16", Name: "e2e", Gen: genE2E, Check: checkE2E})
}

// which public entry point is called first in a process (and by how many goroutines at once)
func TestFirstCalls(t *testing.T) { h.FirstCallsSub(t, "C16", fc.Bech32(), 6) }
