// Package fc lists, per library package, the public entry points as h.EntryPoint values for the
// "first calls in a fresh process" sub-checks (see h/firstcall.go). Every entry derives its input from
// the seed, calls the library once (or a few times) and judges the result with the reference models of
// /verif/harness/ref, the Go standard library, or a round trip that holds by construction.
package fc

import (
	"bytes"
	"context"
	"crypto"
	stded "crypto/ed25519"
	stdelliptic "crypto/elliptic"
	"crypto/sha256"
	"encoding"
	"encoding/binary"
	"fmt"
	"math/big"
	"strings"
	"time"

	"github.com/iotaledger/iota.go/trinary"
	"github.com/wollac/iota-crypto-demo/pkg/bech32"
	"github.com/wollac/iota-crypto-demo/pkg/bech32/address"
	"github.com/wollac/iota-crypto-demo/pkg/bip32path"
	"github.com/wollac/iota-crypto-demo/pkg/bip39"
	"github.com/wollac/iota-crypto-demo/pkg/curl"
	"github.com/wollac/iota-crypto-demo/pkg/ed25519"
	"github.com/wollac/iota-crypto-demo/pkg/merkle"
	"github.com/wollac/iota-crypto-demo/pkg/migration"
	pow1 "github.com/wollac/iota-crypto-demo/pkg/pow"
	pow2 "github.com/wollac/iota-crypto-demo/pkg/pow/v2"
	"github.com/wollac/iota-crypto-demo/pkg/slip10"
	"github.com/wollac/iota-crypto-demo/pkg/slip10/btccurve"
	"github.com/wollac/iota-crypto-demo/pkg/slip10/eddsa"
	slipelliptic "github.com/wollac/iota-crypto-demo/pkg/slip10/elliptic"
	"github.com/wollac/iota-crypto-demo/pkg/vrf"
	"golang.org/x/crypto/blake2b"

	"verifharness/h"
	refbech "verifharness/ref/bech32"
	refbip "verifharness/ref/bip39"
	refcurl "verifharness/ref/curl"
	"verifharness/ref/ed"
	refpow "verifharness/ref/pow"
	"verifharness/ref/secp"
	refslip "verifharness/ref/slip10"
	"verifharness/ref/trit"
	refvrf "verifharness/ref/vrf"
)

// ---- deterministic inputs from a seed ----

func mix(x *uint64) uint64 {
	*x += 0x9e3779b97f4a7c15
	z := *x
	z = (z ^ (z >> 30)) * 0xbf58476d1ce4e5b9
	z = (z ^ (z >> 27)) * 0x94d049bb133111eb
	return z ^ (z >> 31)
}

func bytesOf(seed uint64, n int) []byte {
	s := seed
	b := make([]byte, n)
	for i := range b {
		b[i] = byte(mix(&s) >> 24)
	}
	return b
}

func intOf(seed uint64, lo, hi int) int {
	s := seed ^ 0x1234567
	return lo + int(mix(&s)%uint64(hi-lo+1))
}

func catch(name string, f func() string) (msg string) {
	defer func() {
		if r := recover(); r != nil {
			msg = fmt.Sprintf("%s panicked: %v", name, r)
		}
	}()
	return f()
}

func wrap(es []h.EntryPoint) []h.EntryPoint {
	for i := range es {
		name, call := es[i].Name, es[i].Call
		es[i].Call = func(seed uint64) string { return catch(name, func() string { return call(seed) }) }
	}
	return es
}

// ---- pkg/ed25519 (C01, C07) ----

func Ed25519() []h.EntryPoint {
	return wrap([]h.EntryPoint{
		{Name: "ed25519.Verify(honest signature)", Call: func(s uint64) string {
			seed, msg := bytesOf(s, 32), bytesOf(s+1, intOf(s, 0, 200))
			pk, sig := ed.Sign(seed, msg)
			if !ed25519.Verify(pk, msg, sig) {
				return fmt.Sprintf("Verify(pk=%x, msg=%x, sig=%x) = false for an honest RFC 8032 signature", pk, msg, sig)
			}
			sig[intOf(s+2, 0, 63)] ^= 1 << uint(intOf(s+3, 0, 7))
			want, _ := ed.VerifyZIP215(pk, msg, sig)
			if got := ed25519.Verify(pk, msg, sig); got != want {
				return fmt.Sprintf("Verify(pk=%x, msg=%x, sig=%x) = %v, ZIP-215 model %v", pk, msg, sig, got, want)
			}
			return ""
		}},
		{Name: "ed25519.Verify(small-order key and R)", Call: func(s uint64) string {
			tor := ed.Torsion()
			pk, r := tor[intOf(s, 0, len(tor)-1)].Encode(), tor[intOf(s+1, 0, len(tor)-1)].Encode()
			sig := append(append([]byte{}, r...), make([]byte, 32)...)
			if intOf(s+2, 0, 1) == 1 {
				sig[32] = byte(intOf(s+3, 1, 255))
			}
			msg := bytesOf(s+4, 8)
			want, _ := ed.VerifyZIP215(pk, msg, sig)
			if got := ed25519.Verify(pk, msg, sig); got != want {
				return fmt.Sprintf("Verify(pk=%x, msg=%x, sig=%x) = %v, ZIP-215 model %v", pk, msg, sig, got, want)
			}
			return ""
		}},
		{Name: "ed25519.NewKeyFromSeed", Call: func(s uint64) string {
			seed := bytesOf(s, 32)
			if got, want := ed25519.NewKeyFromSeed(seed), stded.NewKeyFromSeed(seed); !bytes.Equal(got, want) {
				return fmt.Sprintf("NewKeyFromSeed(%x) = %x, crypto/ed25519 %x", seed, []byte(got), []byte(want))
			}
			return ""
		}},
		{Name: "ed25519.Sign", Call: func(s uint64) string {
			seed, msg := bytesOf(s, 32), bytesOf(s+1, intOf(s, 0, 300))
			std := stded.NewKeyFromSeed(seed)
			if got, want := ed25519.Sign(ed25519.PrivateKey(std), msg), stded.Sign(std, msg); !bytes.Equal(got, want) {
				return fmt.Sprintf("Sign(key of seed %x, %x) = %x, crypto/ed25519 %x", seed, msg, got, want)
			}
			return ""
		}},
		{Name: "ed25519.GenerateKey(reader)", Call: func(s uint64) string {
			seed := bytesOf(s, 32)
			pub, priv, err := ed25519.GenerateKey(bytes.NewReader(append(append([]byte{}, seed...), 9, 9)))
			std := stded.NewKeyFromSeed(seed)
			if err != nil || !bytes.Equal(priv, std) || !bytes.Equal(pub, std[32:]) {
				return fmt.Sprintf("GenerateKey(reader of %x) = %x, %x, %v; crypto/ed25519 key %x", seed, []byte(pub), []byte(priv), err, []byte(std))
			}
			return ""
		}},
		{Name: "ed25519.PrivateKey.Public/Seed/Sign(crypto.Signer)", Call: func(s uint64) string {
			seed, msg := bytesOf(s, 32), bytesOf(s+1, intOf(s, 0, 100))
			std := stded.NewKeyFromSeed(seed)
			k := ed25519.PrivateKey(append([]byte{}, std...))
			pub, ok := k.Public().(ed25519.PublicKey)
			if !ok || !bytes.Equal(pub, std[32:]) || !bytes.Equal(k.Seed(), seed) {
				return fmt.Sprintf("PrivateKey(%x).Public() = %x, Seed() = %x", []byte(std), []byte(pub), k.Seed())
			}
			sig, err := k.Sign(nil, msg, crypto.Hash(0))
			if want := stded.Sign(std, msg); err != nil || !bytes.Equal(sig, want) {
				return fmt.Sprintf("PrivateKey.Sign(nil, %x, Hash(0)) = %x, %v; crypto/ed25519 %x", msg, sig, err, want)
			}
			return ""
		}},
	})
}

// ---- pkg/vrf (C18) ----

func VRF() []h.EntryPoint {
	return wrap([]h.EntryPoint{
		{Name: "vrf.Prove", Call: func(s uint64) string {
			seed, alpha := bytesOf(s, 32), bytesOf(s+1, intOf(s, 0, 60))
			wantPi, _, _ := refvrf.Prove(seed, alpha)
			if got := vrf.Prove(vrf.PrivateKey(stded.NewKeyFromSeed(seed)), alpha).Bytes(); !bytes.Equal(got, wantPi) {
				return fmt.Sprintf("Prove(seed %x, alpha %x) = %x, RFC 9381 reference %x", seed, alpha, got, wantPi)
			}
			return ""
		}},
		{Name: "vrf.Verify", Call: func(s uint64) string {
			seed, alpha := bytesOf(s, 32), bytesOf(s+1, intOf(s, 0, 60))
			pi, pk, _ := refvrf.Prove(seed, alpha)
			wantBeta, _ := refvrf.ProofToHash(pi)
			if ok, beta := vrf.Verify(pk, alpha, pi); !ok || !bytes.Equal(beta, wantBeta) {
				return fmt.Sprintf("Verify(pk %x, alpha %x, reference proof %x) = %v, %x; want true, %x", pk, alpha, pi, ok, beta, wantBeta)
			}
			pi[intOf(s+2, 0, 79)] ^= 1 << uint(intOf(s+3, 0, 7))
			want, _, _ := refvrf.Verify(pk, alpha, pi)
			if ok, _ := vrf.Verify(pk, alpha, pi); ok != want {
				return fmt.Sprintf("Verify(pk %x, alpha %x, proof with one bit flipped %x) = %v, RFC 9381 reference %v", pk, alpha, pi, ok, want)
			}
			return ""
		}},
		{Name: "vrf.ProofToHash", Call: func(s uint64) string {
			seed, alpha := bytesOf(s, 32), bytesOf(s+1, intOf(s, 0, 60))
			pi, _, _ := refvrf.Prove(seed, alpha)
			want, _ := refvrf.ProofToHash(pi)
			if got, err := vrf.ProofToHash(pi); err != nil || !bytes.Equal(got, want) {
				return fmt.Sprintf("ProofToHash(%x) = %x, %v; reference %x", pi, got, err, want)
			}
			return ""
		}},
		{Name: "vrf.Proof.UnmarshalBinary+Hash+Bytes", Call: func(s uint64) string {
			seed, alpha := bytesOf(s, 32), bytesOf(s+1, intOf(s, 0, 60))
			pi, _, _ := refvrf.Prove(seed, alpha)
			want, _ := refvrf.ProofToHash(pi)
			var p vrf.Proof
			if err := p.UnmarshalBinary(pi); err != nil {
				return fmt.Sprintf("Proof.UnmarshalBinary(reference proof %x): %v", pi, err)
			}
			if got := p.Hash(); !bytes.Equal(got, want) || !bytes.Equal(p.Bytes(), pi) {
				return fmt.Sprintf("decoded reference proof %x: Hash = %x (want %x), Bytes = %x", pi, got, want, p.Bytes())
			}
			return ""
		}},
		{Name: "vrf.NewKeyFromSeed/GenerateKey", Call: func(s uint64) string {
			seed := bytesOf(s, 32)
			std := stded.NewKeyFromSeed(seed)
			pub, priv, err := vrf.GenerateKey(bytes.NewReader(seed))
			if k := vrf.NewKeyFromSeed(seed); !bytes.Equal(k, std) || err != nil || !bytes.Equal(priv, std) || !bytes.Equal(pub, std[32:]) {
				return fmt.Sprintf("NewKeyFromSeed(%x) = %x; GenerateKey = %x, %x, %v; RFC 8032 key %x", seed, []byte(k), []byte(pub), []byte(priv), err, []byte(std))
			}
			return ""
		}},
	})
}

// ---- pkg/bech32 (C04, C05, C16) ----

func hrpOf(s uint64) string {
	if intOf(s, 0, 3) == 0 {
		return []string{"iota", "atoi", "smr", "rms", "bc", "tb"}[intOf(s+1, 0, 5)]
	}
	b := bytesOf(s+2, intOf(s+3, 1, 12))
	for i := range b {
		b[i] = 33 + b[i]%94
		if b[i] >= 'A' && b[i] <= 'Z' {
			b[i] += 32
		}
	}
	return string(b)
}

func Bech32() []h.EntryPoint {
	return wrap([]h.EntryPoint{
		{Name: "bech32.Encode", Call: func(s uint64) string {
			hrp, data := hrpOf(s), bytesOf(s+5, intOf(s+6, 0, 40))
			want := refbech.EncodeSymbols(hrp, refbech.ToSymbols(data))
			up := intOf(s+7, 0, 2) == 0
			if up {
				hrp, want = refbech.AsciiUpper(hrp), refbech.AsciiUpper(want)
			}
			if got, err := bech32.Encode(hrp, data); err != nil || got != want {
				return fmt.Sprintf("Encode(%q, %x) = %q, %v; BIP-173 reference %q", hrp, data, got, err, want)
			}
			return ""
		}},
		{Name: "bech32.Decode(valid string)", Call: func(s uint64) string {
			hrp, data := hrpOf(s), bytesOf(s+5, intOf(s+6, 0, 40))
			str := refbech.EncodeSymbols(hrp, refbech.ToSymbols(data))
			if intOf(s+7, 0, 2) == 0 {
				str = refbech.AsciiUpper(str)
			}
			if gh, gd, err := bech32.Decode(str); err != nil || gh != hrp || !bytes.Equal(gd, data) {
				return fmt.Sprintf("Decode(%q) = (%q, %x, %v); reference (%q, %x)", str, gh, gd, err, hrp, data)
			}
			return ""
		}},
		{Name: "bech32.Decode(corrupted string)", Call: func(s uint64) string {
			hrp, data := hrpOf(s), bytesOf(s+5, intOf(s+6, 0, 40))
			b := []byte(refbech.EncodeSymbols(hrp, refbech.ToSymbols(data)))
			const charset = "qpzry9x8gf2tvdw0s3jn54khce6mua7l"
			for k, n := 0, intOf(s+8, 1, 3); k < n; k++ {
				p := len(hrp) + 1 + intOf(s+9+uint64(k), 0, len(b)-len(hrp)-2)
				b[p] = charset[(strings.IndexByte(charset, b[p])+1+intOf(s+20+uint64(k), 0, 30))%32]
			}
			r := refbech.Decode(string(b))
			gh, gd, err := bech32.Decode(string(b))
			if r.OK != (err == nil) || (r.OK && (gh != r.HRP || !bytes.Equal(gd, r.Data))) {
				return fmt.Sprintf("Decode(%q) = (%q, %x, %v); reference accepts=%v (stage %q)", b, gh, gd, err, r.OK, r.Stage)
			}
			return ""
		}},
	})
}

// ---- pkg/bech32/address and pkg/migration (C19) ----

var prefixNames = []string{"iota", "atoi", "smr", "rms"}
var prefixValues = []address.Prefix{address.IOTAMainnet, address.IOTADevnet, address.ShimmerMainnet, address.ShimmerDevnet}

func refMigEncode(addr []byte) string {
	sum := blake2b.Sum256(addr)
	return "TRANSFER" + trit.TritsToTrytes(trit.B1T6Encode(append(append([]byte{}, addr...), sum[:4]...))) + "9"
}

func Address() []h.EntryPoint {
	return wrap([]h.EntryPoint{
		{Name: "address.Bech32(Ed25519 address)", Call: func(s uint64) string {
			pk, pi := bytesOf(s, 32), intOf(s+1, 0, 3)
			sum := blake2b.Sum256(pk)
			want := refbech.EncodeSymbols(prefixNames[pi], refbech.ToSymbols(append([]byte{0}, sum[:]...)))
			if got, err := address.Bech32(prefixValues[pi], address.AddressFromPublicKey(pk)); err != nil || got != want {
				return fmt.Sprintf("Bech32(%s, address of key %x) = %q, %v; reference %q", prefixNames[pi], pk, got, err, want)
			}
			return ""
		}},
		{Name: "address.ParseBech32", Call: func(s uint64) string {
			pi := intOf(s+1, 0, 3)
			ver, n := []byte{0x00, 0x08, 0x10}[intOf(s+2, 0, 2)], 32
			if ver != 0 {
				n = 20
			}
			payload := append([]byte{ver}, bytesOf(s, n)...)
			str := refbech.EncodeSymbols(prefixNames[pi], refbech.ToSymbols(payload))
			p, a, err := address.ParseBech32(str)
			if err != nil || p != prefixValues[pi] || a == nil || !bytes.Equal(a.Bytes(), payload) {
				return fmt.Sprintf("ParseBech32(%q) = %v, %v, %v; want prefix %s, bytes %x", str, p, a, err, prefixNames[pi], payload)
			}
			bad := refbech.EncodeSymbols(prefixNames[pi], refbech.ToSymbols(payload[:len(payload)-1]))
			if _, _, err := address.ParseBech32(bad); err == nil {
				return fmt.Sprintf("ParseBech32(%q) accepted a payload that is one byte short", bad)
			}
			return ""
		}},
		{Name: "migration.Encode", Call: func(s uint64) string {
			var a [32]byte
			copy(a[:], bytesOf(s, 32))
			if got, want := migration.Encode(a), refMigEncode(a[:]); got != want {
				return fmt.Sprintf("migration.Encode(%x) = %q, reference %q", a, got, want)
			}
			return ""
		}},
		{Name: "migration.Decode", Call: func(s uint64) string {
			a := bytesOf(s, 32)
			str := refMigEncode(a)
			if got, err := migration.Decode(str); err != nil || !bytes.Equal(got[:], a) {
				return fmt.Sprintf("migration.Decode(%q) = %x, %v; want %x", str, got, err, a)
			}
			b := []byte(str)
			p := intOf(s+1, 8, 79)
			if b[p] == 'A' {
				b[p] = 'B'
			} else {
				b[p] = 'A'
			}
			if got, err := migration.Decode(string(b)); err == nil {
				return fmt.Sprintf("migration.Decode(%q) (one tryte of a valid string replaced) accepted: %x", b, got)
			}
			return ""
		}},
	})
}

// ---- pkg/bip39 (C03, C09) ----

func langOf(s uint64) string { return []string{"english", "japanese"}[intOf(s&(1<<40-1)+77, 0, 1)] }

func Bip39() []h.EntryPoint {
	load := func(lang string) *refbip.List {
		l, err := refbip.Load(lang)
		if err != nil {
			panic(err)
		}
		return l
	}
	return wrap([]h.EntryPoint{
		{Name: "bip39.SetWordList+EntropyToMnemonic", Serial: true, Call: func(s uint64) string {
			lang, ent := langOf(s), bytesOf(s, 16+4*intOf(s+1, 0, 12))
			if err := bip39.SetWordList(lang); err != nil {
				return fmt.Sprintf("SetWordList(%q): %v", lang, err)
			}
			want := refbip.Encode(load(lang), ent)
			if got, err := bip39.EntropyToMnemonic(ent); err != nil || strings.Join(got, "|") != strings.Join(want, "|") {
				return fmt.Sprintf("SetWordList(%q); EntropyToMnemonic(%x) = %q, %v; BIP-39 reference %q", lang, ent, got, err, want)
			}
			return ""
		}},
		{Name: "bip39.SetWordList+MnemonicToEntropy", Serial: true, Call: func(s uint64) string {
			lang, ent := langOf(s), bytesOf(s, 16+4*intOf(s+1, 0, 12))
			if err := bip39.SetWordList(lang); err != nil {
				return fmt.Sprintf("SetWordList(%q): %v", lang, err)
			}
			words := refbip.Encode(load(lang), ent)
			if got, err := bip39.MnemonicToEntropy(append(bip39.Mnemonic{}, words...)); err != nil || !bytes.Equal(got, ent) {
				return fmt.Sprintf("SetWordList(%q); MnemonicToEntropy(%q) = %x, %v; want %x", lang, words, got, err, ent)
			}
			other := refbip.Encode(load(map[string]string{"english": "japanese", "japanese": "english"}[lang]), ent)
			if got, err := bip39.MnemonicToEntropy(append(bip39.Mnemonic{}, other...)); err == nil {
				return fmt.Sprintf("SetWordList(%q); MnemonicToEntropy of a sentence of the other list %q accepted: %x", lang, other, got)
			}
			return ""
		}},
		{Name: "bip39.SetWordList+MnemonicToSeed", Serial: true, Call: func(s uint64) string {
			lang, ent := langOf(s), bytesOf(s, 16+4*intOf(s+1, 0, 4))
			if err := bip39.SetWordList(lang); err != nil {
				return fmt.Sprintf("SetWordList(%q): %v", lang, err)
			}
			words := refbip.Encode(load(lang), ent)
			pass := fmt.Sprintf("pw%d", s%1000)
			if got, err := bip39.MnemonicToSeed(append(bip39.Mnemonic{}, words...), pass); err != nil || !bytes.Equal(got, refbip.Seed(words, pass)) {
				return fmt.Sprintf("SetWordList(%q); MnemonicToSeed(%q, %q) = %x, %v; PBKDF2 reference %x", lang, words, pass, got, err, refbip.Seed(words, pass))
			}
			return ""
		}},
		{Name: "bip39.ParseMnemonic+String", Call: func(s uint64) string {
			lang, ent := langOf(s), bytesOf(s, 16+4*intOf(s+1, 0, 12))
			words := refbip.Encode(load(lang), ent)
			text := " " + strings.Join(words, []string{" ", "  ", "\t", "　", "\n"}[intOf(s+2, 0, 4)]) + "\n"
			got := bip39.ParseMnemonic(text)
			if strings.Join(got, "|") != strings.Join(words, "|") {
				return fmt.Sprintf("ParseMnemonic(%q) = %q, want %q", text, got, words)
			}
			if back := bip39.ParseMnemonic(got.String()); strings.Join(back, "|") != strings.Join(words, "|") {
				return fmt.Sprintf("ParseMnemonic(String(%q)) = %q", words, back)
			}
			return ""
		}},
	})
}

// ---- pkg/bip32path (C10) ----

func Path() []h.EntryPoint {
	gen := func(s uint64) ([]uint32, string) {
		n := intOf(s, 0, 8)
		p := make([]uint32, n)
		parts := []string{"m"}
		for i := range p {
			v := uint32(binary.LittleEndian.Uint32(bytesOf(s+uint64(i)+1, 4))) >> uint(intOf(s+uint64(i)+50, 1, 31))
			mark := ""
			if intOf(s+uint64(i)+100, 0, 1) == 1 {
				mark = []string{"'", "H"}[intOf(s+uint64(i)+150, 0, 1)]
				p[i] = v | 1<<31
			} else {
				p[i] = v
			}
			parts = append(parts, strings.Repeat("0", intOf(s+uint64(i)+200, 0, 2))+fmt.Sprint(v)+mark)
		}
		return p, strings.Join(parts, "/")
	}
	eq := func(a bip32path.Path, b []uint32) bool {
		if len(a) != len(b) {
			return false
		}
		for i := range a {
			if a[i] != b[i] {
				return false
			}
		}
		return true
	}
	return wrap([]h.EntryPoint{
		{Name: "bip32path.ParsePath", Call: func(s uint64) string {
			p, str := gen(s)
			if got, err := bip32path.ParsePath(str); err != nil || !eq(got, p) {
				return fmt.Sprintf("ParsePath(%q) = %v, %v; want %v", str, []uint32(got), err, p)
			}
			for _, bad := range []string{str + "/", str + "/08x", "m/2147483648", "m//1"} {
				if got, err := bip32path.ParsePath(bad); err == nil {
					return fmt.Sprintf("ParsePath(%q) accepted: %v", bad, []uint32(got))
				}
			}
			return ""
		}},
		{Name: "bip32path.Path.String", Call: func(s uint64) string {
			p, _ := gen(s)
			str := bip32path.Path(p).String()
			if back, err := bip32path.ParsePath(str); err != nil || !eq(back, p) {
				return fmt.Sprintf("Path(%v).String() = %q, which parses to %v, %v", p, str, []uint32(back), err)
			}
			return ""
		}},
		{Name: "bip32path.Path.UnmarshalText/MarshalText", Call: func(s uint64) string {
			p, str := gen(s)
			var q bip32path.Path
			if err := q.UnmarshalText([]byte(str)); err != nil || !eq(q, p) {
				return fmt.Sprintf("UnmarshalText(%q) = %v, %v; want %v", str, []uint32(q), err, p)
			}
			mt, err := q.MarshalText()
			var r bip32path.Path
			if err != nil || r.UnmarshalText(mt) != nil || !eq(r, p) {
				return fmt.Sprintf("MarshalText(%v) = %q, %v, which reads back as %v", p, mt, err, []uint32(r))
			}
			return ""
		}},
	})
}

// ---- pkg/merkle (C15) ----

type leaf []byte

func (l leaf) MarshalBinary() ([]byte, error) { return l, nil }

func refTree(leaves [][]byte) []byte {
	switch len(leaves) {
	case 0:
		x := sha256.Sum256(nil)
		return x[:]
	case 1:
		x := sha256.Sum256(append([]byte{0}, leaves[0]...))
		return x[:]
	}
	k := 1
	for k*2 < len(leaves) {
		k *= 2
	}
	x := sha256.Sum256(append(append([]byte{1}, refTree(leaves[:k])...), refTree(leaves[k:])...))
	return x[:]
}

func Merkle() []h.EntryPoint {
	mk := func(s uint64, n int) ([][]byte, []encoding.BinaryMarshaler) {
		raw := make([][]byte, n)
		ls := make([]encoding.BinaryMarshaler, n)
		for i := range raw {
			raw[i] = bytesOf(s+uint64(i), intOf(s+uint64(i)+9, 0, 70))
			ls[i] = leaf(raw[i])
		}
		return raw, ls
	}
	return wrap([]h.EntryPoint{
		{Name: "merkle.NewHasher+Hash", Call: func(s uint64) string {
			raw, ls := mk(s, intOf(s, 0, 40))
			if got, err := merkle.NewHasher(crypto.SHA256).Hash(ls); err != nil || !bytes.Equal(got, refTree(raw)) {
				return fmt.Sprintf("Hash of %d leaves (SHA-256) = %x, %v; RFC 6962 recursion %x", len(raw), got, err, refTree(raw))
			}
			return ""
		}},
		{Name: "merkle.Hasher.EmptyRoot/Size/Hash(nil)", Call: func(s uint64) string {
			hs := merkle.NewHasher(crypto.SHA256)
			want := refTree(nil)
			if got, err := hs.Hash(nil); err != nil || !bytes.Equal(got, want) || !bytes.Equal(hs.EmptyRoot(), want) || hs.Size() != 32 {
				return fmt.Sprintf("Hash(nil) = %x, %v; EmptyRoot = %x; Size = %d; want %x, 32", got, err, hs.EmptyRoot(), hs.Size(), want)
			}
			return ""
		}},
	})
}

// ---- the two secp256k1 copies (C17) and the key types on top of them (C08) ----

func Secp256k1() []h.EntryPoint {
	type cv struct {
		name string
		c    stdelliptic.Curve
	}
	copies := func() []cv {
		return []cv{{"btccurve", btccurve.Secp256k1()}, {"slip10/elliptic", slipelliptic.Secp256k1().(stdelliptic.Curve)}}
	}
	pick := func(s uint64) cv { return copies()[intOf(s+99, 0, 1)] }
	pt := func(s uint64) secp.Point {
		k := new(big.Int).SetBytes(bytesOf(s, 32))
		k.Mod(k, secp.K1.N)
		if k.Sign() == 0 {
			k.SetInt64(1)
		}
		return secp.K1.BaseMul(k)
	}
	same := func(x, y *big.Int, p secp.Point) bool {
		px, py := p.XY()
		return x != nil && y != nil && x.Cmp(px) == 0 && y.Cmp(py) == 0
	}
	return wrap([]h.EntryPoint{
		{Name: "secp256k1.Add", Call: func(s uint64) string {
			c, p, q := pick(s), pt(s), pt(s+1)
			if intOf(s+2, 0, 3) == 0 {
				q = p
			}
			px, py := p.XY()
			qx, qy := q.XY()
			if x, y := c.c.Add(px, py, qx, qy); !same(x, y, secp.K1.Add(p, q)) {
				wx, wy := secp.K1.Add(p, q).XY()
				return fmt.Sprintf("[%s copy] Add((%x,%x),(%x,%x)) = (%x,%x), reference (%x,%x)", c.name, px, py, qx, qy, x, y, wx, wy)
			}
			return ""
		}},
		{Name: "secp256k1.Double", Call: func(s uint64) string {
			c, p := pick(s), pt(s)
			px, py := p.XY()
			if x, y := c.c.Double(px, py); !same(x, y, secp.K1.Add(p, p)) {
				wx, wy := secp.K1.Add(p, p).XY()
				return fmt.Sprintf("[%s copy] Double((%x,%x)) = (%x,%x), reference (%x,%x)", c.name, px, py, x, y, wx, wy)
			}
			return ""
		}},
		{Name: "secp256k1.ScalarMult", Call: func(s uint64) string {
			c, p, k := pick(s), pt(s), bytesOf(s+1, intOf(s+2, 1, 33))
			px, py := p.XY()
			want := secp.K1.Mul(p, new(big.Int).SetBytes(k))
			if x, y := c.c.ScalarMult(px, py, k); !same(x, y, want) {
				wx, wy := want.XY()
				return fmt.Sprintf("[%s copy] ScalarMult((%x,%x), %x) = (%x,%x), reference (%x,%x)", c.name, px, py, k, x, y, wx, wy)
			}
			return ""
		}},
		{Name: "secp256k1.ScalarBaseMult", Call: func(s uint64) string {
			c, k := pick(s), bytesOf(s+1, intOf(s+2, 1, 33))
			want := secp.K1.BaseMul(new(big.Int).SetBytes(k))
			if x, y := c.c.ScalarBaseMult(k); !same(x, y, want) {
				wx, wy := want.XY()
				return fmt.Sprintf("[%s copy] ScalarBaseMult(%x) = (%x,%x), reference (%x,%x)", c.name, k, x, y, wx, wy)
			}
			return ""
		}},
		{Name: "secp256k1.IsOnCurve/Params", Call: func(s uint64) string {
			c, p := pick(s), pt(s)
			px, py := p.XY()
			off := new(big.Int).Add(py, big.NewInt(1))
			if !c.c.IsOnCurve(px, py) || c.c.IsOnCurve(px, off) {
				return fmt.Sprintf("[%s copy] IsOnCurve((%x,%x)) = %v, IsOnCurve with y+1 = %v", c.name, px, py, c.c.IsOnCurve(px, py), c.c.IsOnCurve(px, off))
			}
			if pr := c.c.Params(); pr == nil || pr.P.Cmp(secp.K1.P) != 0 || pr.N.Cmp(secp.K1.N) != 0 || pr.Gx.Cmp(secp.K1.Gx) != 0 || pr.Gy.Cmp(secp.K1.Gy) != 0 || pr.B.Cmp(secp.K1.B) != 0 {
				return fmt.Sprintf("[%s copy] Params() = %+v", c.name, pr)
			}
			return ""
		}},
		{Name: "slip10/elliptic key Shift (private and public)", Call: func(s uint64) string {
			curve, rc := slipelliptic.Secp256k1(), secp.K1
			if intOf(s+5, 0, 1) == 1 {
				curve, rc = slipelliptic.Nist256p1(), secp.P256
			}
			k := new(big.Int).SetBytes(bytesOf(s, 32))
			k.Mod(k, new(big.Int).Sub(rc.N, big.NewInt(1))).Add(k, big.NewInt(1))
			b := new(big.Int).SetBytes(bytesOf(s+1, 32))
			b.Mod(b, rc.N)
			if intOf(s+2, 0, 3) == 0 {
				b.Set(k)
			}
			key, err := curve.NewPrivateKey(k.FillBytes(make([]byte, 32)))
			if err != nil {
				return fmt.Sprintf("NewPrivateKey(%x): %v", k, err)
			}
			sum := new(big.Int).Add(k, b)
			sum.Mod(sum, rc.N)
			if sum.Sign() == 0 {
				return ""
			}
			want := rc.Compressed(rc.BaseMul(sum))
			priv, err1 := key.Shift(b.FillBytes(make([]byte, 32)))
			pub, err2 := key.Public().Shift(b.FillBytes(make([]byte, 32)))
			if err1 != nil || err2 != nil || !bytes.Equal(priv.Public().Bytes(), want) || !bytes.Equal(pub.Bytes(), want) {
				return fmt.Sprintf("%s: k=%x shifted by %x: private side %v, public side %v; both must give the point %x", curve.Name(), k, b, err1, err2, want)
			}
			return ""
		}},
	})
}

// ---- pkg/slip10 (C02) ----

func Slip10() []h.EntryPoint {
	type cv struct {
		lib slip10.Curve
		ref refslip.Curve
	}
	curves := func(s uint64) cv {
		return []cv{{slipelliptic.Secp256k1(), refslip.Secp256k1}, {slipelliptic.Nist256p1(), refslip.Nist256p1}, {eddsa.Ed25519(), refslip.Ed25519}}[intOf(s+88, 0, 2)]
	}
	cmp := func(k *slip10.ExtendedKey, n refslip.Node) string {
		if k == nil {
			return "nil key"
		}
		if n.Priv != nil && !bytes.Equal(k.Key.Bytes(), n.Priv) {
			return fmt.Sprintf("private key %x, SLIP-0010 reference %x", k.Key.Bytes(), n.Priv)
		}
		if !bytes.Equal(k.ChainCode, n.Chain) || !bytes.Equal(k.Key.Public().Bytes(), n.Pub) {
			return fmt.Sprintf("chain code %x / public key %x, SLIP-0010 reference %x / %x", k.ChainCode, k.Key.Public().Bytes(), n.Chain, n.Pub)
		}
		return ""
	}
	return wrap([]h.EntryPoint{
		{Name: "slip10.NewMasterKey", Call: func(s uint64) string {
			c, seed := curves(s), bytesOf(s, intOf(s+1, 16, 64))
			k, err := slip10.NewMasterKey(seed, c.lib)
			if err != nil {
				return fmt.Sprintf("NewMasterKey(%x, %s): %v", seed, c.lib.Name(), err)
			}
			if m := cmp(k, refslip.Master(c.ref, seed)); m != "" {
				return fmt.Sprintf("NewMasterKey(%x, %s): %s", seed, c.lib.Name(), m)
			}
			return ""
		}},
		{Name: "slip10.DeriveKeyFromPath", Call: func(s uint64) string {
			c, seed := curves(s), bytesOf(s, intOf(s+1, 16, 64))
			n := refslip.Master(c.ref, seed)
			var path []uint32
			for i, d := 0, intOf(s+2, 1, 4); i < d; i++ {
				idx := binary.LittleEndian.Uint32(bytesOf(s+3+uint64(i), 4)) | refslip.Hardened
				if !c.ref.HardenedOnly() && intOf(s+9+uint64(i), 0, 1) == 0 {
					idx &^= refslip.Hardened
				}
				var err error
				if n, err = refslip.Child(c.ref, n, idx); err != nil {
					return ""
				}
				path = append(path, idx)
			}
			k, err := slip10.DeriveKeyFromPath(seed, c.lib, path)
			if err != nil {
				return fmt.Sprintf("DeriveKeyFromPath(%x, %s, %v): %v", seed, c.lib.Name(), path, err)
			}
			if m := cmp(k, n); m != "" {
				return fmt.Sprintf("DeriveKeyFromPath(%x, %s, %v): %s", seed, c.lib.Name(), path, m)
			}
			return ""
		}},
		{Name: "slip10.ExtendedKey.Public+DeriveChild", Call: func(s uint64) string {
			c, seed := curves(s), bytesOf(s, 32)
			if c.ref.HardenedOnly() {
				c = cv{slipelliptic.Secp256k1(), refslip.Secp256k1}
			}
			idx := binary.LittleEndian.Uint32(bytesOf(s+3, 4)) &^ refslip.Hardened
			n, err := refslip.Child(c.ref, refslip.Public(refslip.Master(c.ref, seed)), idx)
			if err != nil {
				return ""
			}
			m, err := slip10.NewMasterKey(seed, c.lib)
			if err != nil {
				return fmt.Sprintf("NewMasterKey(%x, %s): %v", seed, c.lib.Name(), err)
			}
			k, err := m.Public().DeriveChild(idx)
			if err != nil {
				return fmt.Sprintf("public DeriveChild(%d) of the master of %x on %s: %v", idx, seed, c.lib.Name(), err)
			}
			if msg := cmp(k, n); msg != "" {
				return fmt.Sprintf("public DeriveChild(%d) of the master of %x on %s: %s", idx, seed, c.lib.Name(), msg)
			}
			return ""
		}},
	})
}

// ---- pkg/curl (C06, C20) ----

func Curl() []h.EntryPoint {
	lanes := func(s uint64, n, blocks int) []trinary.Trits {
		out := make([]trinary.Trits, n)
		for j := range out {
			b := bytesOf(s+uint64(j)*7919, blocks*refcurl.Rate)
			out[j] = make(trinary.Trits, len(b))
			for i := range b {
				out[j][i] = int8(b[i]%3) - 1
			}
		}
		return out
	}
	return wrap([]h.EntryPoint{
		{Name: "curl.NewCurlP81+Absorb+Squeeze", Call: func(s uint64) string {
			n, blocks := []int{1, 2, curl.MaxBatchSize}[intOf(s, 0, 2)], intOf(s+1, 1, 3)
			src := lanes(s, n, blocks)
			c := curl.NewCurlP81()
			if err := c.Absorb(src, blocks*refcurl.Rate); err != nil {
				return fmt.Sprintf("Absorb: %v", err)
			}
			dst := make([]trinary.Trits, n)
			if err := c.Squeeze(dst, 2*refcurl.Rate); err != nil {
				return fmt.Sprintf("Squeeze: %v", err)
			}
			for j := range src {
				var sp refcurl.Sponge
				sp.Absorb(src[j])
				want := sp.Squeeze(2 * refcurl.Rate)
				for i := range want {
					if dst[j][i] != want[i] {
						return fmt.Sprintf("%d lanes, %d blocks absorbed: squeezed lane %d trit %d = %d, Curl-P-81 reference %d", n, blocks, j, i, dst[j][i], want[i])
					}
				}
			}
			return ""
		}},
		{Name: "curl.Absorb+Clone+CopyState+Reset", Call: func(s uint64) string {
			n := []int{1, 3, curl.MaxBatchSize}[intOf(s, 0, 2)]
			src := lanes(s, n, 1)
			c := curl.NewCurlP81()
			if err := c.Absorb(src, refcurl.Rate); err != nil {
				return fmt.Sprintf("Absorb: %v", err)
			}
			cl := c.Clone()
			var l, hh [curl.StateSize]uint
			cl.CopyState(l[:], hh[:])
			for j := range src {
				var sp refcurl.Sponge
				sp.Absorb(src[j])
				for i := 0; i < curl.StateSize; i++ {
					if got := int8(hh[i]>>uint(j)&1) - int8(l[i]>>uint(j)&1); got != sp.S[i] {
						return fmt.Sprintf("state of a clone after one absorbed block: lane %d state[%d] = %d, reference %d", j, i, got, sp.S[i])
					}
				}
			}
			c.Reset()
			c.CopyState(l[:], hh[:])
			for i := range l {
				if l[i] != ^uint(0) || hh[i] != ^uint(0) {
					return fmt.Sprintf("state after Reset: word %d = (%x, %x), want all ones (all trits zero)", i, l[i], hh[i])
				}
			}
			return ""
		}},
	})
}

// ---- pkg/pow and pkg/pow/v2 (C11, C12, C13) ----

func msgOf(data []byte, nonce uint64) []byte {
	var nb [8]byte
	binary.LittleEndian.PutUint64(nb[:], nonce)
	return append(append([]byte{}, data...), nb[:]...)
}

func Pow() []h.EntryPoint {
	mine := func(f func(ctx context.Context) (uint64, error)) (uint64, error, bool) {
		ctx, cancel := context.WithTimeout(context.Background(), 60*time.Second)
		defer cancel()
		type res struct {
			n   uint64
			err error
		}
		ch := make(chan res, 1)
		go func() { n, err := f(ctx); ch <- res{n, err} }()
		select {
		case r := <-ch:
			return r.n, r.err, true
		case <-time.After(100 * time.Second):
			return 0, nil, false
		}
	}
	return wrap([]h.EntryPoint{
		{Name: "pow.Score", Call: func(s uint64) string {
			msg := bytesOf(s, intOf(s+1, 8, 120))
			rat, z := refpow.ScoreV1(msg)
			want, _ := rat.Float64()
			if got := pow1.Score(msg); got < want*(1-1e-12) || got > want*(1+1e-12) {
				return fmt.Sprintf("pow.Score(%x) = %v, reference 3^%d/%d = %v", msg, got, z, len(msg), want)
			}
			return ""
		}},
		{Name: "pow.Worker.Mine", Call: func(s uint64) string {
			data, workers := bytesOf(s, intOf(s+1, 0, 60)), intOf(s+2, 1, 5)
			target := 81 / float64(len(data)+8)
			n, err, ok := mine(func(ctx context.Context) (uint64, error) { return pow1.New(workers).Mine(ctx, data, target) })
			if !ok || err != nil {
				return "" // a hang or an error is C13's business
			}
			if rat, z := refpow.ScoreV1(msgOf(data, n)); z < 4 {
				f, _ := rat.Float64()
				return fmt.Sprintf("pow.Mine(data %x, target %v, %d workers) returned nonce %d whose reference score is %v (%d trailing zeros)", data, target, workers, n, f, z)
			}
			return ""
		}},
		{Name: "powv2.Score", Call: func(s uint64) string {
			msg := bytesOf(s, intOf(s+1, 8, 120))
			want := refpow.ScoreV2(msg)
			if got := pow2.Score(msg); !want.IsUint64() || got != want.Uint64() {
				return fmt.Sprintf("v2.Score(%x) = %d, reference %v", msg, got, want)
			}
			return ""
		}},
		{Name: "powv2.Worker.Mine", Call: func(s uint64) string {
			data, workers := bytesOf(s, intOf(s+1, 0, 60)), intOf(s+2, 1, 5)
			target := uint64(intOf(s+3, 1, 40))
			n, err, ok := mine(func(ctx context.Context) (uint64, error) { return pow2.New(workers).Mine(ctx, data, target) })
			if !ok || err != nil {
				return ""
			}
			if sc := refpow.ScoreV2(msgOf(data, n)); sc.Cmp(new(big.Int).SetUint64(target)) < 0 {
				return fmt.Sprintf("v2.Mine(data %x, target %d, %d workers) returned nonce %d whose reference score is %v", data, target, workers, n, sc)
			}
			return ""
		}},
	})
}
