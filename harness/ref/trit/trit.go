// Package trit is an independent reference for balanced-ternary codecs:
// trits <-> integers, trits <-> trytes (alphabet "9ABCDEFGHIJKLMNOPQRSTUVWXYZ"),
// b1t6 and b1t8. Written from TIP-5 as plain integer arithmetic.
package trit

import "errors"

const TryteAlphabet = "9ABCDEFGHIJKLMNOPQRSTUVWXYZ"

// Value returns sum t[i]*3^i for little-endian balanced trits.
func Value(t []int8) int {
	v, p := 0, 1
	for _, x := range t {
		v += int(x) * p
		p *= 3
	}
	return v
}

// FromValue writes v as n little-endian balanced trits (v must fit).
func FromValue(v, n int) []int8 {
	out := make([]int8, n)
	for i := 0; i < n; i++ {
		r := ((v % 3) + 3) % 3 // 0,1,2
		switch r {
		case 0:
			out[i] = 0
		case 1:
			out[i] = 1
			v -= 1
		case 2:
			out[i] = -1
			v += 1
		}
		v /= 3
	}
	return out
}

// TryteOf maps a value -13..13 to its tryte letter: 0 -> '9', 1..13 -> 'A'..'M', -13..-1 -> 'N'..'Z'.
func TryteOf(v int) byte {
	if v < 0 {
		v += 27
	}
	return TryteAlphabet[v]
}

// TryteValue is the inverse of TryteOf; ok=false for a non-tryte byte.
func TryteValue(c byte) (int, bool) {
	for i := 0; i < 27; i++ {
		if TryteAlphabet[i] == c {
			if i > 13 {
				return i - 27, true
			}
			return i, true
		}
	}
	return 0, false
}

// TritsToTrytes converts a multiple-of-3 trit slice to trytes.
func TritsToTrytes(t []int8) string {
	out := make([]byte, 0, len(t)/3)
	for i := 0; i+3 <= len(t); i += 3 {
		out = append(out, TryteOf(Value(t[i:i+3])))
	}
	return string(out)
}

// TrytesToTrits converts trytes to trits; ok=false on a non-tryte character.
func TrytesToTrits(s string) ([]int8, bool) {
	out := make([]int8, 0, 3*len(s))
	for i := 0; i < len(s); i++ {
		v, ok := TryteValue(s[i])
		if !ok {
			return nil, false
		}
		out = append(out, FromValue(v, 3)...)
	}
	return out, true
}

// B1T6Encode: each byte as its signed value in 6 balanced little-endian trits.
func B1T6Encode(b []byte) []int8 {
	out := make([]int8, 0, 6*len(b))
	for _, x := range b {
		out = append(out, FromValue(int(int8(x)), 6)...)
	}
	return out
}

var (
	ErrTrits  = errors.New("invalid trits")
	ErrLength = errors.New("invalid length")
)

// B1T6Decode returns the bytes of all leading valid groups, and the first fault:
// an invalid complete group (value outside -128..127) is reported before a trailing remainder.
func B1T6Decode(t []int8) ([]byte, error) {
	var out []byte
	for i := 0; i+6 <= len(t); i += 6 {
		v := Value(t[i : i+6])
		if v < -128 || v > 127 {
			return out, ErrTrits
		}
		out = append(out, byte(int8(v)))
	}
	if len(t)%6 != 0 {
		return out, ErrLength
	}
	return out, nil
}

// B1T8Encode: the 8 bits of each byte as trits 0/1, least significant first.
func B1T8Encode(b []byte) []int8 {
	out := make([]int8, 0, 8*len(b))
	for _, x := range b {
		for j := 0; j < 8; j++ {
			out = append(out, int8(x>>uint(j)&1))
		}
	}
	return out
}

// B1T8Decode: complete groups first (fault = a trit outside {0,1}); a remainder is scanned for an
// invalid trit before the invalid-length fault is reported (as the package documents).
func B1T8Decode(t []int8) ([]byte, error) {
	var out []byte
	i := 0
	for ; i+8 <= len(t); i += 8 {
		var b byte
		for j := 0; j < 8; j++ {
			x := t[i+j]
			if x != 0 && x != 1 {
				return out, ErrTrits
			}
			b |= byte(x) << uint(j)
		}
		out = append(out, b)
	}
	if i < len(t) {
		for _, x := range t[i:] {
			if x != 0 && x != 1 {
				return out, ErrTrits
			}
		}
		return out, ErrLength
	}
	return out, nil
}

// SelfCheck validates against TIP-5 examples.
func SelfCheck() error {
	// TIP-5: byte 0x00 -> "99", 0x01 -> "A9", 0x7f -> "SE", 0x80 -> "GV", 0xff -> "Z9"
	vec := map[byte]string{0x00: "99", 0x01: "A9", 0x7f: "SE", 0x80: "GV", 0xff: "Z9"}
	for b, want := range vec {
		if got := TritsToTrytes(B1T6Encode([]byte{b})); got != want {
			return errors.New("b1t6 self-check failed for a TIP-5 example: got " + got + " want " + want)
		}
	}
	for v := -364; v <= 364; v++ {
		if Value(FromValue(v, 6)) != v {
			return errors.New("FromValue/Value mismatch")
		}
	}
	for v := -13; v <= 13; v++ {
		x, ok := TryteValue(TryteOf(v))
		if !ok || x != v {
			return errors.New("tryte mapping mismatch")
		}
	}
	return nil
}
