package secp

import "testing"

func TestSelf(t *testing.T) {
	if err := K1.SelfCheck(); err != nil {
		t.Fatal(err)
	}
	if err := P256.SelfCheck(); err != nil {
		t.Fatal(err)
	}
}
