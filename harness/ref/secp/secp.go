// Package secp is an independent affine reference for short-Weierstrass curves
// y^2 = x^3 + a x + b over GF(p) with textbook case analysis; instantiated for
// secp256k1 (and usable for P-256 as a third opinion). The identity is represented
// by Inf=true; FromXY/ToXY translate the (0,0) convention of crypto/elliptic.
package secp

import (
	"errors"
	"math/big"
)

type Curve struct {
	P, N, A, B, Gx, Gy *big.Int
}

type Point struct {
	X, Y *big.Int
	Inf  bool
}

func hex(s string) *big.Int {
	v, ok := new(big.Int).SetString(s, 16)
	if !ok {
		panic(s)
	}
	return v
}

// K1 is secp256k1 (SEC 2, section 2.4.1).
var K1 = &Curve{
	P:  hex("FFFFFFFFFFFFFFFFFFFFFFFFFFFFFFFFFFFFFFFFFFFFFFFFFFFFFFFEFFFFFC2F"),
	N:  hex("FFFFFFFFFFFFFFFFFFFFFFFFFFFFFFFEBAAEDCE6AF48A03BBFD25E8CD0364141"),
	A:  big.NewInt(0),
	B:  big.NewInt(7),
	Gx: hex("79BE667EF9DCBBAC55A06295CE870B07029BFCDB2DCE28D959F2815B16F81798"),
	Gy: hex("483ADA7726A3C4655DA4FBFC0E1108A8FD17B448A68554199C47D08FFB10D4B8"),
}

// P256 is NIST P-256 (FIPS 186-4, D.1.2.3).
var P256 = &Curve{
	P:  hex("ffffffff00000001000000000000000000000000ffffffffffffffffffffffff"),
	N:  hex("ffffffff00000000ffffffffffffffffbce6faada7179e84f3b9cac2fc632551"),
	A:  hex("ffffffff00000001000000000000000000000000fffffffffffffffffffffffc"),
	B:  hex("5ac635d8aa3a93e7b3ebbd55769886bc651d06b0cc53b0f63bce3c3e27d2604b"),
	Gx: hex("6b17d1f2e12c4247f8bce6e563a440f277037d812deb33a0f4a13945d898c296"),
	Gy: hex("4fe342e2fe1a7f9b8ee7eb4a7c0f9e162bce33576b315ececbb6406837bf51f5"),
}

func (c *Curve) G() Point { return Point{X: new(big.Int).Set(c.Gx), Y: new(big.Int).Set(c.Gy)} }

func (c *Curve) mod(v *big.Int) *big.Int { return v.Mod(v, c.P) }

// OnCurve: affine solution of the curve equation with 0 <= x,y < p.
func (c *Curve) OnCurve(x, y *big.Int) bool {
	if x.Sign() < 0 || y.Sign() < 0 || x.Cmp(c.P) >= 0 || y.Cmp(c.P) >= 0 {
		return false
	}
	l := new(big.Int).Mul(y, y)
	c.mod(l)
	r := new(big.Int).Mul(x, x)
	r.Mul(r, x)
	ax := new(big.Int).Mul(c.A, x)
	r.Add(r, ax)
	r.Add(r, c.B)
	c.mod(r)
	return l.Cmp(r) == 0
}

func (c *Curve) Neg(p Point) Point {
	if p.Inf {
		return p
	}
	y := new(big.Int).Sub(c.P, p.Y)
	c.mod(y)
	return Point{X: new(big.Int).Set(p.X), Y: y}
}

// Add: textbook case analysis.
func (c *Curve) Add(p, q Point) Point {
	switch {
	case p.Inf:
		return q
	case q.Inf:
		return p
	}
	if p.X.Cmp(q.X) == 0 {
		sum := new(big.Int).Add(p.Y, q.Y)
		c.mod(sum)
		if sum.Sign() == 0 {
			return Point{Inf: true} // P + (-P), includes doubling a point with y = 0
		}
		// P == Q: tangent slope (3x^2 + a) / (2y)
		num := new(big.Int).Mul(p.X, p.X)
		num.Mul(num, big.NewInt(3))
		num.Add(num, c.A)
		den := new(big.Int).Lsh(p.Y, 1)
		return c.chord(p, q, num, den)
	}
	num := new(big.Int).Sub(q.Y, p.Y)
	den := new(big.Int).Sub(q.X, p.X)
	return c.chord(p, q, num, den)
}

func (c *Curve) chord(p, q Point, num, den *big.Int) Point {
	c.mod(num)
	c.mod(den)
	inv := new(big.Int).ModInverse(den, c.P)
	l := new(big.Int).Mul(num, inv)
	c.mod(l)
	x := new(big.Int).Mul(l, l)
	x.Sub(x, p.X)
	x.Sub(x, q.X)
	c.mod(x)
	y := new(big.Int).Sub(p.X, x)
	y.Mul(y, l)
	y.Sub(y, p.Y)
	c.mod(y)
	return Point{X: x, Y: y}
}

// Mul: double-and-add from the identity over the bits of k >= 0.
func (c *Curve) Mul(p Point, k *big.Int) Point {
	acc := Point{Inf: true}
	for i := k.BitLen() - 1; i >= 0; i-- {
		acc = c.Add(acc, acc)
		if k.Bit(i) == 1 {
			acc = c.Add(acc, p)
		}
	}
	return acc
}

func (c *Curve) BaseMul(k *big.Int) Point { return c.Mul(c.G(), k) }

// FromXY reads the crypto/elliptic convention: (0,0) is the identity.
func FromXY(x, y *big.Int) Point {
	if x.Sign() == 0 && y.Sign() == 0 {
		return Point{Inf: true}
	}
	return Point{X: new(big.Int).Set(x), Y: new(big.Int).Set(y)}
}

// XY writes the crypto/elliptic convention.
func (p Point) XY() (*big.Int, *big.Int) {
	if p.Inf {
		return new(big.Int), new(big.Int)
	}
	return p.X, p.Y
}

func (p Point) Equal(q Point) bool {
	if p.Inf || q.Inf {
		return p.Inf == q.Inf
	}
	return p.X.Cmp(q.X) == 0 && p.Y.Cmp(q.Y) == 0
}

// Compressed is the SEC1 compressed encoding (33 bytes).
func (c *Curve) Compressed(p Point) []byte {
	out := make([]byte, 33)
	out[0] = 2 + byte(p.Y.Bit(0))
	p.X.FillBytes(out[1:])
	return out
}

// SqrtY returns a y with y^2 = x^3+ax+b if one exists (p = 3 mod 4 for both curves).
func (c *Curve) SqrtY(x *big.Int) (*big.Int, bool) {
	r := new(big.Int).Mul(x, x)
	r.Mul(r, x)
	r.Add(r, new(big.Int).Mul(c.A, x))
	r.Add(r, c.B)
	c.mod(r)
	e := new(big.Int).Add(c.P, big.NewInt(1))
	e.Rsh(e, 2)
	y := new(big.Int).Exp(r, e, c.P)
	chk := new(big.Int).Mul(y, y)
	c.mod(chk)
	return y, chk.Cmp(r) == 0
}

func (c *Curve) SelfCheck() error {
	g := c.G()
	if !c.OnCurve(g.X, g.Y) {
		return errors.New("G not on curve")
	}
	if !c.Mul(g, c.N).Inf {
		return errors.New("n*G != O")
	}
	nm1 := new(big.Int).Sub(c.N, big.NewInt(1))
	if !c.Mul(g, nm1).Equal(c.Neg(g)) {
		return errors.New("(n-1)*G != -G")
	}
	two := c.Add(g, g)
	if !c.OnCurve(two.X, two.Y) || !c.Add(two, g).Equal(c.Mul(g, big.NewInt(3))) {
		return errors.New("2G/3G inconsistent")
	}
	if c == K1 {
		if two.X.Cmp(hex("C6047F9441ED7D6D3045406E95C07CD85C778E4B8CEF3CA7ABAC09B95C709EE5")) != 0 ||
			two.Y.Cmp(hex("1AE168FEA63DC339A3C58419466CEAEEF7F632653266D0E1236431A950CFE52A")) != 0 {
			return errors.New("secp256k1 2G mismatch with the published value")
		}
		three := c.Mul(g, big.NewInt(3))
		if three.X.Cmp(hex("F9308A019258C31049344F85F89D5229B531C845836F99B08601F113BCE036F9")) != 0 {
			return errors.New("secp256k1 3G mismatch with the published value")
		}
	}
	return nil
}
