// Package ed is an independent big-integer model of edwards25519 written from RFC 8032
// section 5.1 and ZIP-215: extended coordinates over math/big, both point decoding rules
// (ZIP-215 permissive, RFC 8032 strict), the 8-torsion subgroup, and the literal ZIP-215
// verification predicate. It never imports filippo.io/edwards25519 or the code under test.
package ed

import (
	"bytes"
	"crypto/sha512"
	"encoding/hex"
	"errors"
	"math/big"
	"sync"
)

var (
	P = new(big.Int).Sub(new(big.Int).Lsh(big.NewInt(1), 255), big.NewInt(19))
	L = func() *big.Int {
		v, _ := new(big.Int).SetString("27742317777372353535851937790883648493", 10)
		return v.Add(v, new(big.Int).Lsh(big.NewInt(1), 252))
	}()
	D  *big.Int // -121665/121666
	D2 *big.Int
	I  *big.Int // sqrt(-1) = 2^((p-1)/4)
	B  Point
)

func mod(v *big.Int) *big.Int    { return v.Mod(v, P) }
func mul(a, b *big.Int) *big.Int { return mod(new(big.Int).Mul(a, b)) }
func add(a, b *big.Int) *big.Int { return mod(new(big.Int).Add(a, b)) }
func sub(a, b *big.Int) *big.Int { return mod(new(big.Int).Sub(a, b)) }
func inv(a *big.Int) *big.Int    { return new(big.Int).Exp(a, new(big.Int).Sub(P, big.NewInt(2)), P) }

func init() {
	D = mul(big.NewInt(-121665), inv(big.NewInt(121666)))
	mod(D)
	D2 = add(D, D)
	I = new(big.Int).Exp(big.NewInt(2), new(big.Int).Rsh(new(big.Int).Sub(P, big.NewInt(1)), 2), P)
	// base point: y = 4/5, x positive (even)
	y := mul(big.NewInt(4), inv(big.NewInt(5)))
	x, ok := recoverX(y, 0)
	if !ok {
		panic("base point")
	}
	B = fromAffine(x, y)
}

// Point in extended homogeneous coordinates (X:Y:Z:T), x = X/Z, y = Y/Z, xy = T/Z.
type Point struct{ X, Y, Z, T *big.Int }

func fromAffine(x, y *big.Int) Point {
	return Point{new(big.Int).Set(x), new(big.Int).Set(y), big.NewInt(1), mul(x, y)}
}

func Identity() Point { return fromAffine(big.NewInt(0), big.NewInt(1)) }

// Add: RFC 8032 section 5.1.4 (complete formulas, a = -1).
func (p Point) Add(q Point) Point {
	a := mul(sub(p.Y, p.X), sub(q.Y, q.X))
	b := mul(add(p.Y, p.X), add(q.Y, q.X))
	c := mul(mul(p.T, D2), q.T)
	d := mul(add(p.Z, p.Z), q.Z)
	e := sub(b, a)
	f := sub(d, c)
	g := add(d, c)
	h := add(b, a)
	return Point{mul(e, f), mul(g, h), mul(f, g), mul(e, h)}
}

func (p Point) Neg() Point {
	return Point{sub(big.NewInt(0), p.X), new(big.Int).Set(p.Y), new(big.Int).Set(p.Z), sub(big.NewInt(0), p.T)}
}

func (p Point) Double() Point { return p.Add(p) }

// Mul: double-and-add over the bits of k >= 0.
func (p Point) Mul(k *big.Int) Point {
	acc := Identity()
	for i := k.BitLen() - 1; i >= 0; i-- {
		acc = acc.Double()
		if k.Bit(i) == 1 {
			acc = acc.Add(p)
		}
	}
	return acc
}

func (p Point) MulCofactor() Point { return p.Double().Double().Double() }

func (p Point) Equal(q Point) bool {
	// x1/z1 == x2/z2 and y1/z1 == y2/z2
	return mul(p.X, q.Z).Cmp(mul(q.X, p.Z)) == 0 && mul(p.Y, q.Z).Cmp(mul(q.Y, p.Z)) == 0
}

func (p Point) IsIdentity() bool { return p.Equal(Identity()) }

func (p Point) Affine() (x, y *big.Int) {
	zi := inv(p.Z)
	return mul(p.X, zi), mul(p.Y, zi)
}

// OnCurve: -x^2 + y^2 = 1 + d x^2 y^2.
func (p Point) OnCurve() bool {
	x, y := p.Affine()
	xx, yy := mul(x, x), mul(y, y)
	return sub(yy, xx).Cmp(add(big.NewInt(1), mul(D, mul(xx, yy)))) == 0
}

// Encode: canonical 32-byte encoding (y little-endian, sign of x in the top bit).
func (p Point) Encode() []byte {
	x, y := p.Affine()
	return encodeXY(x, y)
}

func encodeXY(x, y *big.Int) []byte {
	out := make([]byte, 32)
	yb := y.FillBytes(make([]byte, 32))
	for i := range out {
		out[i] = yb[31-i]
	}
	out[31] |= byte(x.Bit(0)) << 7
	return out
}

// recoverX: RFC 8032 5.1.3 steps 2-4 for a reduced y; sign in {0,1}. "negative zero"
// (x = 0, sign = 1) is reported through the second result of decode, not here.
func recoverX(y *big.Int, sign uint) (*big.Int, bool) {
	yy := mul(y, y)
	u := sub(yy, big.NewInt(1))
	v := add(mul(D, yy), big.NewInt(1))
	// x = (u/v)^((p+3)/8)
	e := new(big.Int).Rsh(new(big.Int).Add(P, big.NewInt(3)), 3)
	x := new(big.Int).Exp(mul(u, inv(v)), e, P)
	vxx := mul(v, mul(x, x))
	switch {
	case vxx.Cmp(u) == 0:
	case vxx.Cmp(sub(big.NewInt(0), u)) == 0:
		x = mul(x, I)
	default:
		return nil, false
	}
	if x.Bit(0) != sign {
		x = sub(big.NewInt(0), x)
	}
	return x, true
}

func leInt(b []byte) *big.Int {
	r := make([]byte, len(b))
	for i := range b {
		r[len(b)-1-i] = b[i]
	}
	return new(big.Int).SetBytes(r)
}

// LEInt reads a little-endian integer.
func LEInt(b []byte) *big.Int { return leInt(b) }

// LEBytes writes v as n little-endian bytes.
func LEBytes(v *big.Int, n int) []byte {
	be := v.FillBytes(make([]byte, n))
	out := make([]byte, n)
	for i := range be {
		out[i] = be[n-1-i]
	}
	return out
}

// DecodeZIP215: 255-bit y is reduced mod p (non-canonical y accepted), x recovered,
// sign applied; x = 0 with sign bit set ("negative zero") is accepted.
func DecodeZIP215(b []byte) (Point, bool) {
	if len(b) != 32 {
		return Point{}, false
	}
	c := append([]byte{}, b...)
	sign := uint(c[31] >> 7)
	c[31] &= 0x7f
	y := leInt(c)
	y.Mod(y, P)
	x, ok := recoverX(y, sign)
	if !ok {
		return Point{}, false
	}
	return fromAffine(x, y), true
}

// DecodeStrict: RFC 8032 section 5.1.3 — y >= p fails, x = 0 with sign bit set fails.
func DecodeStrict(b []byte) (Point, bool) {
	if len(b) != 32 {
		return Point{}, false
	}
	c := append([]byte{}, b...)
	sign := uint(c[31] >> 7)
	c[31] &= 0x7f
	y := leInt(c)
	if y.Cmp(P) >= 0 {
		return Point{}, false
	}
	x, ok := recoverX(y, sign)
	if !ok {
		return Point{}, false
	}
	if x.Sign() == 0 && sign == 1 {
		return Point{}, false
	}
	return fromAffine(x, y), true
}

// IsCanonical reports whether b is the canonical encoding of the point it decodes to (ZIP-215 rules).
func IsCanonical(b []byte) bool {
	p, ok := DecodeZIP215(b)
	return ok && bytes.Equal(p.Encode(), b)
}

var (
	torsion     []Point
	torsionOnce sync.Once
)

// Torsion returns the 8 points of the torsion subgroup, Torsion()[i] = i*T8 for a point T8 of
// order 8, found by clearing the prime-order component of the first suitable curve point.
// Safe for concurrent use (the harness calls it from several goroutines at once).
func Torsion() []Point {
	torsionOnce.Do(func() {
		for yv := int64(2); ; yv++ {
			y := big.NewInt(yv)
			x, ok := recoverX(y, 0)
			if !ok {
				continue
			}
			t := fromAffine(x, y).Mul(L)
			if t.Double().Double().IsIdentity() {
				continue // order divides 4
			}
			ts := make([]Point, 8)
			ts[0] = Identity()
			for i := 1; i < 8; i++ {
				ts[i] = ts[i-1].Add(t)
			}
			torsion = ts
			return
		}
	})
	return torsion
}

// HashModL is SHA-512(parts...) read as a little-endian integer mod L.
func HashModL(parts ...[]byte) *big.Int {
	h := sha512.New()
	for _, p := range parts {
		h.Write(p)
	}
	k := leInt(h.Sum(nil))
	return k.Mod(k, L)
}

// VerifyZIP215 evaluates the statement literally: len(sig) = 64, S < L, A and R decode
// (ZIP-215 rules), [8][S]B = [8]R + [8][k]A with k = SHA-512(R bytes || key bytes || msg) mod L.
// stage names the first failing condition ("" when the group equation is reached).
func VerifyZIP215(pk, msg, sig []byte) (ok bool, stage string) {
	if len(sig) != 64 {
		return false, "length"
	}
	s := leInt(sig[32:])
	if s.Cmp(L) >= 0 {
		return false, "S>=L"
	}
	a, okA := DecodeZIP215(pk)
	if !okA {
		return false, "A-decode"
	}
	r, okR := DecodeZIP215(sig[:32])
	if !okR {
		return false, "R-decode"
	}
	k := HashModL(sig[:32], pk, msg)
	lhs := B.Mul(s).MulCofactor()
	rhs := r.MulCofactor().Add(a.Mul(k).MulCofactor())
	return lhs.Equal(rhs), ""
}

// Clamp: RFC 8032 5.1.5 secret scalar from the first half of SHA-512(seed).
func SecretScalar(seed []byte) (*big.Int, []byte) {
	h := sha512.Sum512(seed)
	b := append([]byte{}, h[:32]...)
	b[0] &= 248
	b[31] &= 127
	b[31] |= 64
	return leInt(b), h[32:]
}

// Sign: RFC 8032 5.1.6.
func Sign(seed, msg []byte) (pk, sig []byte) {
	a, prefix := SecretScalar(seed)
	pk = B.Mul(a).Encode()
	r := HashModL(prefix, msg)
	rEnc := B.Mul(r).Encode()
	k := HashModL(rEnc, pk, msg)
	s := new(big.Int).Mul(k, a)
	s.Add(s, r).Mod(s, L)
	return pk, append(rEnc, LEBytes(s, 32)...)
}

func SelfCheck() error {
	if hex.EncodeToString(B.Encode()) != "5866666666666666666666666666666666666666666666666666666666666666" {
		return errors.New("base point encoding")
	}
	if !B.OnCurve() || !B.Mul(L).IsIdentity() || B.Mul(big.NewInt(8)).IsIdentity() {
		return errors.New("base point order")
	}
	t := Torsion()
	if !t[1].MulCofactor().IsIdentity() || t[1].Double().Double().IsIdentity() || !t[7].Add(t[1]).IsIdentity() {
		return errors.New("torsion subgroup")
	}
	enc := map[string]bool{}
	for _, p := range t {
		if !p.OnCurve() {
			return errors.New("torsion point off curve")
		}
		enc[hex.EncodeToString(p.Encode())] = true
	}
	for _, known := range []string{
		"0100000000000000000000000000000000000000000000000000000000000000",
		"ecffffffffffffffffffffffffffffffffffffffffffffffffffffffffffff7f",
		"0000000000000000000000000000000000000000000000000000000000000000",
		"0000000000000000000000000000000000000000000000000000000000000080",
		"26e8958fc2b227b045c3f489f2ef98f0d5dfac05d3c63339b13802886d53fc05",
		"26e8958fc2b227b045c3f489f2ef98f0d5dfac05d3c63339b13802886d53fc85",
		"c7176a703d4dd84fba3c0b760d10670f2a2053fa2c39ccc64ec7fd7792ac037a",
		"c7176a703d4dd84fba3c0b760d10670f2a2053fa2c39ccc64ec7fd7792ac03fa",
	} {
		if !enc[known] {
			return errors.New("torsion subgroup does not contain the published small-order encoding " + known)
		}
	}
	seed, _ := hex.DecodeString("9d61b19deffd5a60ba844af492ec2cc44449c5697b326919703bac031cae7f60")
	pk, sig := Sign(seed, nil)
	if hex.EncodeToString(pk) != "d75a980182b10ab7d54bfed3c964073a0ee172f3daa62325af021a68f707511a" {
		return errors.New("RFC 8032 vector 1 public key")
	}
	if hex.EncodeToString(sig) != "e5564300c360ac729086e2cc806e828a84877f1eb8e5d974d873e065224901555fb8821590a33bacc61e39701cf9b46bd25bf5f0595bbe24655141438e7a100b" {
		return errors.New("RFC 8032 vector 1 signature")
	}
	if ok, _ := VerifyZIP215(pk, nil, sig); !ok {
		return errors.New("reference rejects RFC 8032 vector 1")
	}
	if p, ok := DecodeStrict(pk); !ok || !bytes.Equal(p.Encode(), pk) {
		return errors.New("strict decode round trip")
	}
	// non-canonical: y = p + 1 encodes the identity under ZIP-215 only
	nc, _ := hex.DecodeString("eeffffffffffffffffffffffffffffffffffffffffffffffffffffffffffff7f")
	if p, ok := DecodeZIP215(nc); !ok || !p.IsIdentity() {
		return errors.New("ZIP-215 non-canonical decode")
	}
	if _, ok := DecodeStrict(nc); ok {
		return errors.New("strict decode accepts y >= p")
	}
	negZero, _ := hex.DecodeString("0100000000000000000000000000000000000000000000000000000000000080")
	if p, ok := DecodeZIP215(negZero); !ok || !p.IsIdentity() {
		return errors.New("ZIP-215 negative zero")
	}
	if _, ok := DecodeStrict(negZero); ok {
		return errors.New("strict decode accepts negative zero")
	}
	return nil
}
