package ed

import "testing"

func TestSelf(t *testing.T) {
	if err := SelfCheck(); err != nil {
		t.Fatal(err)
	}
}

func BenchmarkVerify(b *testing.B) {
	pk, sig := Sign(make([]byte, 32), []byte("x"))
	for i := 0; i < b.N; i++ {
		VerifyZIP215(pk, []byte("x"), sig)
	}
}
