// Package pow is an independent reference of the Curl-based PoW scores (v1 float, v2 integer):
// BLAKE2b-256 digest -> b1t6 -> one Curl-P-81 block together with the b1t6-encoded nonce.
package pow

import (
	"encoding/binary"
	"errors"
	"math/big"

	"golang.org/x/crypto/blake2b"

	"verifharness/ref/curl"
	"verifharness/ref/trit"
)

// HashTrits returns the 243-trit Curl-P-81 hash of the PoW block for msg = data || nonce(8 bytes LE).
func HashTrits(msg []byte) []int8 {
	if len(msg) < 8 {
		panic("message shorter than a nonce")
	}
	digest := blake2b.Sum256(msg[:len(msg)-8])
	block := make([]int8, 0, curl.Rate)
	block = append(block, trit.B1T6Encode(digest[:])...)
	block = append(block, trit.B1T6Encode(msg[len(msg)-8:])...)
	for len(block) < curl.Rate {
		block = append(block, 0)
	}
	return curl.Hash(block)
}

// HashFor is HashTrits(data || LE64(nonce)) with a pre-computed digest.
func HashFor(digest [32]byte, nonce uint64) []int8 {
	var nb [8]byte
	binary.LittleEndian.PutUint64(nb[:], nonce)
	block := make([]int8, 0, curl.Rate)
	block = append(block, trit.B1T6Encode(digest[:])...)
	block = append(block, trit.B1T6Encode(nb[:])...)
	for len(block) < curl.Rate {
		block = append(block, 0)
	}
	return curl.Hash(block)
}

// TrailingZeros counts the zero trits at the end of a hash.
func TrailingZeros(h []int8) int {
	z := 0
	for i := len(h) - 1; i >= 0 && h[i] == 0; i-- {
		z++
	}
	return z
}

var three = big.NewInt(3)

// Pow3 is 3^k.
func Pow3(k int) *big.Int { return new(big.Int).Exp(three, big.NewInt(int64(k)), nil) }

// ScoreV1 is the exact rational 3^z / len(msg).
func ScoreV1(msg []byte) (*big.Rat, int) {
	z := TrailingZeros(HashTrits(msg))
	return new(big.Rat).SetFrac(Pow3(z), big.NewInt(int64(len(msg)))), z
}

// HashInt reads a hash as a little-endian base-3 number with digit 2 for trit -1, plus one.
func HashInt(h []int8) *big.Int {
	v := new(big.Int)
	for i := len(h) - 1; i >= 0; i-- {
		v.Mul(v, three)
		switch h[i] {
		case 1:
			v.Add(v, big.NewInt(1))
		case -1:
			v.Add(v, big.NewInt(2))
		}
	}
	return v.Add(v, big.NewInt(1))
}

// TritsOfInt is the inverse of HashInt for 1 <= v <= 3^243.
func TritsOfInt(v *big.Int) []int8 {
	x := new(big.Int).Sub(v, big.NewInt(1))
	out := make([]int8, 243)
	r := new(big.Int)
	for i := 0; i < 243; i++ {
		x.QuoRem(x, three, r)
		switch r.Int64() {
		case 1:
			out[i] = 1
		case 2:
			out[i] = -1
		}
	}
	return out
}

var MaxHash = Pow3(243)
var MaxUint64 = new(big.Int).SetUint64(^uint64(0))

// Difficulty d = floor(3^243 / h).
func Difficulty(h []int8) *big.Int { return new(big.Int).Quo(MaxHash, HashInt(h)) }

// ScoreV2 = min(floor(d / len), 2^64 - 1).
func ScoreV2(msg []byte) *big.Int {
	s := new(big.Int).Quo(Difficulty(HashTrits(msg)), big.NewInt(int64(len(msg))))
	if s.Cmp(MaxUint64) > 0 {
		return new(big.Int).Set(MaxUint64)
	}
	return s
}

func SelfCheck() error {
	// 3^243 as published in the PoW v2 source comment is also derivable: check internal consistency
	h := make([]int8, 243)
	if HashInt(h).Cmp(big.NewInt(1)) != 0 || TrailingZeros(h) != 243 {
		return errors.New("zero hash")
	}
	for i := range h {
		h[i] = -1
	}
	if HashInt(h).Cmp(MaxHash) != 0 {
		return errors.New("max hash: all -1 trits must read as 3^243")
	}
	v := new(big.Int).Quo(MaxHash, big.NewInt(12345))
	if HashInt(TritsOfInt(v)).Cmp(v) != 0 {
		return errors.New("TritsOfInt/HashInt mismatch")
	}
	return nil
}
