// Package bip39 is an independent bit-string reference of BIP-39 (no big integers):
// entropy || checksum as a []bool cut into 11-bit groups, pinned word lists read from
// /verif/data, and PBKDF2-HMAC-SHA512 written directly on crypto/hmac.
package bip39

import (
	"crypto/hmac"
	"crypto/sha256"
	"crypto/sha512"
	"encoding/hex"
	"errors"
	"fmt"
	"os"
	"path/filepath"
	"runtime"
	"strings"
	"sync"
)

// Pinned digests of the word list files (english = the published digest of
// bitcoin/bips/bip-0039/english.txt; japanese = digest of the pinned commit's list).
var digests = map[string]string{
	"english":  "2f5eed53a4727b4bf8880d8f3f199efc90e58503646d9ff8eff3a2ed3b24dbda",
	"japanese": "2eed0aef492291e061633d7ad8117f1a2b03eb80a29d0e4e3117ac2528d05ffd",
}

type List struct {
	Words [2048]string
	Index map[string]int
}

var (
	lists   = map[string]*List{}
	listsMu sync.Mutex // Load is called from several goroutines at once
)

func dataDir() string {
	_, file, _, _ := runtime.Caller(0)
	return filepath.Join(filepath.Dir(file), "..", "..", "..", "data")
}

// Load returns the pinned list for lang ("english" or "japanese").
func Load(lang string) (*List, error) {
	listsMu.Lock()
	defer listsMu.Unlock()
	if l, ok := lists[lang]; ok {
		return l, nil
	}
	b, err := os.ReadFile(filepath.Join(dataDir(), lang+".txt"))
	if err != nil {
		return nil, err
	}
	sum := sha256.Sum256(b)
	if hex.EncodeToString(sum[:]) != digests[lang] {
		return nil, fmt.Errorf("word list %s has digest %x, pinned %s", lang, sum, digests[lang])
	}
	words := strings.Split(strings.TrimSuffix(string(b), "\n"), "\n")
	if len(words) != 2048 {
		return nil, fmt.Errorf("word list %s has %d lines", lang, len(words))
	}
	l := &List{Index: map[string]int{}}
	for i, w := range words {
		if _, dup := l.Index[w]; dup || w == "" {
			return nil, fmt.Errorf("word list %s: duplicate or empty word at line %d", lang, i)
		}
		l.Words[i] = w
		l.Index[w] = i
	}
	lists[lang] = l
	return l, nil
}

func bitsOf(b []byte) []bool {
	out := make([]bool, 0, 8*len(b))
	for _, x := range b {
		for i := 7; i >= 0; i-- {
			out = append(out, x>>uint(i)&1 == 1)
		}
	}
	return out
}

// ValidEntropyLen: 16..64 bytes in steps of 4.
func ValidEntropyLen(n int) bool { return n >= 16 && n <= 64 && n%4 == 0 }

// Indices returns the 11-bit word indices of entropy || first ENT/32 bits of SHA-256(entropy).
func Indices(entropy []byte) []int {
	sum := sha256.Sum256(entropy)
	bits := append(bitsOf(entropy), bitsOf(sum[:])[:len(entropy)*8/32]...)
	out := make([]int, 0, len(bits)/11)
	for i := 0; i+11 <= len(bits); i += 11 {
		v := 0
		for j := 0; j < 11; j++ {
			v <<= 1
			if bits[i+j] {
				v |= 1
			}
		}
		out = append(out, v)
	}
	return out
}

// Encode returns the sentence for a valid-size entropy.
func Encode(l *List, entropy []byte) []string {
	idx := Indices(entropy)
	out := make([]string, len(idx))
	for i, v := range idx {
		out[i] = l.Words[v]
	}
	return out
}

var (
	ErrMnemonic = errors.New("invalid mnemonic")
	ErrChecksum = errors.New("invalid checksum")
)

// Decode: length 12..48 in steps of 3, every word in the list, checksum bits match.
func Decode(l *List, words []string) ([]byte, error) {
	n := len(words)
	if n < 12 || n > 48 || n%3 != 0 {
		return nil, ErrMnemonic
	}
	bits := make([]bool, 0, 11*n)
	for _, w := range words {
		v, ok := l.Index[w]
		if !ok {
			return nil, ErrMnemonic
		}
		for j := 10; j >= 0; j-- {
			bits = append(bits, v>>uint(j)&1 == 1)
		}
	}
	cs := n * 11 / 33
	ent := n*11 - cs
	entropy := make([]byte, ent/8)
	for i := 0; i < ent; i++ {
		if bits[i] {
			entropy[i/8] |= 0x80 >> uint(i%8)
		}
	}
	sum := bitsOf(func() []byte { s := sha256.Sum256(entropy); return s[:] }())
	for i := 0; i < cs; i++ {
		if bits[ent+i] != sum[i] {
			return nil, ErrChecksum
		}
	}
	return entropy, nil
}

// PBKDF2SHA512 is RFC 8018 PBKDF2 with HMAC-SHA512.
func PBKDF2SHA512(password, salt []byte, iter, keyLen int) []byte {
	var out []byte
	for block := uint32(1); len(out) < keyLen; block++ {
		mac := hmac.New(sha512.New, password)
		mac.Write(salt)
		mac.Write([]byte{byte(block >> 24), byte(block >> 16), byte(block >> 8), byte(block)})
		u := mac.Sum(nil)
		t := append([]byte{}, u...)
		for i := 1; i < iter; i++ {
			mac = hmac.New(sha512.New, password)
			mac.Write(u)
			u = mac.Sum(nil)
			for j := range t {
				t[j] ^= u[j]
			}
		}
		out = append(out, t...)
	}
	return out[:keyLen]
}

// Seed is the BIP-39 seed for words and an already NFKD-normalised passphrase.
func Seed(words []string, nfkdPassphrase string) []byte {
	return PBKDF2SHA512([]byte(strings.Join(words, " ")), []byte("mnemonic"+nfkdPassphrase), 2048, 64)
}

// SelfCheck validates against BIP-39 (Trezor) vectors and an RFC 6070-style PBKDF2 vector.
func SelfCheck() error {
	en, err := Load("english")
	if err != nil {
		return err
	}
	if _, err := Load("japanese"); err != nil {
		return err
	}
	e, _ := hex.DecodeString("00000000000000000000000000000000")
	if got := strings.Join(Encode(en, e), " "); got != "abandon abandon abandon abandon abandon abandon abandon abandon abandon abandon abandon about" {
		return errors.New("bip39 vector 1 mismatch: " + got)
	}
	e, _ = hex.DecodeString("7f7f7f7f7f7f7f7f7f7f7f7f7f7f7f7f")
	w := Encode(en, e)
	if strings.Join(w, " ") != "legal winner thank year wave sausage worth useful legal winner thank yellow" {
		return errors.New("bip39 vector 2 mismatch")
	}
	if hex.EncodeToString(Seed(w, "TREZOR")) != "2e8905819b8723fe2c1d161860e5ee1830318dbf49a83bd451cfb8440c28bd6fa457fe1296106559a3c80937a1c1069be3a3a5bd381ee6260e8d9739fce1f607" {
		return errors.New("bip39 seed vector mismatch")
	}
	back, err := Decode(en, w)
	if err != nil || hex.EncodeToString(back) != "7f7f7f7f7f7f7f7f7f7f7f7f7f7f7f7f" {
		return errors.New("bip39 decode vector mismatch")
	}
	e, _ = hex.DecodeString("8080808080808080808080808080808080808080808080808080808080808080")
	if strings.Join(Encode(en, e), " ") != "letter advice cage absurd amount doctor acoustic avoid letter advice cage absurd amount doctor acoustic avoid letter advice cage absurd amount doctor acoustic bless" {
		return errors.New("bip39 vector (256 bit) mismatch")
	}
	return nil
}
