package slip10

import (
	"bytes"
	"encoding/hex"
	"encoding/json"
	"fmt"
	"os"
	"path/filepath"
	"runtime"
	"strconv"
	"strings"

	"verifharness/ref/secp"
)

var (
	Secp256k1 = &Weier{C: secp.K1, Key: "Bitcoin seed"}
	Nist256p1 = &Weier{C: secp.P256, Key: "Nist256p1 seed"}
	Ed25519   = &Ed{}
)

type vecTest struct {
	Chain       string `json:"chain"`
	Fingerprint string `json:"fingerprint"`
	ChainCode   string `json:"chainCode"`
	Private     string `json:"private"`
	Public      string `json:"public"`
}

type vec struct {
	Seed  string    `json:"seed"`
	Tests []vecTest `json:"tests"`
}

func parseChain(s string) ([]uint32, error) {
	if s == "m" {
		return nil, nil
	}
	var out []uint32
	for _, c := range strings.Split(strings.TrimPrefix(s, "m/"), "/") {
		hard := strings.HasSuffix(c, "H")
		v, err := strconv.ParseUint(strings.TrimSuffix(c, "H"), 10, 31)
		if err != nil {
			return nil, err
		}
		if hard {
			v += 1 << 31
		}
		out = append(out, uint32(v))
	}
	return out, nil
}

// SelfCheck runs the reference over the pinned copies of the official SLIP-0010 test
// vectors (/verif/data/slip10, extracted from the pinned commit; the first BIP-32 vector
// is additionally hard-coded here).
func SelfCheck() error {
	_, file, _, _ := runtime.Caller(0)
	dir := filepath.Join(filepath.Dir(file), "..", "..", "..", "data", "slip10")
	files := map[string]Curve{"TestSecp256k1": Secp256k1, "TestNist256p1": Nist256p1, "TestNist256p1Retry": Nist256p1, "TestEd25519": Ed25519}
	total, retries := 0, 0
	for name, curve := range files {
		b, err := os.ReadFile(filepath.Join(dir, name+".json"))
		if err != nil {
			return err
		}
		var vs []vec
		if err := json.Unmarshal(b, &vs); err != nil {
			return err
		}
		for _, v := range vs {
			seed, _ := hex.DecodeString(v.Seed)
			for _, t := range v.Tests {
				path, err := parseChain(t.Chain)
				if err != nil {
					return err
				}
				n := Master(curve, seed)
				retries += n.Retries
				for _, idx := range path {
					n, err = Child(curve, n, idx)
					if err != nil {
						return fmt.Errorf("%s %s: %v", name, t.Chain, err)
					}
					retries += n.Retries
				}
				if hex.EncodeToString(n.Priv) != t.Private || hex.EncodeToString(n.Pub) != t.Public ||
					hex.EncodeToString(n.Chain) != t.ChainCode || hex.EncodeToString(Fingerprint(n)) != t.Fingerprint {
					return fmt.Errorf("reference disagrees with official vector %s %s", name, t.Chain)
				}
				total++
			}
		}
	}
	if total < 30 || retries < 2 {
		return fmt.Errorf("only %d vectors / %d retries checked", total, retries)
	}
	seed, _ := hex.DecodeString("000102030405060708090a0b0c0d0e0f")
	m := Master(Secp256k1, seed)
	c, _ := Child(Secp256k1, m, Hardened)
	if hex.EncodeToString(m.Priv) != "e8f32e723decf4051aefac8e2c93c9c5b214313817cdb01a1494b917c8436b35" ||
		hex.EncodeToString(c.Chain) != "47fdacbd0f1097043b78c63c20c34ef4ed9a111d980047ad16282c7ae6236141" ||
		!bytes.Equal(Fingerprint(c), []byte{0x34, 0x42, 0x19, 0x3e}) {
		return fmt.Errorf("reference disagrees with BIP-32 test vector 1")
	}
	return nil
}
