// Package slip10 is an independent reference of SLIP-0010 (BIP-32 for secp256k1), generic
// over a small curve description so that the retry branches can be exercised with toy
// curves whose validity predicate rejects most candidates. It never imports the package
// under test.
package slip10

import (
	"crypto/ed25519"
	"crypto/hmac"
	"crypto/sha256"
	"crypto/sha512"
	"encoding/binary"
	"errors"
	"math/big"

	"golang.org/x/crypto/ripemd160" //nolint

	"verifharness/ref/secp"
)

const Hardened = uint32(1) << 31

// Curve describes what SLIP-0010 needs from a curve.
type Curve interface {
	Seed() []byte // HMAC key for the master node
	// Master: parse256(IL) as master key; ok=false if invalid (retry).
	Master(il []byte) (priv []byte, ok bool)
	// ChildPriv: child private key from IL and the parent private key; ok=false if invalid (retry).
	ChildPriv(il, parent []byte) ([]byte, bool)
	// ChildPub: child public key from IL and the parent public key (33 bytes); ok=false if invalid (retry).
	// defined=false when the curve has no public derivation.
	ChildPub(il, parentPub []byte) (pub []byte, ok bool, defined bool)
	Pub(priv []byte) []byte // 33-byte SLIP-10 serialization
	HardenedOnly() bool
}

type Node struct {
	Priv      []byte // 32 bytes, nil for a public node
	Pub       []byte // 33 bytes
	Chain     []byte
	ParentPub []byte // nil for the master
	Retries   int    // number of retry iterations taken on the way here (this step)
}

func hmac512(key []byte, parts ...[]byte) []byte {
	m := hmac.New(sha512.New, key)
	for _, p := range parts {
		m.Write(p)
	}
	return m.Sum(nil)
}

func ser32(i uint32) []byte {
	b := make([]byte, 4)
	binary.BigEndian.PutUint32(b, i)
	return b
}

var ErrUndefined = errors.New("derivation not defined by SLIP-0010")

// Master derives the master node.
func Master(c Curve, seed []byte) Node {
	i := hmac512(c.Seed(), seed)
	retries := 0
	for {
		if k, ok := c.Master(i[:32]); ok {
			return Node{Priv: k, Pub: c.Pub(k), Chain: i[32:], Retries: retries}
		}
		i = hmac512(c.Seed(), i)
		retries++
	}
}

// Child derives child i of a private or public node.
func Child(c Curve, n Node, idx uint32) (Node, error) {
	private := n.Priv != nil
	var i []byte
	if idx >= Hardened {
		if !private {
			return Node{}, ErrUndefined
		}
		i = hmac512(n.Chain, []byte{0}, n.Priv, ser32(idx))
	} else {
		if c.HardenedOnly() {
			return Node{}, ErrUndefined
		}
		i = hmac512(n.Chain, n.Pub, ser32(idx))
	}
	retries := 0
	for {
		il, ir := i[:32], i[32:]
		if private {
			if k, ok := c.ChildPriv(il, n.Priv); ok {
				return Node{Priv: k, Pub: c.Pub(k), Chain: ir, ParentPub: n.Pub, Retries: retries}, nil
			}
		} else {
			p, ok, defined := c.ChildPub(il, n.Pub)
			if !defined {
				return Node{}, ErrUndefined
			}
			if ok {
				return Node{Pub: p, Chain: ir, ParentPub: n.Pub, Retries: retries}, nil
			}
		}
		i = hmac512(n.Chain, []byte{1}, ir, ser32(idx))
		retries++
	}
}

// Public returns the public version of a node.
func Public(n Node) Node {
	return Node{Pub: n.Pub, Chain: n.Chain, ParentPub: n.ParentPub}
}

// Fingerprint of the node's parent (zeros for the master).
func Fingerprint(n Node) []byte {
	if n.ParentPub == nil {
		return make([]byte, 4)
	}
	s := sha256.Sum256(n.ParentPub)
	r := ripemd160.New()
	r.Write(s[:])
	return r.Sum(nil)[:4]
}

// ---- Weierstrass curves (secp256k1, P-256) with an optional extra validity mask ----

type Weier struct {
	C    *secp.Curve
	Key  string
	Mask byte // candidate IL is additionally invalid when il[31]&Mask != 0 (toy curves)
}

func (w *Weier) Seed() []byte       { return []byte(w.Key) }
func (w *Weier) HardenedOnly() bool { return false }

func (w *Weier) Master(il []byte) ([]byte, bool) {
	if il[31]&w.Mask != 0 {
		return nil, false
	}
	k := new(big.Int).SetBytes(il)
	if k.Sign() == 0 || k.Cmp(w.C.N) >= 0 {
		return nil, false
	}
	return k.FillBytes(make([]byte, 32)), true
}

func (w *Weier) ChildPriv(il, parent []byte) ([]byte, bool) {
	if il[31]&w.Mask != 0 {
		return nil, false
	}
	v := new(big.Int).SetBytes(il)
	if v.Cmp(w.C.N) >= 0 {
		return nil, false
	}
	v.Add(v, new(big.Int).SetBytes(parent))
	v.Mod(v, w.C.N)
	if v.Sign() == 0 {
		return nil, false
	}
	return v.FillBytes(make([]byte, 32)), true
}

func (w *Weier) Decompress(pub []byte) secp.Point {
	x := new(big.Int).SetBytes(pub[1:])
	y, _ := w.C.SqrtY(x)
	if y.Bit(0) != uint(pub[0]&1) {
		y.Sub(w.C.P, y)
	}
	return secp.Point{X: x, Y: y}
}

func (w *Weier) ChildPub(il, parentPub []byte) ([]byte, bool, bool) {
	if il[31]&w.Mask != 0 {
		return nil, false, true
	}
	v := new(big.Int).SetBytes(il)
	if v.Cmp(w.C.N) >= 0 {
		return nil, false, true
	}
	p := w.C.Add(w.C.BaseMul(v), w.Decompress(parentPub))
	if p.Inf {
		return nil, false, true
	}
	return w.C.Compressed(p), true, true
}

func (w *Weier) Pub(priv []byte) []byte {
	return w.C.Compressed(w.C.BaseMul(new(big.Int).SetBytes(priv)))
}

// ---- ed25519-like curves: the key is the 32-byte string itself ----

type Ed struct {
	Mask byte // 0 for real ed25519; toy: candidate invalid when il[31]&Mask != 0
	Toy  bool // toy variant allows non-hardened derivation and has a hash-based "public key"
}

func (e *Ed) Seed() []byte {
	if e.Toy {
		return []byte("toy-string seed")
	}
	return []byte("ed25519 seed")
}
func (e *Ed) HardenedOnly() bool { return !e.Toy }
func (e *Ed) Master(il []byte) ([]byte, bool) {
	if il[31]&e.Mask != 0 {
		return nil, false
	}
	return append([]byte{}, il...), true
}
func (e *Ed) ChildPriv(il, parent []byte) ([]byte, bool) { return e.Master(il) }
func (e *Ed) ChildPub(il, parentPub []byte) ([]byte, bool, bool) {
	if !e.Toy {
		return nil, false, false
	}
	if il[31]&e.Mask != 0 {
		return nil, false, true
	}
	return ToyStringPub(il), true, true
}
func (e *Ed) Pub(priv []byte) []byte {
	if e.Toy {
		return ToyStringPub(priv)
	}
	pk := ed25519.NewKeyFromSeed(priv).Public().(ed25519.PublicKey)
	return append([]byte{0}, pk...)
}

// ToyStringPub is the "public key" of the toy string curve: 0x05 || SHA-256(key).
func ToyStringPub(k []byte) []byte {
	s := sha256.Sum256(k)
	return append([]byte{5}, s[:]...)
}
