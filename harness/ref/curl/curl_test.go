package curl

import (
	"testing"

	iotagocurl "github.com/iotaledger/iota.go/curl"
)

func TestSelf(t *testing.T) {
	if err := SelfCheck(); err != nil {
		t.Fatal(err)
	}
}

// second independent implementation already in the module cache
func TestAgainstIotaGo(t *testing.T) {
	in := make([]int8, 3*Rate)
	for i := range in {
		in[i] = int8((i*i+i/7)%3) - 1
	}
	c := iotagocurl.NewCurlP81()
	if err := c.Absorb(in); err != nil {
		t.Fatal(err)
	}
	want, _ := c.Squeeze(2 * Rate)
	var s Sponge
	s.Absorb(in)
	got := s.Squeeze(2 * Rate)
	for i := range want {
		if want[i] != got[i] {
			t.Fatalf("mismatch at %d", i)
		}
	}
}

func BenchmarkTransform(b *testing.B) {
	var s [StateSize]int8
	for i := 0; i < b.N; i++ {
		Transform(&s)
	}
}
