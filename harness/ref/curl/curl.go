// Package curl is an independent scalar reference of Curl-P-81: one sponge per lane,
// state of 729 trits, round function given by the 11-entry truth table indexed a + 4b + 5,
// index walk +364 / -365, rate 243. Written from the Curl-P definition; no bit slicing.
package curl

import (
	"encoding/json"
	"errors"
	"os"
	"path/filepath"
	"runtime"

	"verifharness/ref/trit"
)

const (
	StateSize = 729
	Rate      = 243
	Rounds    = 81
)

var truthTable = [11]int8{1, 0, -1, 2, 1, -1, 0, 2, -1, 1, 0}

// SBox is the Curl-P round function on two trits.
func SBox(a, b int8) int8 { return truthTable[int(a)+4*int(b)+5] }

// Transform applies the 81-round permutation to a 729-trit state.
func Transform(s *[StateSize]int8) {
	var tmp [StateSize]int8
	for r := 0; r < Rounds; r++ {
		tmp = *s
		idx := 0
		for i := 0; i < StateSize; i++ {
			a := tmp[idx]
			if idx < 365 {
				idx += 364
			} else {
				idx -= 365
			}
			s[i] = SBox(a, tmp[idx])
		}
	}
}

// Sponge is a scalar Curl-P-81 sponge.
type Sponge struct {
	S         [StateSize]int8
	Squeezing bool
}

// Absorb absorbs whole 243-trit blocks.
func (c *Sponge) Absorb(in []int8) {
	for i := 0; i+Rate <= len(in); i += Rate {
		copy(c.S[:Rate], in[i:i+Rate])
		Transform(&c.S)
	}
}

// Squeeze returns n trits (n a multiple of 243): output the rate part, permute between blocks.
func (c *Sponge) Squeeze(n int) []int8 {
	out := make([]int8, 0, n)
	for i := 0; i < n; i += Rate {
		if c.Squeezing {
			Transform(&c.S)
		}
		c.Squeezing = true
		out = append(out, c.S[:Rate]...)
	}
	return out
}

// Hash is the Curl-P-81 hash (243 trits) of whole-block input.
func Hash(in []int8) []int8 {
	var c Sponge
	c.Absorb(in)
	return c.Squeeze(Rate)
}

// SelfCheck: pinned Curl-P-81 vectors (/verif/data/curl/curlp81.json, copied from the pinned commit).
func SelfCheck() error {
	_, file, _, _ := runtime.Caller(0)
	b, err := os.ReadFile(filepath.Join(filepath.Dir(file), "..", "..", "..", "data", "curl", "curlp81.json"))
	if err != nil {
		return err
	}
	var vec []struct{ In, Hash string }
	if err := json.Unmarshal(b, &vec); err != nil {
		return err
	}
	if len(vec) < 10 {
		return errors.New("too few Curl vectors")
	}
	for i, v := range vec {
		in, ok := trit.TrytesToTrits(v.In)
		if !ok || len(in)%Rate != 0 {
			return errors.New("bad vector input")
		}
		var sp Sponge
		sp.Absorb(in)
		if trit.TritsToTrytes(sp.Squeeze(3*len(v.Hash))) != v.Hash {
			return errors.New("reference Curl-P-81 disagrees with pinned vector " + string(rune('0'+i%10)))
		}
	}
	return nil
}
