// Package bech32 is an independent BIP-173 reference written from the BIP text
// (polymod, hrp_expand, create/verify checksum, convertbits). It never imports
// the code under test. It works on byte strings, not on Unicode text.
package bech32

import "errors"

const Charset = "qpzry9x8gf2tvdw0s3jn54khce6mua7l"

var gen = [5]uint32{0x3b6a57b2, 0x26508e6d, 0x1ea119fa, 0x3d4233dd, 0x2a1462b3}

func Polymod(values []byte) uint32 {
	chk := uint32(1)
	for _, v := range values {
		top := chk >> 25
		chk = (chk&0x1ffffff)<<5 ^ uint32(v)
		for i := 0; i < 5; i++ {
			if (top>>uint(i))&1 == 1 {
				chk ^= gen[i]
			}
		}
	}
	return chk
}

func HrpExpand(hrp string) []byte {
	out := make([]byte, 0, 2*len(hrp)+1)
	for i := 0; i < len(hrp); i++ {
		out = append(out, hrp[i]>>5)
	}
	out = append(out, 0)
	for i := 0; i < len(hrp); i++ {
		out = append(out, hrp[i]&31)
	}
	return out
}

// Checksum returns the six checksum symbols for a lower-case hrp and 5-bit symbols.
func Checksum(hrp string, syms []byte) []byte {
	v := append(HrpExpand(hrp), syms...)
	v = append(v, 0, 0, 0, 0, 0, 0)
	pm := Polymod(v) ^ 1
	out := make([]byte, 6)
	for i := 0; i < 6; i++ {
		out[i] = byte(pm>>uint(5*(5-i))) & 31
	}
	return out
}

// ChecksumConst is Checksum for a final polymod constant other than BIP-173's 1 (e.g. the
// Bech32m constant 0x2bc830a3): the resulting string is NOT valid Bech32.
func ChecksumConst(hrp string, syms []byte, c uint32) []byte {
	v := append(HrpExpand(hrp), syms...)
	v = append(v, 0, 0, 0, 0, 0, 0)
	pm := Polymod(v) ^ c
	out := make([]byte, 6)
	for i := 0; i < 6; i++ {
		out[i] = byte(pm>>uint(5*(5-i))) & 31
	}
	return out
}

// EncodeSymbolsConst is EncodeSymbols with the checksum computed for the final constant c.
func EncodeSymbolsConst(hrp string, syms []byte, c uint32) string {
	lower := AsciiLower(hrp)
	all := append(append([]byte{}, syms...), ChecksumConst(lower, syms, c)...)
	out := []byte(hrp)
	out = append(out, '1')
	for _, s := range all {
		out = append(out, Charset[s])
	}
	return string(out)
}

// StateHRP extends prefix by six characters from '!'..'?' (no letters) such that the polymod
// state after the expanded human-readable part equals target (e.g. 0: a state in which the BCH
// register holds no information at all). ok = false when the six characters would fall outside
// the allowed range for this prefix.
func StateHRP(prefix string, target uint32) (hrp string, ok bool) {
	lower := AsciiLower(prefix)
	var v []byte
	for i := 0; i < len(lower); i++ {
		v = append(v, lower[i]>>5)
	}
	v = append(v, 1, 1, 1, 1, 1, 1, 0) // high bits of the six new characters (0x20..0x3f), separator
	for i := 0; i < len(lower); i++ {
		v = append(v, lower[i]&31)
	}
	v = append(v, 0, 0, 0, 0, 0, 0)
	pm := Polymod(v) ^ target
	out := []byte(prefix)
	for i := 0; i < 6; i++ {
		low := byte(pm>>uint(5*(5-i))) & 31
		if low == 0 { // 0x20 is not allowed in a human-readable part
			return "", false
		}
		out = append(out, 0x20|low)
	}
	if Polymod(HrpExpand(AsciiLower(string(out)))) != target {
		panic("StateHRP: construction failed")
	}
	return string(out), true
}

// EncodeSymbols builds hrp + "1" + charset(syms ++ checksum); hrp is used as given
// for the text and lower-cased (ASCII) for the checksum. No validity checks at all.
func EncodeSymbols(hrp string, syms []byte) string {
	lower := AsciiLower(hrp)
	all := append(append([]byte{}, syms...), Checksum(lower, syms)...)
	out := []byte(hrp)
	out = append(out, '1')
	for _, s := range all {
		out = append(out, Charset[s])
	}
	return string(out)
}

// ToSymbols regroups bytes into 5-bit symbols, zero padded (convertbits 8->5, pad=true).
func ToSymbols(data []byte) []byte {
	var out []byte
	acc, bits := uint32(0), 0
	for _, b := range data {
		acc = acc<<8 | uint32(b)
		bits += 8
		for bits >= 5 {
			bits -= 5
			out = append(out, byte(acc>>uint(bits))&31)
		}
	}
	if bits > 0 {
		out = append(out, byte(acc<<uint(5-bits))&31)
	}
	return out
}

var (
	ErrPadLen  = errors.New("more than 4 padding bits")
	ErrPadBits = errors.New("non-zero padding")
)

// FromSymbols regroups 5-bit symbols into bytes (convertbits 5->8, pad=false):
// fails if 5 or more bits are left over or the left-over bits are not all zero.
func FromSymbols(syms []byte) ([]byte, error) {
	var out []byte
	acc, bits := uint32(0), 0
	for _, s := range syms {
		acc = (acc<<5 | uint32(s)) & 0xfff
		bits += 5
		if bits >= 8 {
			bits -= 8
			out = append(out, byte(acc>>uint(bits)))
		}
	}
	if bits >= 5 {
		return nil, ErrPadLen
	}
	if acc&(1<<uint(bits)-1) != 0 {
		return nil, ErrPadBits
	}
	if out == nil {
		out = []byte{}
	}
	return out, nil
}

func AsciiLower(s string) string {
	b := []byte(s)
	for i, c := range b {
		if c >= 'A' && c <= 'Z' {
			b[i] = c + 32
		}
	}
	return string(b)
}

func AsciiUpper(s string) string {
	b := []byte(s)
	for i, c := range b {
		if c >= 'a' && c <= 'z' {
			b[i] = c - 32
		}
	}
	return string(b)
}

// Stage names the first rule of the total decoder that rejects the input ("" = accepted).
type Result struct {
	OK    bool
	Stage string // "length", "charrange", "case", "separator", "short", "charset", "checksum", "padding", ""
	HRP   string
	Syms  []byte // data symbols without checksum (valid from stage "padding" on)
	Data  []byte
}

// Decode is the total reference decoder over arbitrary byte strings:
// <= 90 bytes, every byte in 33..126, not mixed case, last '1' at index >= 1 with
// at least 6 symbols after it, data characters in the charset, polymod == 1,
// symbols regroup into whole bytes with < 5 zero padding bits.
func Decode(s string) Result {
	if len(s) > 90 {
		return Result{Stage: "length"}
	}
	hasLower, hasUpper := false, false
	for i := 0; i < len(s); i++ {
		c := s[i]
		if c < 33 || c > 126 {
			return Result{Stage: "charrange"}
		}
		if c >= 'a' && c <= 'z' {
			hasLower = true
		}
		if c >= 'A' && c <= 'Z' {
			hasUpper = true
		}
	}
	if hasLower && hasUpper {
		return Result{Stage: "case"}
	}
	pos := -1
	for i := len(s) - 1; i >= 0; i-- {
		if s[i] == '1' {
			pos = i
			break
		}
	}
	if pos < 1 {
		return Result{Stage: "separator"}
	}
	if pos+7 > len(s) {
		return Result{Stage: "short"}
	}
	low := AsciiLower(s)
	hrp := low[:pos]
	syms := make([]byte, 0, len(s)-pos-1)
	for i := pos + 1; i < len(low); i++ {
		idx := -1
		for j := 0; j < 32; j++ {
			if Charset[j] == low[i] {
				idx = j
			}
		}
		if idx < 0 {
			return Result{Stage: "charset"}
		}
		syms = append(syms, byte(idx))
	}
	if Polymod(append(HrpExpand(hrp), syms...)) != 1 {
		return Result{Stage: "checksum", HRP: hrp}
	}
	syms = syms[:len(syms)-6]
	data, err := FromSymbols(syms)
	if err != nil {
		return Result{Stage: "padding", HRP: hrp, Syms: syms}
	}
	return Result{OK: true, HRP: hrp, Syms: syms, Data: data}
}

// SelfCheck validates the reference against BIP-173 vectors; a wrong oracle must show
// up as an infrastructure error, not as a finding.
func SelfCheck() error {
	valid := []string{
		"A12UEL5L", "a12uel5l",
		"an83characterlonghumanreadablepartthatcontainsthenumber1andtheexcludedcharactersbio1tt5tgs",
		"abcdef1qpzry9x8gf2tvdw0s3jn54khce6mua7lmqqqxw",
		"11qqqqqqqqqqqqqqqqqqqqqqqqqqqqqqqqqqqqqqqqqqqqqqqqqqqqqqqqqqqqqqqqqqqqqqqqqqqqqqqqqqc8247j",
		"split1checkupstagehandshakeupstreamerranterredcaperred2y9e3w",
		"?1ezyfcl",
	}
	for _, v := range valid {
		// these are valid Bech32 at the checksum level; padding rules (byte regrouping) may still reject
		r := Decode(v)
		if r.Stage != "" && r.Stage != "padding" {
			return errors.New("reference rejects BIP-173 valid vector " + v + " at " + r.Stage)
		}
	}
	invalid := map[string]string{
		"\x201nwldj5": "charrange",
		"\x7f1axkwrx": "charrange",
		"\x801eym55h": "charrange",
		"an84characterslonghumanreadablepartthatcontainsthenumber1andtheexcludedcharactersbio1569pvx": "length",
		"pzry9x0s0muk":  "separator",
		"1pzry9x0s0muk": "separator",
		"x1b4n0q5v":     "charset",
		"li1dgmt3":      "short",
		"de1lg7wt\xff":  "charrange",
		"A1G7SGD8":      "checksum",
		"10a06t8":       "separator",
		"1qzzfhee":      "separator",
		"A12UEl5L":      "case",
	}
	for v, st := range invalid {
		if r := Decode(v); r.Stage != st {
			return errors.New("reference stage for invalid vector " + v + " is " + r.Stage + ", want " + st)
		}
	}
	// BIP-173 segwit test: bc1qw508d6qejxtdg4y5r3zarvary0c5xw7kv8f3t4 = hrp bc, witness version 0 + 20-byte program
	r := Decode("bc1qw508d6qejxtdg4y5r3zarvary0c5xw7kv8f3t4")
	if r.Stage != "" && r.Stage != "padding" {
		return errors.New("segwit vector rejected")
	}
	prog, err := FromSymbols(r.Syms[1:])
	if err != nil || len(prog) != 20 || prog[0] != 0x75 || prog[19] != 0xd6 {
		return errors.New("segwit program mismatch")
	}
	if EncodeSymbols("bc", r.Syms) != "bc1qw508d6qejxtdg4y5r3zarvary0c5xw7kv8f3t4" {
		return errors.New("re-encode mismatch")
	}
	if string(ToSymbols([]byte{0xff})) != string([]byte{31, 28}) {
		return errors.New("ToSymbols mismatch")
	}
	return nil
}
