// Package vrf is an independent reference of RFC 9381 ECVRF-EDWARDS25519-SHA512-TAI
// (suite 0x03, try-and-increment, nonce per 5.4.2.2, challenge per 5.4.3) on the
// big-integer curve model of ref/ed.
package vrf

import (
	"bytes"
	"crypto/sha512"
	"encoding/hex"
	"errors"
	"math/big"

	"verifharness/ref/ed"
)

const suite = 0x03

func hash(parts ...[]byte) []byte {
	h := sha512.New()
	for _, p := range parts {
		h.Write(p)
	}
	return h.Sum(nil)
}

// EncodeToCurve: RFC 9381 section 5.4.1.1 with encode_to_curve_salt = PK string.
// Returns the point and the number of counter values tried.
func EncodeToCurve(salt, alpha []byte) (ed.Point, int) {
	for ctr := 0; ctr < 256; ctr++ {
		hs := hash([]byte{suite, 0x01}, salt, alpha, []byte{byte(ctr), 0x00})
		// interpret_hash_value_as_a_point = string_to_point(hs[0:32]) (RFC 8032 strict decoding)
		if H, ok := ed.DecodeStrict(hs[:32]); ok {
			H = H.MulCofactor()
			if !H.IsIdentity() {
				return H, ctr + 1
			}
		}
	}
	panic("encode_to_curve: no point found")
}

func challenge(p1, p2 []byte, p3, p4, p5 ed.Point) *big.Int {
	c := hash([]byte{suite, 0x02}, p1, p2, p3.Encode(), p4.Encode(), p5.Encode(), []byte{0x00})
	return ed.LEInt(c[:16])
}

// Challenge is ECVRF_challenge_generation (RFC 9381 section 5.4.3) on encoded P1, P2 and points P3..P5.
func Challenge(p1, p2 []byte, p3, p4, p5 ed.Point) *big.Int { return challenge(p1, p2, p3, p4, p5) }

// Prove: RFC 9381 section 5.1. Returns pi (80 bytes) and the number of try-and-increment rounds.
func Prove(seed, alpha []byte) (pi []byte, pk []byte, rounds int) {
	x, prefix := ed.SecretScalar(seed)
	Y := ed.B.Mul(x)
	pk = Y.Encode()
	H, rounds := EncodeToCurve(pk, alpha)
	hString := H.Encode()
	gamma := H.Mul(x)
	k := ed.HashModL(prefix, hString)
	c := challenge(pk, hString, gamma, ed.B.Mul(k), H.Mul(k))
	s := new(big.Int).Mul(c, x)
	s.Add(s, k).Mod(s, ed.L)
	pi = append(append(gamma.Encode(), ed.LEBytes(c, 16)...), ed.LEBytes(s, 32)...)
	return pi, pk, rounds
}

// DecodeProof: RFC 9381 section 5.4.4. ok=false for "INVALID".
func DecodeProof(pi []byte) (gamma ed.Point, c, s *big.Int, ok bool) {
	if len(pi) != 80 {
		return ed.Point{}, nil, nil, false
	}
	gamma, ok = ed.DecodeStrict(pi[:32])
	if !ok {
		return ed.Point{}, nil, nil, false
	}
	c = ed.LEInt(pi[32:48])
	s = ed.LEInt(pi[48:80])
	if s.Cmp(ed.L) >= 0 {
		return ed.Point{}, nil, nil, false
	}
	return gamma, c, s, true
}

// ProofToHash: RFC 9381 section 5.2.
func ProofToHash(pi []byte) ([]byte, bool) {
	gamma, _, _, ok := DecodeProof(pi)
	if !ok {
		return nil, false
	}
	return hash([]byte{suite, 0x03}, gamma.MulCofactor().Encode(), []byte{0x00}), true
}

// Verify: RFC 9381 section 5.3 with validate_key = TRUE. stage names the first failing step.
func Verify(pk, alpha, pi []byte) (ok bool, beta []byte, stage string) {
	Y, okY := ed.DecodeStrict(pk)
	if !okY {
		return false, nil, "key-decode"
	}
	if Y.MulCofactor().IsIdentity() {
		return false, nil, "key-small-order"
	}
	gamma, c, s, okP := DecodeProof(pi)
	if !okP {
		return false, nil, "proof-decode"
	}
	H, _ := EncodeToCurve(pk, alpha)
	U := ed.B.Mul(s).Add(Y.Mul(c).Neg())
	V := H.Mul(s).Add(gamma.Mul(c).Neg())
	if challenge(pk, H.Encode(), gamma, U, V).Cmp(c) != 0 {
		return false, nil, "challenge"
	}
	beta, _ = ProofToHash(pi)
	return true, beta, ""
}

// SelfCheck: RFC 9381 appendix B.3, examples 16-18.
func SelfCheck() error {
	vec := []struct{ sk, pk, alpha, pi, beta string }{
		{"9d61b19deffd5a60ba844af492ec2cc44449c5697b326919703bac031cae7f60", "d75a980182b10ab7d54bfed3c964073a0ee172f3daa62325af021a68f707511a", "",
			"8657106690b5526245a92b003bb079ccd1a92130477671f6fc01ad16f26f723f26f8a57ccaed74ee1b190bed1f479d9727d2d0f9b005a6e456a35d4fb0daab1268a1b0db10836d9826a528ca76567805",
			"90cf1df3b703cce59e2a35b925d411164068269d7b2d29f3301c03dd757876ff66b71dda49d2de59d03450451af026798e8f81cd2e333de5cdf4f3e140fdd8ae"},
		{"4ccd089b28ff96da9db6c346ec114e0f5b8a319f35aba624da8cf6ed4fb8a6fb", "3d4017c3e843895a92b70aa74d1b7ebc9c982ccf2ec4968cc0cd55f12af4660c", "72",
			"f3141cd382dc42909d19ec5110469e4feae18300e94f304590abdced48aed5933bf0864a62558b3ed7f2fea45c92a465301b3bbf5e3e54ddf2d935be3b67926da3ef39226bbc355bdc9850112c8f4b02",
			"eb4440665d3891d668e7e0fcaf587f1b4bd7fbfe99d0eb2211ccec90496310eb5e33821bc613efb94db5e5b54c70a848a0bef4553a41befc57663b56373a5031"},
		{"c5aa8df43f9f837bedb7442f31dcb7b166d38535076f094b85ce3a2e0b4458f7", "fc51cd8e6218a1a38da47ed00230f0580816ed13ba3303ac5deb911548908025", "af82",
			"9bc0f79119cc5604bf02d23b4caede71393cedfbb191434dd016d30177ccbf8096bb474e53895c362d8628ee9f9ea3c0e52c7a5c691b6c18c9979866568add7a2d41b00b05081ed0f58ee5e31b3a970e",
			"645427e5d00c62a23fb703732fa5d892940935942101e456ecca7bb217c61c452118fec1219202a0edcf038bb6373241578be7217ba85a2687f7a0310b2df19f"},
	}
	for i, v := range vec {
		sk, _ := hex.DecodeString(v.sk)
		alpha, _ := hex.DecodeString(v.alpha)
		pi, pk, _ := Prove(sk, alpha)
		if hex.EncodeToString(pk) != v.pk || hex.EncodeToString(pi) != v.pi {
			return errors.New("RFC 9381 example proof mismatch #" + string(rune('0'+i)))
		}
		ok, beta, _ := Verify(pk, alpha, pi)
		if !ok || hex.EncodeToString(beta) != v.beta {
			return errors.New("RFC 9381 example verify/beta mismatch")
		}
		b2, ok := ProofToHash(pi)
		if !ok || !bytes.Equal(b2, beta) {
			return errors.New("proof_to_hash mismatch")
		}
	}
	return nil
}
