package vrf

import "testing"

func TestSelf(t *testing.T) {
	if err := SelfCheck(); err != nil {
		t.Fatal(err)
	}
}
