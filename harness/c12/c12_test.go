// C12 — PoW v2 Mine is sound and never passes over a clearly qualifying nonce.
package c12

import (
	"context"
	"encoding/binary"
	"fmt"
	"math/big"
	"testing"
	"time"

	powv2 "github.com/wollac/iota-crypto-demo/pkg/pow/v2"
	"golang.org/x/crypto/blake2b"
	"pgregory.net/rapid"

	"verifharness/fc"
	"verifharness/h"
	"verifharness/ref/curl"
	ref "verifharness/ref/pow"
	"verifharness/ref/trit"
)

func TestMain(m *testing.M) {
	h.FirstCallsChild(fc.Pow()) // never returns in a first-call child process
	if err := trit.SelfCheck(); err != nil {
		panic(err)
	}
	if err := curl.SelfCheck(); err != nil {
		fmt.Println("VERIF-INFRA reference self-check failed:", err)
		panic(err)
	}
	if err := ref.SelfCheck(); err != nil {
		fmt.Println("VERIF-INFRA reference self-check failed:", err)
		panic(err)
	}
	h.Main(m)
}

// ---- Score ----

type scoreCase struct {
	Msg h.B `json:"msg"`
}

func TestScore(t *testing.T) {
	h.Run(t, h.Sub[scoreCase]{
		Prop: "C12", Name: "score", N: 2000,
		Gen: func(t *rapid.T) scoreCase {
			n := rapid.IntRange(8, 200).Draw(t, "len")
			return scoreCase{h.BytesN(t, "msg", n)}
		},
		Check: func(c scoreCase) (h.Info, error) {
			want := ref.ScoreV2(c.Msg)
			info := h.Info{Class: "score/zero", NT: want.Sign() > 0}
			if want.Sign() > 0 {
				info.Class = "score/positive"
			}
			got := powv2.Score(append([]byte{}, c.Msg...))
			if new(big.Int).SetUint64(got).Cmp(want) != 0 {
				return info, fmt.Errorf("v2.Score(%x) = %d, reference floor(floor(3^243/h)/len) = %s", []byte(c.Msg), got, want)
			}
			return info, nil
		},
		Require: []string{"score/positive"},
		Rule:    "random messages of 8..200 bytes: v2.Score = min(floor(floor(3^243/h)/len), 2^64-1) with h from the independent BLAKE2b -> b1t6 -> Curl-P-81 chain read as a base-3 integer (digit 2 for trit -1) plus one; non-trivial = score > 0; distinct by message",
	})
}

// ---- Mine: soundness and completeness ----

type mineCase struct {
	Data    h.B    `json:"data"`
	Target  uint64 `json:"target"`
	Workers int    `json:"workers"`
	Class   string `json:"class"`
}

func msgOf(data []byte, nonce uint64) []byte {
	var nb [8]byte
	binary.LittleEndian.PutUint64(nb[:], nonce)
	return append(append([]byte{}, data...), nb[:]...)
}

func checkMine(c mineCase) (h.Info, error) {
	ell := uint64(len(c.Data) + 8)
	lx := new(big.Int).Mul(new(big.Int).SetUint64(ell), new(big.Int).SetUint64(c.Target))
	budget := ref.Pow3(10)
	if len(c.Data) > 60000 && c.Workers > 1 { // huge data: len alone exceeds 3^10; soundness only (no scan of skipped blocks)
		budget = big.NewInt(1 << 18)
	}
	if !lx.IsUint64() || lx.Cmp(budget) > 0 {
		return h.Info{}, fmt.Errorf("PRECONDITION: len*target = %s outside the harness budget", lx)
	}
	ctx, cancel := context.WithTimeout(context.Background(), 120*time.Second)
	defer cancel()
	dataIn := append([]byte{}, c.Data...)
	w, ok := workers[c.Workers]
	if !ok {
		w = powv2.New(c.Workers)
		workers[c.Workers] = w
	}
	type res struct {
		nonce uint64
		err   error
	}
	ch := make(chan res, 1)
	go func() {
		n, e := w.Mine(ctx, dataIn, c.Target)
		ch <- res{n, e}
	}()
	var nonce uint64
	var err error
	select {
	case r := <-ch:
		nonce, err = r.nonce, r.err
	case <-time.After(180 * time.Second):
		// termination is property C13's statement, not C12's: inconclusive here
		h.InfraAndExit("C12", "mine", c, fmt.Sprintf("v2.Mine(data=%x, target=%d, workers=%d) did not return within 180 s (60 s after its context expired); C12 cannot be decided, see C13", []byte(c.Data), c.Target, c.Workers))
	}
	info := h.Info{Class: "mine/" + c.Class}
	if string(dataIn) != string(c.Data) {
		return info, fmt.Errorf("v2.Mine modified data")
	}
	if err != nil {
		// the statement constrains nonces returned WITHOUT error (vacuity guard: successful cases must exist)
		return h.Info{Class: "mine-error/" + c.Class}, nil
	}
	msg := msgOf(c.Data, nonce)
	if got := powv2.Score(msg); got < c.Target {
		return info, fmt.Errorf("v2.Mine(data=%x, target=%d [%s], workers=%d) returned nonce %d with Score %d < target (reference score %s)", []byte(c.Data), c.Target, c.Class, c.Workers, nonce, got, ref.ScoreV2(msg))
	}
	if ref.ScoreV2(msg).Cmp(new(big.Int).SetUint64(c.Target)) < 0 {
		return info, fmt.Errorf("v2.Mine(data=%x, target=%d) returned nonce %d whose reference score %s is below the target", []byte(c.Data), c.Target, nonce, ref.ScoreV2(msg))
	}
	if c.Workers != 1 {
		info.NT = true
		info.Class += "/multi-worker"
		return info, nil
	}
	// completeness (single worker): no nonce in a block of 64 before the block of the returned
	// nonce has difficulty strictly above len*target
	skipped := nonce / 64 * 64
	info.NT = skipped >= 64
	if skipped >= 64 {
		info.Class += "/skipped-blocks"
	} else {
		info.Class += "/first-block"
	}
	if c.Target == 0 {
		return info, nil
	}
	digest := blake2b.Sum256(c.Data)
	for n := uint64(0); n < skipped; n++ {
		if d := ref.Difficulty(ref.HashFor(digest, n)); d.Cmp(lx) > 0 {
			return info, fmt.Errorf("v2.Mine(data=%x, target=%d, 1 worker) returned nonce %d but passed over nonce %d, whose difficulty %s strictly exceeds len*target = %s", []byte(c.Data), c.Target, nonce, n, d, lx)
		}
	}
	return info, nil
}

var workers = map[int]*powv2.Worker{} // reused from case to case

// cancelled calls: whatever Mine returns without error must still meet the target
type cancelCase struct {
	Data    h.B    `json:"data"`
	Workers int    `json:"workers"`
	Target  uint64 `json:"target"`
	DelayUs int    `json:"delay_us"` // -1 = cancelled before the call
	// Mode: how the context ends: "" cancel(), "deadline" (context.WithTimeout, Err() = DeadlineExceeded),
	// "cause" (WithCancelCause), "custom" (a Context of the harness whose Err() is its own error value)
	Mode string `json:"mode,omitempty"`
}

func TestMineCancelled(t *testing.T) {
	h.Run(t, h.Sub[cancelCase]{
		Prop: "C12", Name: "mine-cancelled", N: 160,
		Gen: func(t *rapid.T) cancelCase {
			c := cancelCase{Data: h.Bytes(t, "data", 0, 40), Workers: h.OneOf(t, "workers", 1, 2, 4, 8), DelayUs: rapid.IntRange(-1, 3000).Draw(t, "delay"), Mode: h.OneOf(t, "ctxmode", "", "", "deadline", "deadline", "cause", "custom")}
			ell := uint64(len(c.Data) + 8)
			c.Target = rapid.Uint64Range(1<<30, ^uint64(0)/ell-1).Draw(t, "target")
			return c
		},
		Check: func(c cancelCase) (h.Info, error) {
			ctx, end, release := h.ContextFor(c.Mode, c.DelayUs)
			if c.DelayUs < 0 {
				end()
			} else {
				go func() { time.Sleep(time.Duration(c.DelayUs) * time.Microsecond); end() }()
			}
			defer release()
			w, ok := workers[c.Workers]
			if !ok {
				w = powv2.New(c.Workers)
				workers[c.Workers] = w
			}
			nonce, err := w.Mine(ctx, append([]byte{}, c.Data...), c.Target)
			info := h.Info{Class: "cancelled/error", NT: true}
			if err != nil {
				return info, nil
			}
			info.Class = "cancelled/nonce"
			if got := powv2.Score(msgOf(c.Data, nonce)); got < c.Target {
				return info, fmt.Errorf("v2.Mine(data=%x, target=%d, workers=%d) with a context cancelled after %d us returned nonce %d WITHOUT error although its Score %d is below the target", []byte(c.Data), c.Target, c.Workers, c.DelayUs, nonce, got)
			}
			return info, nil
		},
		Require: []string{"cancelled/error"},
		Rule:    "targets >= 2^30 (not found within milliseconds) with the context ended before the call or after 0..3 ms (by cancel, by its deadline, with a cause, or a Context type of the caller whose Err() is its own error): a nonce returned without error must still satisfy Score >= target (an error is fine); all non-trivial; distinct by case",
	})
}

// ---- concurrent Mine calls on one shared Worker ----

type concCase struct {
	Workers int        `json:"workers"`
	Jobs    []mineCase `json:"jobs"`
	Iters   int        `json:"iters"`
}

func checkConcurrent(c concCase) (h.Info, error) {
	info := h.Info{Class: fmt.Sprintf("goroutines=%d", len(c.Jobs)), NT: len(c.Jobs) > 1}
	w := powv2.New(c.Workers)
	err := h.Parallel(len(c.Jobs), func(g int) error {
		jb := c.Jobs[g]
		for it := 0; it < c.Iters; it++ {
			ctx, cancel := context.WithTimeout(context.Background(), 60*time.Second)
			type res struct {
				nonce uint64
				err   error
			}
			ch := make(chan res, 1)
			go func() {
				n, e := w.Mine(ctx, append([]byte{}, jb.Data...), jb.Target)
				ch <- res{n, e}
			}()
			var nonce uint64
			var err error
			select {
			case r := <-ch:
				nonce, err = r.nonce, r.err
			case <-time.After(100 * time.Second):
				// termination is C13's statement: a call that hangs leaves C12 undecided
				h.InfraAndExit("C12", "concurrent-callers-one-worker", c, fmt.Sprintf("v2.Mine(data=%x, target=%d) did not return within 100 s (40 s after its context expired); C12 cannot be decided, see C13", []byte(jb.Data), jb.Target))
			}
			cancel()
			if err != nil {
				continue
			}
			if got := powv2.Score(msgOf(jb.Data, nonce)); got < jb.Target {
				return fmt.Errorf("goroutine %d of %d calling Mine on one shared v2 Worker (%d workers), call %d: v2.Mine(data=%x, target=%d) returned nonce %d with Score %d < target", g, len(c.Jobs), c.Workers, it, []byte(jb.Data), jb.Target, nonce, got)
			}
		}
		return nil
	})
	return info, err
}

func TestMineConcurrent(t *testing.T) {
	h.Run(t, h.Sub[concCase]{
		Prop: "C12", Name: "concurrent-callers-one-worker", N: 60,
		Gen: func(t *rapid.T) concCase {
			c := concCase{Workers: h.OneOf(t, "workers", 1, 2, 4), Iters: 6}
			for i := h.OneOf(t, "g", 2, 4, 8); i > 0; i-- {
				jb := mineCase{Data: h.Bytes(t, "data", 0, 40), Workers: c.Workers, Class: "concurrent"}
				jb.Target = ref.Pow3(rapid.IntRange(3, 7).Draw(t, "s")).Uint64() / uint64(len(jb.Data)+8)
				c.Jobs = append(c.Jobs, jb)
			}
			return c
		},
		Check:   checkConcurrent,
		Require: []string{"goroutines=2", "goroutines=8"},
		Rule:    "schedules: 2..8 goroutines released together call Mine on ONE shared v2 Worker (1..4 worker goroutines each), each with its own data and len*target about 3^3..3^7, 6 times; every nonce returned without error must meet the caller's own target for the caller's own data; all non-trivial",
	})
}

func genMine(t *rapid.T) mineCase {
	c := mineCase{Data: h.Bytes(t, "data", 0, 64), Workers: 1}
	if h.Pick(t, "dlong", 10, 1) == 1 {
		c.Data = h.BytesN(t, "datalong", h.OneOf(t, "dll", 120, 128, 129, 1000))
	}
	if h.Pick(t, "dhuge", 60, 1) == 1 { // around and at multiples of 64 KiB (chunked hashing of the data)
		c.Data = h.BytesN(t, "datahuge", h.OneOf(t, "dhl", 65535, 65536, 65537, 131072, 131073))
		c.Workers = 2
		c.Target, c.Class = 1, "huge-data"
		return c
	}
	if h.Pick(t, "wk", 3, 1) == 1 {
		c.Workers = h.OneOf(t, "workers", 2, 3, 4, 8, 16)
	}
	ell := uint64(len(c.Data) + 8)
	// len*target around 3^s: target = ceil / floor of 3^s/len, +-1
	s := rapid.IntRange(2, 8).Draw(t, "s")
	if h.Pick(t, "deep", 8, 1) == 1 {
		s = 9
	}
	p := ref.Pow3(s).Uint64()
	switch h.Pick(t, "tk", 3, 2, 2, 3, 1) {
	case 0:
		c.Target, c.Class = p/ell, "floor(3^s/len)"
	case 1:
		c.Target, c.Class = p/ell+1, "floor(3^s/len)+1"
	case 2:
		c.Target, c.Class = (p-1)/ell, "floor((3^s-1)/len)"
	case 3:
		c.Target, c.Class = rapid.Uint64Range(1, p/ell+1).Draw(t, "rt"), "random"
	default:
		c.Target, c.Class = h.OneOf(t, "small", uint64(0), 1, 2), "tiny"
	}
	if c.Target == 0 && c.Class != "tiny" {
		c.Target = 1
	}
	return c
}

func TestMine(t *testing.T) {
	h.Run(t, h.Sub[mineCase]{
		Prop: "C12", Name: "mine", N: 160,
		Gen: genMine, Check: checkMine,
		Require: []string{"mine/random/skipped-blocks", "mine/floor(3^s/len)/skipped-blocks", "mine/floor(3^s/len)+1/skipped-blocks"},
		Rule:    "data of 0..64 bytes x targets with len*target at / just above / just below 3^s (s = 2..9), random and tiny targets x workers (1 for completeness, 2..16 for soundness): returned nonce has v2.Score >= target (and reference score >= target); with one worker every nonce of every skipped 64-block is re-hashed with the scalar reference and must not have difficulty > len*target; non-trivial = at least one skipped block or multi-worker; distinct by case",
	})
}

// which public entry point is called first in a process (and by how many goroutines at once)
func TestFirstCalls(t *testing.T) { h.FirstCallsSub(t, "C12", fc.Pow(), 6) }
