//go:build verif

package c12

import (
	"fmt"
	"math/big"
	"math/bits"
	"testing"

	"github.com/iotaledger/iota.go/trinary"
	powv2 "github.com/wollac/iota-crypto-demo/pkg/pow/v2"
	"pgregory.net/rapid"

	"verifharness/h"
	ref "verifharness/ref/pow"
)

func splitmix(x *uint64) uint64 {
	*x += 0x9e3779b97f4a7c15
	z := *x
	z = (z ^ (z >> 30)) * 0xbf58476d1ce4e5b9
	z = (z ^ (z >> 27)) * 0x94d049bb133111eb
	return z ^ (z >> 31)
}

// ---- toInt, sufficientTrailingZeros, targetHash ----

type paramCase struct {
	DataLen int    `json:"data_len"`
	Target  uint64 `json:"target"`
	Seed    uint64 `json:"seed"` // hash trits for the toInt comparison
	Zeros   int    `json:"zeros"`
}

func refSufficient(lx *big.Int) int {
	s := 0
	for ref.Pow3(s).Cmp(lx) < 0 {
		s++
	}
	return s
}

func refTargetHash(lx *big.Int) *big.Int {
	return new(big.Int).Quo(ref.MaxHash, new(big.Int).Add(lx, big.NewInt(1)))
}

func checkParams(c paramCase) (h.Info, error) {
	ell := uint64(c.DataLen + 8)
	lx := new(big.Int).Mul(new(big.Int).SetUint64(ell), new(big.Int).SetUint64(c.Target))
	if !lx.IsUint64() || c.Target == 0 {
		return h.Info{}, fmt.Errorf("PRECONDITION: len*target must fit 64 bits and target > 0")
	}
	data := make([]byte, c.DataLen)
	s := refSufficient(lx)
	info := h.Info{Class: "params/generic", NT: true}
	if ref.Pow3(s).Cmp(lx) == 0 {
		info.Class = "params/len*target=3^s"
	}
	if got := powv2.VerifSufficientTrailingZeros(data, c.Target); got != s {
		return info, fmt.Errorf("sufficientTrailingZeros(len %d, target %d) = %d, min{s: 3^s >= %s} = %d", ell, c.Target, got, lx, s)
	}
	if got, want := powv2.VerifTargetHash(data, c.Target), refTargetHash(lx); got.Cmp(want) != 0 {
		return info, fmt.Errorf("targetHash(len %d, target %d) = %s, floor(3^243/(len*target+1)) = %s", ell, c.Target, got, want)
	}
	// toInt on an arbitrary hash with c.Zeros trailing zeros
	tr := make([]int8, 243)
	sd := c.Seed
	for i := range tr {
		tr[i] = int8(splitmix(&sd)%3) - 1
	}
	for i := 243 - c.Zeros; i < 243 && i >= 0; i++ {
		tr[i] = 0
	}
	if got, want := powv2.VerifToInt(trinary.Trits(append([]int8{}, tr...))), ref.HashInt(tr); got.Cmp(want) != 0 {
		return info, fmt.Errorf("toInt(%v) = %s, reference %s", tr, got, want)
	}
	return info, nil
}

func TestParams(t *testing.T) {
	h.Run(t, h.Sub[paramCase]{
		Prop: "C12", Name: "params(hook)", N: 6000,
		Gen: func(t *rapid.T) paramCase {
			c := paramCase{DataLen: rapid.IntRange(0, 300).Draw(t, "dl"), Seed: rapid.Uint64().Draw(t, "seed"), Zeros: rapid.IntRange(0, 243).Draw(t, "zeros")}
			ell := uint64(c.DataLen + 8)
			max := ^uint64(0) / ell
			switch h.Pick(t, "tk", 3, 3, 2, 1) {
			case 0: // len*target at / around a power of three
				s := rapid.IntRange(1, 40).Draw(t, "s")
				p := ref.Pow3(s).Uint64()
				c.Target = p/ell + uint64(rapid.IntRange(0, 1).Draw(t, "d"))
				if p%ell == 0 && rapid.Bool().Draw(t, "exact") {
					c.Target = p / ell
				}
			case 1:
				c.Target = rapid.Uint64Range(1, max).Draw(t, "rt")
			case 2:
				c.Target = rapid.Uint64Range(1, 100000).Draw(t, "small")
			default:
				c.Target = max - uint64(rapid.IntRange(0, 2).Draw(t, "m"))
			}
			if c.Target == 0 {
				c.Target = 1
			}
			if c.Target > max {
				c.Target = max
			}
			return c
		},
		Check: checkParams, Require: []string{"params/generic"},
		Rule: "hook: sufficientTrailingZeros = min{s : 3^s >= len*target}, targetHash = floor(3^243/(len*target+1)), toInt = reference integer, over message lengths 8..308, targets around powers of three, random, small and maximal (len*target <= 2^64-1) and hashes with 0..243 trailing zeros; all non-trivial; distinct by case",
	})
}

// exact powers: len*target == 3^s exactly (needs len | 3^s)
func TestParamsExactPowers(t *testing.T) {
	h.RunEnum(t, h.Enum[paramCase]{
		Prop: "C12", Name: "params-exact-powers(hook)",
		Rule: "complete: all (len, s) with len in {9, 27, 81, 243} and 3^s/len in [1, 3^40/len]: len*target = 3^s exactly",
		Each: func(yield func(paramCase) bool) {
			for _, ell := range []int{9, 27, 81, 243} {
				for s := 2; s <= 40; s++ {
					p := ref.Pow3(s).Uint64()
					if p%uint64(ell) != 0 || p/uint64(ell) == 0 {
						continue
					}
					if !yield(paramCase{DataLen: ell - 8, Target: p / uint64(ell), Seed: uint64(s), Zeros: s}) {
						return
					}
				}
			}
		},
		Check: checkParams, Require: []string{"params/len*target=3^s"},
	})
}

// ---- lane test ----

// W: lanes per bit plane = bits per machine word of the build target.
const W = bits.UintSize

// laneKinds: how each of the 64 lanes is built relative to (s, T)
//
//	0 random hash                      3 exactly s-1 zeros, value just above T (d < lx+1: must not be required, may be rejected)
//	1 >= s trailing zeros              4 exactly s-1 zeros, value at/just below T (d >= lx+1: must be found)
//	2 fewer than s-1 zeros             5 exactly s-1 zeros, random value
//	6 / 7 exactly s-1 zeros, above / below T by a value of random magnitude
//	8 exactly s-1 zeros, the smallest values with difficulty < len*target (d = lx-1: must not be returned)
type laneCase struct {
	DataLen int    `json:"data_len"`
	Target  uint64 `json:"target"`
	Seed    uint64 `json:"seed"`
	Kinds   []int  `json:"kinds"` // 64 entries
}

// magnitude returns a value in [3^e, 3^(e+1)) for a uniformly chosen e < n.
func magnitude(sd *uint64, n int) *big.Int {
	e := int(splitmix(sd) % uint64(n))
	lo := ref.Pow3(e)
	r := new(big.Int).SetUint64(splitmix(sd))
	r.Lsh(r, 330).Mod(r, new(big.Int).Mul(lo, big.NewInt(2)))
	return r.Add(r, lo)
}

func checkLanes(c laneCase) (h.Info, error) {
	if len(c.Kinds) != 64 || c.Target == 0 {
		return h.Info{}, fmt.Errorf("PRECONDITION: lane case")
	}
	ell := uint64(c.DataLen + 8)
	lx := new(big.Int).Mul(new(big.Int).SetUint64(ell), new(big.Int).SetUint64(c.Target))
	if !lx.IsUint64() {
		return h.Info{}, fmt.Errorf("PRECONDITION: len*target overflows")
	}
	s := refSufficient(lx)
	if s < 2 || s > 60 {
		return h.Info{}, fmt.Errorf("PRECONDITION: s = %d", s)
	}
	T := refTargetHash(lx)
	step := ref.Pow3(s - 1) // hashes with exactly s-1 trailing zeros have (h-1) = m * 3^(s-1), 3 does not divide m
	sd := c.Seed
	var l, hh [243]uint
	diffs := make([]*big.Int, W)
	bigStage := false
	for j := 0; j < W; j++ {
		var tr []int8
		rnd := func(zeros int) []int8 {
			x := make([]int8, 243)
			for i := range x {
				x[i] = int8(splitmix(&sd)%3) - 1
			}
			for i := 243 - zeros; i < 243; i++ {
				x[i] = 0
			}
			if zeros < 243 && x[243-zeros-1] == 0 {
				x[243-zeros-1] = 1
			}
			return x
		}
		// trits are little-endian: "trailing zeros" are the most significant digits, so a hash with z
		// trailing zero trits has integer value < 3^(243-z)
		switch c.Kinds[j] {
		case 1:
			tr = rnd(s + int(splitmix(&sd)%3))
		case 2:
			z := 0
			if s >= 3 {
				z = int(splitmix(&sd) % uint64(s-1))
			}
			tr = rnd(z)
		case 3, 4, 5, 6, 7, 8:
			// exactly s-1 trailing zeros: value v in [3^(243-s), 3^(243-s+1))
			lo, hi := ref.Pow3(243-s), ref.Pow3(243-s+1)
			var v *big.Int
			switch c.Kinds[j] {
			case 3: // just above T
				v = new(big.Int).Add(T, big.NewInt(1+int64(splitmix(&sd)%3)))
			case 4: // at or just below T
				v = new(big.Int).Sub(T, big.NewInt(int64(splitmix(&sd)%3)))
			case 8: // the smallest values whose difficulty is below len*target: must never be returned
				v = new(big.Int).Quo(ref.Pow3(243), lx)
				v.Add(v, big.NewInt(1+int64(splitmix(&sd)%3)))
			case 6: // above T by 3^e, e anywhere below T's own magnitude (agrees with T in its leading trits)
				v = new(big.Int).Add(T, magnitude(&sd, 243-s))
			case 7: // below T by 3^e
				v = new(big.Int).Sub(T, magnitude(&sd, 243-s))
			default:
				span := new(big.Int).Sub(hi, lo)
				r := new(big.Int).SetUint64(splitmix(&sd))
				r.Lsh(r, 320).Mod(r, span)
				v = r.Add(r, lo)
			}
			if v.Cmp(lo) <= 0 {
				v = new(big.Int).Add(lo, big.NewInt(1))
			}
			if v.Cmp(hi) >= 0 {
				v = new(big.Int).Sub(hi, big.NewInt(1))
			}
			tr = ref.TritsOfInt(v)
		default:
			tr = rnd(0)
		}
		_ = step
		d := ref.Difficulty(tr)
		diffs[j] = d
		if ref.TrailingZeros(tr) == s-1 {
			bigStage = true
		}
		for i, t := range tr {
			if t <= 0 {
				l[i] |= 1 << uint(j)
			}
			if t >= 0 {
				hh[i] |= 1 << uint(j)
			}
		}
	}
	got := powv2.VerifCheckStateTrits(&l, &hh, powv2.VerifSufficientTrailingZeros(make([]byte, c.DataLen), c.Target), powv2.VerifTargetHash(make([]byte, c.DataLen), c.Target))
	firstClear := W
	anyClear := false
	for j, d := range diffs {
		if d.Cmp(lx) > 0 {
			anyClear = true
			if firstClear == W {
				firstClear = j
			}
		}
	}
	cls := "lanes/none-qualifies"
	switch {
	case anyClear && firstClear == 0:
		cls = "lanes/qualifying-lane0"
	case anyClear && firstClear == W-1:
		cls = "lanes/qualifying-last-lane"
	case anyClear:
		cls = "lanes/qualifying-middle"
	}
	if bigStage {
		cls += "+bigint-stage"
	}
	info := h.Info{Class: cls, NT: bigStage}
	if got < W {
		if got < 0 || diffs[got].Cmp(lx) < 0 {
			return info, fmt.Errorf("checkStateTrits (len %d, target %d, s=%d) returned lane %d whose difficulty %s is below len*target = %s (unsound)", ell, c.Target, s, got, diffs[got], lx)
		}
	} else if anyClear {
		return info, fmt.Errorf("checkStateTrits (len %d, target %d, s=%d) found no lane although lane %d has difficulty %s > len*target = %s (a clearly qualifying nonce is passed over)", ell, c.Target, s, firstClear, diffs[firstClear], lx)
	}
	return info, nil
}

func genLanes(t *rapid.T) laneCase {
	c := laneCase{DataLen: rapid.IntRange(0, 100).Draw(t, "dl"), Seed: rapid.Uint64().Draw(t, "seed"), Kinds: make([]int, 64)}
	ell := uint64(c.DataLen + 8)
	s := rapid.IntRange(2, 30).Draw(t, "s")
	if h.Pick(t, "huge", 3, 1) == 1 { // len*target up to 2^64
		s = h.OneOf(t, "shuge", 31, 33, 35, 37, 38, 39, 40, 40, 40, 40)
	}
	p := ref.Pow3(s).Uint64()
	switch h.Pick(t, "tk", 2, 2, 2) {
	case 0:
		c.Target = p / ell
	case 1:
		c.Target = p/ell + 1
	default:
		lo := ref.Pow3(s-1).Uint64()/ell + 1
		hi := p / ell
		if hi < lo {
			hi = lo
		}
		c.Target = rapid.Uint64Range(lo, hi).Draw(t, "rt")
	}
	if c.Target == 0 {
		c.Target = 1
	}
	// background: mostly non-qualifying lanes (kinds 0, 2, 3), then 0..3 interesting lanes
	bg := h.Pick(t, "bg", 3, 3, 2, 2, 2)
	for j := range c.Kinds {
		c.Kinds[j] = []int{0, 2, 3, 6, 8}[bg]
	}
	k := rapid.IntRange(0, 3).Draw(t, "k")
	for i := 0; i < k; i++ {
		lane := h.OneOf(t, "lane", 0, W-1, rapid.IntRange(0, W-1).Draw(t, "anylane"))
		c.Kinds[lane] = h.OneOf(t, "kind", 1, 3, 4, 4, 5, 6, 7, 8)
	}
	return c
}

func TestLanes(t *testing.T) {
	h.Run(t, h.Sub[laneCase]{
		Prop: "C12", Name: "lane-test(hook)", N: 8000,
		Gen: genLanes, Check: checkLanes,
		Require: []string{"lanes/none-qualifies+bigint-stage", "lanes/qualifying-lane0+bigint-stage", "lanes/qualifying-last-lane+bigint-stage", "lanes/qualifying-middle+bigint-stage"},
		Rule:    "hook: W-lane bit planes (W = bits per machine word: 64, or 32 in the GOARCH=386 variant) for drawn (len, target) with s = 2..40 (len*target up to 2^64): background lanes (random / too few zeros / exactly s-1 zeros with value just above the target hash or above it by a value in [3^e, 3^(e+1)) for every magnitude e, or the smallest values whose difficulty is len*target - 1) plus up to 3 interesting lanes at 0, W-1 or random (>= s zeros; exactly s-1 zeros with value at / just below / just above the target hash, above or below it by such a value, or random); result < W => that lane has difficulty >= len*target (sound); some lane with difficulty > len*target => result < W (complete); non-trivial = a lane with exactly s-1 zeros exists (big-integer stage reached); distinct by case",
	})
}

// coverage-guided fuzzing over the structured lane generator (thorough tier, hook build only)
func FuzzGenLanes(f *testing.F) {
	h.FuzzSub(f, h.Sub[laneCase]{Prop: "C12", Name: "lane-test(hook)", Gen: genLanes, Check: checkLanes})
}
