// C19 — network and migration addresses round-trip and parse strictly.
package c19

import (
	"bytes"
	"fmt"
	"testing"

	"github.com/wollac/iota-crypto-demo/pkg/bech32/address"
	"github.com/wollac/iota-crypto-demo/pkg/migration"
	"golang.org/x/crypto/blake2b"
	"pgregory.net/rapid"

	"verifharness/bgen"
	"verifharness/fc"
	"verifharness/h"
	ref "verifharness/ref/bech32"
	"verifharness/ref/trit"
)

func TestMain(m *testing.M) {
	h.FirstCallsChild(fc.Address()) // never returns in a first-call child process
	if err := ref.SelfCheck(); err != nil {
		fmt.Println("VERIF-INFRA reference self-check failed:", err)
		panic(err)
	}
	if err := trit.SelfCheck(); err != nil {
		fmt.Println("VERIF-INFRA reference self-check failed:", err)
		panic(err)
	}
	h.Main(m)
}

var knownHRP = []string{"iota", "atoi", "smr", "rms"}
var prefixes = []address.Prefix{address.IOTAMainnet, address.IOTADevnet, address.ShimmerMainnet, address.ShimmerDevnet}

// payload length per version byte (the table of the statement)
var versionLen = map[byte]int{0x00: 32, 0x08: 20, 0x10: 20}

// ---- constructor round trip ----

type ctorCase struct {
	Prefix int `json:"prefix"` // 0..3
	Kind   int `json:"kind"`   // 0 ed25519, 1 alias, 2 nft
	Input  h.B `json:"input"`  // 32-byte public key or 34-byte output id
}

func blake160(b []byte) []byte {
	hh, _ := blake2b.New(20, nil)
	hh.Write(b)
	return hh.Sum(nil)
}

func checkCtor(c ctorCase) (h.Info, error) {
	info := h.Info{Class: []string{"ed25519", "alias", "nft"}[c.Kind], NT: true}
	var addr address.Address
	var wantBytes []byte
	switch c.Kind {
	case 0:
		if len(c.Input) != 32 {
			return info, fmt.Errorf("PRECONDITION: key length")
		}
		addr = address.AddressFromPublicKey([]byte(c.Input))
		sum := blake2b.Sum256(c.Input)
		wantBytes = append([]byte{0x00}, sum[:]...)
	case 1, 2:
		if len(c.Input) != address.OutputIDLength {
			return info, fmt.Errorf("PRECONDITION: output id length")
		}
		var id [address.OutputIDLength]byte
		copy(id[:], c.Input)
		if c.Kind == 1 {
			addr = address.AliasAddressFromOutputID(id)
			wantBytes = append([]byte{0x08}, blake160(c.Input)...)
		} else {
			addr = address.NFTAddressFromOutputID(id)
			wantBytes = append([]byte{0x10}, blake160(c.Input)...)
		}
	}
	if !bytes.Equal(addr.Bytes(), wantBytes) || byte(addr.Version()) != wantBytes[0] {
		return info, fmt.Errorf("address bytes %x (version %#x), want %x", addr.Bytes(), byte(addr.Version()), wantBytes)
	}
	p := prefixes[c.Prefix]
	if p.String() != knownHRP[c.Prefix] {
		return info, fmt.Errorf("Prefix(%d).String() = %q", c.Prefix, p.String())
	}
	s, err := address.Bech32(p, addr)
	want := ref.EncodeSymbols(knownHRP[c.Prefix], ref.ToSymbols(wantBytes))
	if err != nil || s != want {
		return info, fmt.Errorf("Bech32(%s, %x) = %q, %v; reference %q", p, wantBytes, s, err, want)
	}
	for _, spelling := range []string{s, ref.AsciiUpper(s)} {
		gp, ga, err := address.ParseBech32(spelling)
		if err != nil {
			return info, fmt.Errorf("ParseBech32(%q): %v", spelling, err)
		}
		if gp != p || !bytes.Equal(ga.Bytes(), wantBytes) || ga.Version() != addr.Version() || ga.String() != addr.String() {
			return info, fmt.Errorf("ParseBech32(%q) = (%v, %x), want (%v, %x)", spelling, gp, ga.Bytes(), p, wantBytes)
		}
	}
	return info, nil
}

func TestConstructors(t *testing.T) {
	h.Run(t, h.Sub[ctorCase]{
		Prop: "C19", Name: "constructor-roundtrip", N: 12000,
		Gen: func(t *rapid.T) ctorCase {
			k := rapid.IntRange(0, 2).Draw(t, "kind")
			n := 32
			if k > 0 {
				n = address.OutputIDLength
			}
			var in h.B
			switch h.Pick(t, "ik", 6, 1, 1) {
			case 0:
				in = h.BytesN(t, "in", n)
			case 1:
				in = make(h.B, n)
			default:
				in = bytes.Repeat([]byte{0xff}, n)
			}
			return ctorCase{Prefix: rapid.IntRange(0, 3).Draw(t, "prefix"), Kind: k, Input: in}
		},
		Check: checkCtor, Require: []string{"ed25519", "alias", "nft"},
		Rule: "4 prefixes x {Ed25519 from a public key, Alias / NFT from an output id}: Bech32 form = reference encoding of version||BLAKE2b hash, ParseBech32 of the lower- and upper-case form returns the same prefix and address; all non-trivial; distinct by (prefix, kind, input)",
	})
}

// ---- strict parsing ----

type parseCase struct {
	S h.S `json:"s"`
}

func checkParse(c parseCase) (h.Info, error) {
	s := string(c.S)
	r := ref.Decode(s)
	accept := false
	cls := "reject/bech32-" + r.Stage
	prefixIdx := -1
	if r.OK {
		for i, k := range knownHRP {
			if r.HRP == k {
				prefixIdx = i
			}
		}
		switch {
		case prefixIdx < 0:
			cls = "reject/prefix"
		case len(r.Data) == 0:
			cls = "reject/no-version"
		default:
			wl, known := versionLen[r.Data[0]]
			switch {
			case !known:
				cls = "reject/version"
			case len(r.Data)-1 != wl:
				cls = "reject/length"
			default:
				accept = true
				cls = fmt.Sprintf("accept/v%02x", r.Data[0])
			}
		}
	}
	info := h.Info{Class: cls, NT: r.OK}
	p, a, err := address.ParseBech32(s)
	if accept != (err == nil) {
		var ab []byte
		if a != nil {
			ab = a.Bytes()
		}
		return info, fmt.Errorf("ParseBech32(%q): expected accept=%v (%s), got (%v, %x, %v)", s, accept, cls, p, ab, err)
	}
	if !accept {
		return info, nil
	}
	if int(p) != prefixIdx || !bytes.Equal(a.Bytes(), r.Data) || byte(a.Version()) != r.Data[0] {
		return info, fmt.Errorf("ParseBech32(%q) = (%v, %x), reference (%s, %x)", s, p, a.Bytes(), r.HRP, r.Data)
	}
	re, err := address.Bech32(p, a)
	if err != nil || re != ref.AsciiLower(s) {
		return info, fmt.Errorf("ParseBech32(%q) accepted but re-encodes to %q, %v", s, re, err)
	}
	// no state between calls: parse the same string again after overwriting what the first call returned
	b0 := a.Bytes()
	for i := range b0 {
		b0[i] ^= 0xff
	}
	if p2, a2, err := address.ParseBech32(s); err != nil || p2 != p || !bytes.Equal(a2.Bytes(), r.Data) {
		return info, fmt.Errorf("second ParseBech32(%q) differs from the first", s)
	}
	return info, nil
}

var nearHRP = []string{"iot", "iotaa", "iota1", "ota", "atoj", "sm", "smrr", "rm", "rmss", "i", "tst", "a", "iotb", "io1ta"}

func genParse(t *rapid.T) parseCase {
	hrp := ""
	switch h.Pick(t, "hk", 8, 2, 1) {
	case 0:
		hrp = h.OneOf(t, "hrp", knownHRP...)
	case 1:
		hrp = h.OneOf(t, "near", nearHRP...)
	default:
		hrp = bgen.HRP(t, rapid.IntRange(1, 6).Draw(t, "hl"))
	}
	var data []byte
	version := byte(0)
	switch h.Pick(t, "vk", 10, 3, 2) {
	case 0:
		version = h.OneOf(t, "ver", byte(0x00), 0x08, 0x10)
	case 1:
		version = h.OneOf(t, "nver", byte(0x01), 0x04, 0x07, 0x09, 0x0f, 0x11, 0x18, 0x20, 0x80, 0x88, 0x90, 0xff)
	default:
		version = rapid.Byte().Draw(t, "anyver")
	}
	plen := 0
	switch h.Pick(t, "lk", 8, 3, 2, 1) {
	case 0:
		if l, ok := versionLen[version]; ok {
			plen = l
		} else {
			plen = h.OneOf(t, "pl", 20, 32)
		}
	case 1:
		plen = h.OneOf(t, "plx", 19, 20, 21, 31, 32, 33)
	case 2:
		plen = rapid.IntRange(0, 50).Draw(t, "plany")
	default:
		plen = -1 // no version byte at all
	}
	if plen >= 0 {
		payload := rapid.SliceOfN(rapid.Byte(), plen, plen).Draw(t, "payload")
		switch h.Pick(t, "plfill", 12, 1, 1) { // the all-zero and the all-ones address are addresses like any other
		case 1:
			payload = make([]byte, plen)
		case 2:
			payload = bytes.Repeat([]byte{0xff}, plen)
		}
		data = append([]byte{version}, payload...)
	}
	var s string
	switch h.Pick(t, "symk", 8, 2, 1, 1) {
	case 3: // well-formed address whose checksum belongs to another constant (Bech32m, 0, ...)
		s = ref.EncodeSymbolsConst(hrp, ref.ToSymbols(data), bgen.WrongConsts[h.Pick(t, "wc", 6, 1, 1, 1, 1, 1, 1, 1)])
	case 0:
		s = ref.EncodeSymbols(hrp, ref.ToSymbols(data))
	case 1: // non-zero padding bits in the last data symbol (checksum still correct)
		syms := ref.ToSymbols(data)
		if npad := len(syms)*5 - len(data)*8; npad > 0 && len(syms) > 0 {
			syms[len(syms)-1] |= byte(rapid.IntRange(1, 1<<uint(npad)-1).Draw(t, "padbits"))
		}
		s = ref.EncodeSymbols(hrp, syms)
	default: // arbitrary trailing symbol: padding faults
		syms := ref.ToSymbols(data)
		syms = append(syms, byte(rapid.IntRange(0, 31).Draw(t, "extra")))
		s = ref.EncodeSymbols(hrp, syms)
	}
	switch h.Pick(t, "case", 6, 2, 1, 1) {
	case 1:
		s = bgen.Upper(s)
	case 2:
		s = bgen.FlipCase(t, s)
	case 3: // network prefix in one case, the rest in the other
		s = bgen.SplitCase(s, len(hrp), rapid.Bool().Draw(t, "upfx"))
	}
	if h.Pick(t, "trappart", 14, 1) == 1 { // a case-folding trap placed in a chosen part of an otherwise valid string
		return parseCase{S: h.S(bgen.FoldTrapPart(t, s))}
	}
	ne := h.Pick(t, "nedits", 8, 3, 1)
	for i := 0; i < ne; i++ {
		s = bgen.Edit(t, s)
	}
	return parseCase{S: h.S(s)}
}

func TestParse(t *testing.T) {
	h.Run(t, h.Sub[parseCase]{
		Prop: "C19", Name: "parse-strict", N: 80000,
		Gen: genParse, Check: checkParse,
		Require: []string{"accept/v00", "accept/v08", "accept/v10", "reject/prefix", "reject/version", "reject/length", "reject/no-version", "reject/bech32-checksum", "reject/bech32-padding", "reject/bech32-case", "reject/bech32-charrange"},
		Rule:    "reference-encoded Bech32 strings with known / near-miss / random prefixes, version bytes 0..255 (weighted to 0x00, 0x08, 0x10 and neighbours), payload lengths 0..50, well-formed addresses whose checksum belongs to another constant (Bech32m, 0, ...), case variants and 0..2 hostile edits; non-trivial = passes Bech32 decoding in the reference (so prefix/version/length decide); distinct by string",
	})
}

// ---- concurrent callers sharing a network prefix ----

type concCase struct {
	Strings []h.S `json:"strings"`
	Iters   int   `json:"iters"`
}

func checkConcurrent(c concCase) (h.Info, error) {
	type exp struct {
		ok   bool
		data []byte
	}
	want := make([]exp, len(c.Strings))
	acc := 0
	for i, s := range c.Strings {
		// sequential verdict through the full single-call check (also validates the case)
		info, err := checkParse(parseCase{S: s})
		if err != nil {
			return h.Info{Class: "sequential"}, err
		}
		want[i].ok = len(info.Class) > 6 && info.Class[:6] == "accept"
		if want[i].ok {
			want[i].data = ref.Decode(string(s)).Data
			acc++
		}
	}
	info := h.Info{Class: fmt.Sprintf("goroutines=%d", len(c.Strings)), NT: acc > 0}
	if acc > 0 && acc < len(c.Strings) {
		info.Class += "/mixed"
	}
	err := h.Parallel(len(c.Strings), func(g int) error {
		s := string(c.Strings[g])
		for it := 0; it < c.Iters; it++ {
			p, a, err := address.ParseBech32(s)
			if want[g].ok != (err == nil) || (err == nil && !bytes.Equal(a.Bytes(), want[g].data)) {
				return fmt.Errorf("goroutine %d of %d (all parsing addresses of the same network prefix), iteration %d: ParseBech32(%q) = (%v, %v), expected accept=%v", g, len(c.Strings), it, s, p, err, want[g].ok)
			}
			if err == nil {
				if re, err := address.Bech32(p, a); err != nil || re != ref.AsciiLower(s) {
					return fmt.Errorf("goroutine %d of %d (same network prefix), iteration %d: address parsed from %q re-encodes to %q, %v", g, len(c.Strings), it, s, re, err)
				}
			}
		}
		return nil
	})
	return info, err
}

func TestConcurrent(t *testing.T) {
	h.Run(t, h.Sub[concCase]{
		Prop: "C19", Name: "concurrent-callers", N: 100,
		Gen: func(t *rapid.T) concCase {
			c := concCase{Iters: 300}
			hrp := h.OneOf(t, "hrp", knownHRP...)
			for i := h.OneOf(t, "g", 2, 4, 8); i > 0; i-- {
				version := h.OneOf(t, "ver", byte(0x00), 0x08, 0x10)
				data := append([]byte{version}, h.BytesN(t, "payload", versionLen[version])...)
				s := ref.EncodeSymbols(hrp, ref.ToSymbols(data))
				if h.Pick(t, "bad", 2, 1) == 1 {
					b := []byte(s)
					p := rapid.IntRange(len(hrp)+1, len(b)-1).Draw(t, "pos")
					b[p] = ref.Charset[(bytes.IndexByte([]byte(ref.Charset), b[p])+rapid.IntRange(1, 31).Draw(t, "d"))%32]
					s = string(b)
				}
				c.Strings = append(c.Strings, h.S(s))
			}
			return c
		},
		Check:   checkConcurrent,
		Require: []string{"goroutines=2/mixed", "goroutines=8/mixed"},
		Rule:    "schedules: 2..8 goroutines released together, each parsing (and re-encoding) its own valid or one-character-corrupted address 300 times, all of one network prefix; every verdict = the sequential verdict against the reference; non-trivial = at least one valid address",
	})
}

func FuzzParseBech32(f *testing.F) {
	for _, s := range []string{"iota1qrhacyfwlcnzkvzteumekfkrrwks98mpdm37cj4xx3drvmjvnep6xqgyzyx", "atoi1qqqqqqqqqqqqqqqqqqqqqqqqqqqqqqqqqqqqqqqqqqqqqqqqqqqq8yyg0", "smr1", "rms1pqqqqqqqqqqqqqqqqqqqqqqqqqqqqqqqqqqqqq", "IOTA1QRHACYFWLCNZKVZTEUMEKFKRRWKS98MPDM37CJ4XX3DRVMJVNEP6XQGYZYX", "iota1K", ""} {
		f.Add(s)
	}
	f.Fuzz(func(t *testing.T, s string) {
		c := parseCase{S: h.S(s)}
		if _, err := checkParse(c); err != nil {
			h.Fail(t, "C19", "parse-strict", c, err)
		}
	})
}

// ---- migration addresses ----

type migCase struct {
	Kind string `json:"kind"` // "addr" (Addr used) or "string" (S used)
	Addr h.B    `json:"addr,omitempty"`
	S    h.S    `json:"s,omitempty"`
}

func refMigEncode(addr []byte) string {
	sum := blake2b.Sum256(addr)
	return "TRANSFER" + trit.TritsToTrytes(trit.B1T6Encode(append(append([]byte{}, addr...), sum[:4]...))) + "9"
}

// refMigDecode: (address, stage) with stage "" when accepted.
func refMigDecode(s string) ([]byte, string) {
	if len(s) != 81 {
		return nil, "length"
	}
	for i := 0; i < len(s); i++ {
		if _, ok := trit.TryteValue(s[i]); !ok {
			return nil, "alphabet"
		}
	}
	if s[:8] != "TRANSFER" {
		return nil, "prefix"
	}
	if s[80] != '9' {
		return nil, "suffix"
	}
	tr, _ := trit.TrytesToTrits(s[8:80])
	b, err := trit.B1T6Decode(tr)
	if err != nil {
		return nil, "groups"
	}
	sum := blake2b.Sum256(b[:32])
	if !bytes.Equal(sum[:4], b[32:36]) {
		return nil, "checksum"
	}
	return b[:32], ""
}

func checkMig(c migCase) (h.Info, error) {
	if c.Kind == "addr" {
		if len(c.Addr) != 32 {
			return h.Info{}, fmt.Errorf("PRECONDITION: address length")
		}
		var a [32]byte
		copy(a[:], c.Addr)
		info := h.Info{Class: "mig/roundtrip", NT: true}
		s := migration.Encode(a)
		if want := refMigEncode(a[:]); s != want {
			return info, fmt.Errorf("migration.Encode(%x) = %q, reference %q", a, s, want)
		}
		back, err := migration.Decode(s)
		if err != nil || back != a {
			return info, fmt.Errorf("migration.Decode(Encode(%x)) = %x, %v", a, back, err)
		}
		return info, nil
	}
	s := string(c.S)
	want, stage := refMigDecode(s)
	info := h.Info{Class: "mig/reject-" + stage, NT: stage != "length" && stage != "alphabet"}
	if stage == "" {
		info.Class = "mig/accept"
	}
	got, err := migration.Decode(s)
	if (stage == "") != (err == nil) {
		return info, fmt.Errorf("migration.Decode(%q): reference stage %q, got %x, %v", s, stage, got, err)
	}
	if stage != "" {
		return info, nil
	}
	if !bytes.Equal(got[:], want) {
		return info, fmt.Errorf("migration.Decode(%q) = %x, reference %x", s, got, want)
	}
	if re := migration.Encode(got); re != s {
		return info, fmt.Errorf("migration.Decode(%q) accepted but re-encodes to %q", s, re)
	}
	return info, nil
}

func genMig(t *rapid.T) migCase {
	var addr []byte
	switch h.Pick(t, "ak", 6, 1, 1) {
	case 0:
		addr = h.BytesN(t, "addr", 32)
	case 1:
		addr = make([]byte, 32)
	default:
		addr = bytes.Repeat([]byte{0xff}, 32)
	}
	if h.Pick(t, "mk", 1, 3) == 0 {
		return migCase{Kind: "addr", Addr: addr}
	}
	s := []byte(refMigEncode(addr))
	switch h.Pick(t, "sk", 2, 4, 2, 2, 1, 1, 1, 2) {
	case 7:
		// an invalid tryte pair inside the address part, with checksum trytes that match what a decoder
		// might compute after mishandling it: the hash of nothing, of the bytes before the fault, of the
		// address with the group read as zero or reduced mod 256, or of 32 zero bytes
		g := rapid.IntRange(0, 31).Draw(t, "badgroup")
		var pair []byte
		for {
			pair = []byte{trit.TryteAlphabet[rapid.IntRange(0, 26).Draw(t, "g0")], trit.TryteAlphabet[rapid.IntRange(0, 26).Draw(t, "g1")]}
			tr, _ := trit.TrytesToTrits(string(pair))
			if _, err := trit.B1T6Decode(tr); err != nil {
				break
			}
		}
		v0, _ := trit.TryteValue(pair[0])
		v1, _ := trit.TryteValue(pair[1])
		var pre []byte
		switch h.Pick(t, "mis", 2, 1, 1, 1, 1) {
		case 0:
			pre = nil
		case 1:
			pre = append([]byte{}, addr[:g]...)
		case 2:
			pre = append([]byte{}, addr...)
			pre[g] = 0
		case 3:
			pre = append([]byte{}, addr...)
			pre[g] = byte(v0 + 27*v1)
		default:
			pre = make([]byte, 32)
		}
		sum := blake2b.Sum256(pre)
		body := []byte(trit.TritsToTrytes(trit.B1T6Encode(append(append([]byte{}, addr...), sum[:4]...))))
		copy(body[2*g:], pair)
		s = []byte("TRANSFER" + string(body) + "9")
	case 0: // valid as is
	case 1: // substitute 1..2 trytes
		for i := 0; i < rapid.IntRange(1, 2).Draw(t, "nsub"); i++ {
			s[rapid.IntRange(0, 80).Draw(t, "p")] = trit.TryteAlphabet[rapid.IntRange(0, 26).Draw(t, "c")]
		}
	case 2: // valid groups, wrong checksum: re-encode address with a perturbed checksum
		sum := blake2b.Sum256(addr)
		cs := append([]byte{}, sum[:4]...)
		cs[rapid.IntRange(0, 3).Draw(t, "cb")] ^= byte(rapid.IntRange(1, 255).Draw(t, "cx"))
		s = []byte("TRANSFER" + trit.TritsToTrytes(trit.B1T6Encode(append(append([]byte{}, addr...), cs...))) + "9")
	case 3: // random trytes
		for i := range s {
			s[i] = trit.TryteAlphabet[rapid.IntRange(0, 26).Draw(t, "rt")]
		}
		if rapid.Bool().Draw(t, "keepfix") {
			copy(s, "TRANSFER")
			s[80] = '9'
		}
	case 4: // wrong length
		n := h.OneOf(t, "len", 0, 1, 80, 82, 90, 162, 72)
		for len(s) < n {
			s = append(s, '9')
		}
		s = s[:n]
	case 5: // non-tryte character
		s[rapid.IntRange(0, 80).Draw(t, "p")] = h.OneOf(t, "bad", byte('a'), 't', '0', '8', ' ', '\n', 0xff, '[', '@')
	default: // non-ASCII rune keeping byte length 81
		p := rapid.IntRange(0, 78).Draw(t, "p")
		copy(s[p:], "\xe2\x84\xaa")
	}
	return migCase{Kind: "string", S: h.S(s)}
}

func TestMigration(t *testing.T) {
	h.Run(t, h.Sub[migCase]{
		Prop: "C19", Name: "migration", N: 60000,
		Gen: genMig, Check: checkMig,
		Require: []string{"mig/roundtrip", "mig/accept", "mig/reject-checksum", "mig/reject-groups", "mig/reject-prefix", "mig/reject-suffix", "mig/reject-length", "mig/reject-alphabet"},
		Rule:    "32-byte addresses (Encode = reference, Decode inverts) and 81-tryte strings: valid forms, 1-2 tryte substitutions, valid groups with wrong checksum, an invalid tryte pair in the address part with a checksum matching a mishandled decoding (hash of nothing / of the bytes before the fault / of the address with the group read as 0 or mod 256), random trytes, wrong lengths, non-tryte characters; Decode accepts iff the reference decoder does and then re-encodes to the input; non-trivial = passes the length/alphabet guard; distinct by case",
	})
}

// All 81 x 26 single-tryte substitutions of sampled migration addresses.
type subCase struct {
	Addr h.B `json:"addr"`
}

func TestMigrationSubstitutions(t *testing.T) {
	bulk := h.NewBulk("migration-single-substitutions", "for each sampled address all 81 x 26 single-tryte substitutions of its migration form are decoded: accepted iff the reference decoder accepts (and then re-encodes to itself); one evaluation per substituted string", []string{"mig/reject-checksum", "mig/reject-groups", "mig/reject-prefix", "mig/reject-suffix"}, false)
	reported := false
	h.Run(t, h.Sub[subCase]{
		Prop: "C19", Name: "migration-substitution-words", N: 12,
		Rule: "sampled addresses for migration-single-substitutions",
		Gen:  func(t *rapid.T) subCase { return subCase{Addr: h.BytesN(t, "addr", 32)} },
		Check: func(c subCase) (h.Info, error) {
			base := []byte(refMigEncode(c.Addr))
			wh := h.Hash64(c.Addr)
			for p := 0; p < 81; p++ {
				for k := 0; k < 27; k++ {
					ch := trit.TryteAlphabet[k]
					if ch == base[p] {
						continue
					}
					m := append([]byte{}, base...)
					m[p] = ch
					mc := migCase{Kind: "string", S: h.S(m)}
					info, err := checkMig(mc)
					bulk.Add(info.Class, true, wh^uint64(p)<<8^uint64(k))
					if err != nil {
						if !reported {
							h.Fail(t, "C19", "migration", mc, err)
							bulk.Failed()
						}
						reported = true
						return h.Info{Class: "word"}, err
					}
				}
			}
			return h.Info{Class: "word", NT: true}, nil
		},
	})
}

// FuzzGenParse: the structured generator driven by Go's coverage-guided fuzzer (thorough tier).
func FuzzGenParse(f *testing.F) {
	h.FuzzSub(f, h.Sub[parseCase]{Prop: "C19", Name: "parse-strict", Gen: genParse, Check: checkParse})
}

// which public entry point is called first in a process (and by how many goroutines at once)
func TestFirstCalls(t *testing.T) { h.FirstCallsSub(t, "C19", fc.Address(), 6) }
