// C01 — Ed25519 Verify accepts exactly the ZIP-215 signature set.
package c01

import (
	"bytes"
	stded "crypto/ed25519"
	"fmt"
	"math/big"
	"testing"

	"github.com/wollac/iota-crypto-demo/pkg/ed25519"
	"pgregory.net/rapid"

	"verifharness/fc"
	"verifharness/h"
	"verifharness/ref/ed"
)

func TestMain(m *testing.M) {
	h.FirstCallsChild(fc.Ed25519()) // never returns in a first-call child process
	if err := ed.SelfCheck(); err != nil {
		fmt.Println("VERIF-INFRA reference self-check failed:", err)
		panic(err)
	}
	h.Main(m)
}

var primerPK, primerSig = ed.Sign(bytes.Repeat([]byte{7}, 32), []byte("primer"))

var (
	reusedPK  [32]byte
	reusedSig = make([]byte, 0, 128)
	reusedMsg = make([]byte, 0, 8192)
)

type sigCase struct {
	Kind string `json:"kind"`
	PK   h.B    `json:"pk"`
	Msg  h.B    `json:"msg"`
	Sig  h.B    `json:"sig"`
}

func checkVerify(c sigCase) (h.Info, error) {
	if len(c.PK) != 32 {
		return h.Info{Class: "bad-case"}, fmt.Errorf("PRECONDITION: public key length %d", len(c.PK))
	}
	want, stage := ed.VerifyZIP215(c.PK, c.Msg, c.Sig)
	cls := c.Kind + "/"
	switch {
	case want:
		cls += "accept"
	case stage == "":
		cls += "reject-equation"
	default:
		cls += "reject-" + stage
	}
	nt := c.Kind != "random" && (stage == "" || stage == "S>=L" || c.Kind == "noncanonical" || c.Kind == "torsion")
	info := h.Info{Class: cls, NT: nt}
	// callers that reuse their buffers: the same key / signature / message arrays are overwritten in
	// place from one case to the next and are the first and the last thing Verify sees in every case
	// (state kept between calls must not refer to the caller's storage)
	reuse := func(when string) error {
		// self-contained (replayable) sequence: a fixed honest triple first, then this case's data
		// written over it in place
		copy(reusedPK[:], primerPK)
		reusedSig = append(reusedSig[:0], primerSig...)
		reusedMsg = append(reusedMsg[:0], "primer"...)
		if !ed25519.Verify(ed25519.PublicKey(reusedPK[:]), reusedMsg, reusedSig) {
			return fmt.Errorf("Verify rejects the fixed honest primer signature (%s)", when)
		}
		copy(reusedPK[:], c.PK)
		reusedSig = append(reusedSig[:0], c.Sig...)
		reusedMsg = append(reusedMsg[:0], c.Msg...)
		if g := ed25519.Verify(ed25519.PublicKey(reusedPK[:]), reusedMsg, reusedSig); g != want {
			return fmt.Errorf("Verify(pk=%x, msg=%x, sig=%x) [%s] = %v when called (%s) with caller buffers that were overwritten in place after holding the previous case's key and signature, ZIP-215 reference = %v", []byte(c.PK), []byte(c.Msg), []byte(c.Sig), c.Kind, g, when, want)
		}
		return nil
	}
	if err := reuse("first call of the case"); err != nil {
		return info, err
	}
	defer reuse("last call of the case")
	got := ed25519.Verify(ed25519.PublicKey(append([]byte{}, c.PK...)), append([]byte{}, c.Msg...), append([]byte{}, c.Sig...))
	if got != want {
		return info, fmt.Errorf("Verify(pk=%x, msg=%x, sig=%x) [%s] = %v, ZIP-215 reference = %v (first failing condition: %q)", []byte(c.PK), []byte(c.Msg), []byte(c.Sig), c.Kind, got, want, stage)
	}
	// the verdict must not depend on how the caller's slices are laid out in memory: key, signature
	// and message as adjacent sub-slices of one buffer (spare capacity running into the next field),
	// and the inputs must come back unmodified
	for layout := 0; layout < 2; layout++ {
		var buf []byte
		var key, sg, m []byte
		if layout == 0 {
			buf = append(append(append(make([]byte, 0, 32+len(c.Sig)+len(c.Msg)+64), c.PK...), c.Sig...), c.Msg...)
			key, sg, m = buf[:32], buf[32:32+len(c.Sig)], buf[32+len(c.Sig):]
		} else {
			buf = append(append(append(make([]byte, 0, 32+len(c.Sig)+len(c.Msg)+64), c.Msg...), c.PK...), c.Sig...)
			m, key, sg = buf[:len(c.Msg)], buf[len(c.Msg):len(c.Msg)+32], buf[len(c.Msg)+32:]
		}
		snapshot := append([]byte{}, buf...)
		got2 := ed25519.Verify(ed25519.PublicKey(key), m, sg)
		if got2 != want {
			return info, fmt.Errorf("Verify(pk=%x, msg=%x, sig=%x) [%s] = %v when key/message/signature are adjacent sub-slices of one buffer (layout %d), ZIP-215 reference = %v", []byte(c.PK), []byte(c.Msg), []byte(c.Sig), c.Kind, got2, layout, want)
		}
		if string(buf) != string(snapshot) {
			return info, fmt.Errorf("Verify modified the caller's buffer (layout %d)", layout)
		}
	}
	// framing: right after an accepting call, the same bytes with the message/signature boundary moved
	// (a longer or shorter "signature") are a different triple and are judged on their own
	if got && len(c.Sig) == 64 {
		all := append(append([]byte{}, c.Msg...), c.Sig...)
		for _, n := range []int{len(c.Msg) - 1, len(c.Msg) - 32, len(c.Msg) + 1, len(c.Msg) + 32, 0} {
			if n < 0 || n > len(all) || n == len(c.Msg) {
				continue
			}
			m2, s2 := all[:n:n], all[n:]
			w2, _ := ed.VerifyZIP215(c.PK, m2, s2)
			if g2 := ed25519.Verify(ed25519.PublicKey(c.PK), m2, s2); g2 != w2 {
				return info, fmt.Errorf("after Verify(pk=%x, msg=%x, sig=%x) = true: Verify(pk, msg'=%x, sig'=%x) (same bytes, message/signature boundary moved to %d) = %v, ZIP-215 reference = %v", []byte(c.PK), []byte(c.Msg), []byte(c.Sig), m2, s2, n, g2, w2)
			}
		}
	}
	// everything crypto/ed25519 accepts is accepted
	if len(c.Sig) == 64 && stded.Verify(stded.PublicKey(c.PK), c.Msg, c.Sig) && !got {
		return info, fmt.Errorf("crypto/ed25519 accepts (pk=%x, msg=%x, sig=%x) but Verify rejects", []byte(c.PK), []byte(c.Msg), []byte(c.Sig))
	}
	return info, nil
}

// ---- generators built on the reference curve (known discrete logs) ----

func randScalar(t *rapid.T, label string) *big.Int {
	switch h.Pick(t, label+"k", 8, 1, 1) {
	case 1:
		return big.NewInt(int64(rapid.IntRange(0, 3).Draw(t, label+"s")))
	case 2:
		return new(big.Int).Sub(ed.L, big.NewInt(int64(rapid.IntRange(1, 3).Draw(t, label+"m"))))
	}
	v := new(big.Int).SetBytes(rapid.SliceOfN(rapid.Byte(), 32, 32).Draw(t, label))
	return v.Mod(v, ed.L)
}

// encodings returns all 32-byte strings that ZIP-215 decodes to p: the canonical one, y+p when
// it fits 255 bits, and for x = 0 both sign bits.
func encodings(p ed.Point) [][]byte {
	x, y := p.Affine()
	can := p.Encode()
	out := [][]byte{can}
	ys := []*big.Int{y}
	if yp := new(big.Int).Add(y, ed.P); yp.BitLen() <= 255 {
		ys = append(ys, yp)
	}
	for _, yv := range ys {
		for sign := byte(0); sign < 2; sign++ {
			if x.Sign() != 0 && uint(sign) != x.Bit(0) {
				continue
			}
			b := ed.LEBytes(yv, 32)
			b[31] |= sign << 7
			dup := false
			for _, o := range out {
				if string(o) == string(b) {
					dup = true
				}
			}
			if !dup {
				out = append(out, b)
			}
		}
	}
	return out
}

func pickEnc(t *rapid.T, label string, p ed.Point) []byte {
	e := encodings(p)
	return e[rapid.IntRange(0, len(e)-1).Draw(t, label)]
}

// sign builds S for A = aB + Ti, R = rB + Tj given the encodings actually used.
func finish(aEnc, rEnc, msg []byte, a, r *big.Int) []byte {
	k := ed.HashModL(rEnc, aEnc, msg)
	s := new(big.Int).Mul(k, a)
	s.Add(s, r).Mod(s, ed.L)
	return append(append([]byte{}, rEnc...), ed.LEBytes(s, 32)...)
}

// finishMirror builds the sibling equations a verifier that compares too little accepts: S = ka - r (holds
// for -R, same y coordinate), S = r - ka (holds for -A), S = -(r + ka) (holds for -R and -A).
func finishMirror(aEnc, rEnc, msg []byte, a, r *big.Int, which int) []byte {
	k := ed.HashModL(rEnc, aEnc, msg)
	s := new(big.Int).Mul(k, a)
	switch which {
	case 0:
		s.Sub(s, r)
	case 1:
		s.Sub(r, s)
	default:
		s.Add(s, r).Neg(s)
	}
	s.Mod(s, ed.L)
	return append(append([]byte{}, rEnc...), ed.LEBytes(s, 32)...)
}

// message lengths far from the short ones: around SHA-512 blocks, around 1 KiB, 2 KiB, 4 KiB, and (one
// in forty) around multiples of 64 KiB
func genMsg(t *rapid.T) []byte {
	if h.Pick(t, "mhuge", 40, 1) == 1 { // around and at multiples of 64 KiB (chunked hashing)
		n := h.OneOf(t, "mhl", 65535, 65536, 65537, 100000, 131071, 131072, 131073, 196608, 262144, 300000)
		fill := rapid.Byte().Draw(t, "mhfill")
		m := make([]byte, n)
		for i := range m {
			m[i] = fill + byte(i*31+i>>8)
		}
		return m
	}
	if h.Pick(t, "magic", 11, 1) == 1 { // a domain-separation string of a neighbouring scheme in front
		return append([]byte(h.OneOf(t, "magicpre", magicPrefixes...)), h.Bytes(t, "magicrest", 0, 40)...)
	}
	switch h.Pick(t, "ml", 6, 2, 2) {
	case 0:
		return h.Bytes(t, "msg", 0, 48)
	case 1:
		return h.BytesN(t, "msgb", h.OneOf(t, "mlb", 63, 64, 65, 111, 112, 127, 128, 129, 255, 256))
	}
	base := h.OneOf(t, "mbase", 1024, 2048, 4096)
	n := base + rapid.IntRange(-100, 40).Draw(t, "moff")
	fill := rapid.Byte().Draw(t, "mfill")
	m := make([]byte, n)
	for i := range m {
		m[i] = fill + byte(i)
	}
	return m
}

var magicPrefixes = []string{"SigEd25519 no Ed25519 collisions", "SigEd25519 no Ed25519 collisions\x00\x00", "SigEd25519 no Ed25519 collisions\x01\x00", "SigEd448", "\x19Ethereum Signed Message:\n32", "Bitcoin Signed Message:\n", "ECVRF", "\x03\x01", "ed25519 seed"}

// rVariant changes the R half of a signature the way a sloppy comparison would not notice: the case bit of a
// byte that is an ASCII letter, the sign bit, a swap of two bytes, a trailing byte
func rVariant(t *rapid.T, rEnc []byte) []byte {
	v := append([]byte{}, rEnc...)
	var letters []int
	for i, b := range v {
		if (b|0x20) >= 'a' && (b|0x20) <= 'z' {
			letters = append(letters, i)
		}
	}
	switch k := h.Pick(t, "rvar", 4, 1, 1, 1); {
	case k == 0 && len(letters) > 0:
		v[letters[rapid.IntRange(0, len(letters)-1).Draw(t, "rvl")]] ^= 0x20
	case k == 1:
		v[31] ^= 0x80
	case k == 2:
		i := rapid.IntRange(0, 30).Draw(t, "rvs")
		v[i], v[i+1] = v[i+1], v[i]
	default:
		v[rapid.IntRange(0, 31).Draw(t, "rvb")] ^= 1 << uint(rapid.IntRange(0, 7).Draw(t, "rvbit"))
	}
	return v
}

func genBase(t *rapid.T) sigCase {
	msg := genMsg(t)
	tor := ed.Torsion()
	a, r := randScalar(t, "a"), randScalar(t, "r")
	switch h.Pick(t, "kind", 4, 6, 4, 2, 1) {
	case 0: // honest
		A, R := ed.B.Mul(a), ed.B.Mul(r)
		aEnc, rEnc := A.Encode(), R.Encode()
		if h.Pick(t, "mirror", 7, 1) == 1 {
			return sigCase{"honest+mirror", aEnc, msg, finishMirror(aEnc, rEnc, msg, a, r, rapid.IntRange(0, 2).Draw(t, "mk"))}
		}
		if h.Pick(t, "rvariant", 9, 1) == 1 {
			// S = r + H(R*, A, M) a for an R* that differs from the encoding of rB: the equation holds for rB,
			// not for what R* decodes to (if it decodes at all)
			return sigCase{"honest+r-variant", aEnc, msg, finish(aEnc, rVariant(t, rEnc), msg, a, r)}
		}
		return sigCase{"honest", aEnc, msg, finish(aEnc, rEnc, msg, a, r)}
	case 1: // torsion-mixed A and/or R, any encoding
		i, j := rapid.IntRange(0, 7).Draw(t, "ti"), rapid.IntRange(0, 7).Draw(t, "tj")
		A, R := ed.B.Mul(a).Add(tor[i]), ed.B.Mul(r).Add(tor[j])
		aEnc, rEnc := pickEnc(t, "aenc", A), pickEnc(t, "renc", R)
		if h.Pick(t, "mirror", 7, 1) == 1 {
			return sigCase{"torsion+mirror", aEnc, msg, finishMirror(aEnc, rEnc, msg, a, r, rapid.IntRange(0, 2).Draw(t, "mk"))}
		}
		return sigCase{"torsion", aEnc, msg, finish(aEnc, rEnc, msg, a, r)}
	case 2: // small-order / non-canonical encodings: a = 0 and/or r = 0
		i, j := rapid.IntRange(0, 7).Draw(t, "ti"), rapid.IntRange(0, 7).Draw(t, "tj")
		switch h.Pick(t, "which", 1, 1, 1) {
		case 0:
			a = big.NewInt(0)
		case 1:
			r = big.NewInt(0)
		default:
			a, r = big.NewInt(0), big.NewInt(0)
		}
		A, R := ed.B.Mul(a).Add(tor[i]), ed.B.Mul(r).Add(tor[j])
		aEnc, rEnc := pickEnc(t, "aenc", A), pickEnc(t, "renc", R)
		return sigCase{"noncanonical", aEnc, msg, finish(aEnc, rEnc, msg, a, r)}
	case 3: // crypto/ed25519 signature
		seed := rapid.SliceOfN(rapid.Byte(), 32, 32).Draw(t, "seed")
		priv := stded.NewKeyFromSeed(seed)
		return sigCase{"stdlib", []byte(priv.Public().(stded.PublicKey)), msg, stded.Sign(priv, msg)}
	}
	// uniformly random bytes
	return sigCase{"random", h.BytesN(t, "pk", 32), msg, h.Bytes(t, "sig", 64, 64)}
}

func genVerify(t *rapid.T) sigCase {
	c := genBase(t)
	if c.Kind == "random" {
		if h.Pick(t, "rl", 6, 1) == 1 {
			c.Sig = h.Bytes(t, "sigl", 0, 70)
		}
		return c
	}
	switch h.Pick(t, "mut", 10, 4, 3, 2, 2, 2, 1, 1) {
	case 0: // unmodified
	case 1: // malleability: S + j*L for every j that fits 256 bits
		if len(c.Sig) == 64 {
			s := ed.LEInt(c.Sig[32:])
			j := rapid.IntRange(1, 15).Draw(t, "j")
			s.Add(s, new(big.Int).Mul(big.NewInt(int64(j)), ed.L))
			if s.BitLen() <= 256 {
				copy(c.Sig[32:], ed.LEBytes(s, 32))
				c.Kind += "+S+jL"
			}
		}
	case 2: // bit flip in pk / R / S / msg
		switch h.Pick(t, "where", 2, 2, 2, 1) {
		case 0:
			c.PK[rapid.IntRange(0, 31).Draw(t, "i")] ^= 1 << uint(rapid.IntRange(0, 7).Draw(t, "b"))
			c.Kind += "+flip-pk"
		case 1:
			c.Sig[rapid.IntRange(0, 31).Draw(t, "i")] ^= 1 << uint(rapid.IntRange(0, 7).Draw(t, "b"))
			c.Kind += "+flip-R"
		case 2:
			c.Sig[32+rapid.IntRange(0, 31).Draw(t, "i")] ^= 1 << uint(rapid.IntRange(0, 7).Draw(t, "b"))
			c.Kind += "+flip-S"
		default:
			if len(c.Msg) > 0 {
				c.Msg[rapid.IntRange(0, len(c.Msg)-1).Draw(t, "i")] ^= 1 << uint(rapid.IntRange(0, 7).Draw(t, "b"))
			} else {
				c.Msg = append(c.Msg, 0)
			}
			c.Kind += "+flip-msg"
		}
	case 3: // top bits of S
		c.Sig[63] |= byte(h.OneOf(t, "top", 0x80, 0x40, 0x20, 0x10, 0xe0, 0xf0))
		c.Kind += "+S-topbits"
	case 4: // truncated or extended signature
		n := rapid.IntRange(0, 70).Draw(t, "len")
		for len(c.Sig) < n {
			c.Sig = append(c.Sig, 0)
		}
		c.Sig = c.Sig[:n]
		c.Kind += "+siglen"
	case 5: // message extended / shortened
		if len(c.Msg) > 0 && rapid.Bool().Draw(t, "shorten") {
			c.Msg = c.Msg[:len(c.Msg)-1]
		} else {
			c.Msg = append(c.Msg, 0)
		}
		c.Kind += "+msglen"
	case 6: // swapped halves
		c.Sig = append(append(h.B{}, c.Sig[32:]...), c.Sig[:32]...)
		c.Kind += "+swapped"
	case 7: // negated A (sign bit), off-curve neighbour
		if rapid.Bool().Draw(t, "neg") {
			c.PK[31] ^= 0x80
			c.Kind += "+negA"
		} else {
			c.PK[0] ^= 1
			c.Kind += "+ynext"
		}
	}
	return c
}

func TestVerify(t *testing.T) {
	h.Run(t, h.Sub[sigCase]{
		Prop: "C01", Name: "verify", N: 5000,
		Gen: genVerify, Check: checkVerify,
		Require: []string{"honest/accept", "torsion/accept", "noncanonical/accept", "stdlib/accept", "torsion+S+jL/reject-S>=L", "honest+S+jL/reject-S>=L",
			"honest+flip-S/reject-equation", "torsion+flip-pk/reject-A-decode", "honest+flip-R/reject-R-decode", "honest+siglen/reject-length", "random/reject-S>=L", "honest+mirror/reject-equation"},
		Rule: "triples built from known scalars on an independent curve model: honest, A=aB+Ti / R=rB+Tj for all torsion pairs in every encoding (canonical, y+p, negative zero), small-order A and/or R, crypto/ed25519 signatures, mirrored equations built from the secret scalars (S = ka-r, r-ka, -(r+ka): hold for -R and/or -A only), S = r + H(R*,A,M)a for an R* that differs from the encoding of rB in the case bit of a letter byte / the sign bit / two swapped bytes / one bit, messages beginning with domain-separation strings of neighbouring schemes, then one mutation (S+jL j=1..15, bit flips in key/R/S/message, S top bits, signature length 0..70, message length, swapped halves, negated/off-curve key), plus random bytes; Verify must equal the literal ZIP-215 predicate evaluated on the model; non-trivial = not random bytes and (verdict decided by the group equation, or an S>=L / torsion / non-canonical case); distinct by triple",
	})
}

// ---- concurrent callers ----

type concCase struct {
	Cases []sigCase `json:"cases"`
	Iters int       `json:"iters"`
}

func checkConcurrent(c concCase) (h.Info, error) {
	want := make([]bool, len(c.Cases))
	acc := 0
	for i, sc := range c.Cases {
		if len(sc.PK) != 32 {
			return h.Info{Class: "bad-case"}, fmt.Errorf("PRECONDITION: public key length")
		}
		want[i], _ = ed.VerifyZIP215(sc.PK, sc.Msg, sc.Sig)
		if want[i] {
			acc++
		}
	}
	info := h.Info{Class: fmt.Sprintf("goroutines=%d", len(c.Cases)), NT: acc > 0 && acc < len(c.Cases)}
	if acc == len(c.Cases) {
		info.Class += "/all-accept"
	} else if acc > 0 {
		info.Class += "/mixed"
	}
	err := h.Parallel(len(c.Cases), func(g int) error {
		sc := c.Cases[g]
		pk, msg, sig := append([]byte{}, sc.PK...), append([]byte{}, sc.Msg...), append([]byte{}, sc.Sig...)
		for it := 0; it < c.Iters; it++ {
			if got := ed25519.Verify(ed25519.PublicKey(pk), msg, sig); got != want[g] {
				return fmt.Errorf("Verify(pk=%x, msg=%x, sig=%x) [%s] = %v in goroutine %d (iteration %d) while %d other goroutines verify their own triples, ZIP-215 reference = %v", pk, msg, sig, sc.Kind, got, g, it, len(c.Cases)-1, want[g])
			}
		}
		return nil
	})
	return info, err
}

func TestConcurrent(t *testing.T) {
	h.Run(t, h.Sub[concCase]{
		Prop: "C01", Name: "concurrent-callers", N: 60,
		Gen: func(t *rapid.T) concCase {
			n := h.OneOf(t, "g", 2, 4, 8, 16)
			c := concCase{Iters: 40}
			for i := 0; i < n; i++ {
				if rapid.Bool().Draw(t, "honest") {
					c.Cases = append(c.Cases, genBase(t))
				} else {
					c.Cases = append(c.Cases, genVerify(t))
				}
			}
			return c
		},
		Check:   checkConcurrent,
		Require: []string{"goroutines=8/mixed", "goroutines=2/mixed"},
		Rule:    "schedules: 2..16 goroutines released together, each verifying its own generated triple (honest, torsion, mutated, random; own keys) 40 times; every verdict must equal the ZIP-215 reference computed beforehand; non-trivial = accepting and rejecting triples in flight at the same time",
	})
}

// ---- complete grids ----

type gridCase struct {
	I, J   int // torsion indices for A and R
	EA, ER int // encoding indices
	AZero  bool
	RZero  bool
	JL     int // add JL*L to S (0 = none)
}

func (g gridCase) build() (sigCase, bool) {
	tor := ed.Torsion()
	a, r := big.NewInt(0x1234567), big.NewInt(0x7654321)
	if g.AZero {
		a = big.NewInt(0)
	}
	if g.RZero {
		r = big.NewInt(0)
	}
	A, R := ed.B.Mul(a).Add(tor[g.I]), ed.B.Mul(r).Add(tor[g.J])
	ea, er := encodings(A), encodings(R)
	if g.EA >= len(ea) || g.ER >= len(er) {
		return sigCase{}, false
	}
	msg := []byte{byte(g.I), byte(g.J), byte(g.EA), byte(g.ER)}
	sig := finish(ea[g.EA], er[g.ER], msg, a, r)
	kind := "torsion"
	if g.AZero || g.RZero {
		kind = "noncanonical"
	}
	if g.JL > 0 {
		s := ed.LEInt(sig[32:])
		s.Add(s, new(big.Int).Mul(big.NewInt(int64(g.JL)), ed.L))
		if s.BitLen() > 256 {
			return sigCase{}, false
		}
		copy(sig[32:], ed.LEBytes(s, 32))
		kind += "+S+jL"
	}
	return sigCase{kind, ea[g.EA], msg, sig}, true
}

func TestTorsionGrid(t *testing.T) {
	h.RunEnum(t, h.Enum[gridCase]{
		Prop: "C01", Name: "torsion-encoding-grid",
		Rule: "complete grid: all 8x8 torsion shifts of A and R x {a,r generic / a=0 / r=0 / both 0} x every encoding of the resulting points (canonical, y+p, negative zero); plus S+jL for j=1..15 on the generic case; every case non-trivial, distinct by construction",
		Each: func(yield func(gridCase) bool) {
			for i := 0; i < 8; i++ {
				for j := 0; j < 8; j++ {
					for z := 0; z < 4; z++ {
						for ea := 0; ea < 4; ea++ {
							for er := 0; er < 4; er++ {
								g := gridCase{I: i, J: j, EA: ea, ER: er, AZero: z&1 == 1, RZero: z&2 == 2}
								if _, ok := g.build(); ok {
									if !yield(g) {
										return
									}
								}
							}
						}
					}
					for jl := 1; jl <= 15; jl++ {
						g := gridCase{I: i, J: j, JL: jl}
						if _, ok := g.build(); ok {
							if !yield(g) {
								return
							}
						}
					}
				}
			}
		},
		Check: func(g gridCase) (h.Info, error) {
			c, _ := g.build()
			info, err := checkVerify(c)
			info.NT = true
			if err == nil && g.JL == 0 && info.Class != c.Kind+"/accept" {
				return info, fmt.Errorf("harness self-check: constructed cofactored-valid signature classified %s", info.Class)
			}
			return info, err
		},
		Require: []string{"torsion/accept", "noncanonical/accept", "torsion+S+jL/reject-S>=L"},
	})
}

func FuzzVerify(f *testing.F) {
	pk, sig := ed.Sign(make([]byte, 32), []byte("m"))
	f.Add(pk, []byte("m"), sig)
	tor := ed.Torsion()
	for i := range tor {
		for _, e := range encodings(tor[i]) {
			f.Add(e, []byte{}, append(append([]byte{}, e...), make([]byte, 32)...))
		}
	}
	f.Add(make([]byte, 32), []byte{}, append(pk, ed.LEBytes(ed.L, 32)...))
	f.Fuzz(func(t *testing.T, pk, msg, sig []byte) {
		if len(pk) != 32 {
			return
		}
		c := sigCase{"fuzz", pk, msg, sig}
		if _, err := checkVerify(c); err != nil {
			h.Fail(t, "C01", "verify", c, err)
		}
	})
}

// FuzzGenVerify: the structured generator driven by Go's coverage-guided fuzzer (thorough tier).
func FuzzGenVerify(f *testing.F) {
	h.FuzzSub(f, h.Sub[sigCase]{Prop: "C01", Name: "verify", Gen: genVerify, Check: checkVerify})
}

// every message length 0..8400: honest crypto/ed25519 signatures (which ZIP-215 accepts) and the same
// signature for a message with one bit flipped (which it rejects: prime-order key and R)
func TestEveryMessageLength(t *testing.T) {
	type lenCase struct {
		N int `json:"n"`
	}
	h.RunEnum(t, h.Enum[lenCase]{
		Prop: "C01", Name: "every-message-length-0..8400",
		Rule: "complete enumeration of message lengths 0..8400 (pattern key and message): Verify accepts the crypto/ed25519 signature and rejects it for the message with one bit flipped (honest prime-order key and R, where ZIP-215 and RFC 8032 agree); non-trivial = length >= 64",
		Each: func(yield func(lenCase) bool) {
			for n := 0; n <= 8400; n++ {
				if !yield(lenCase{n}) {
					return
				}
			}
		},
		Check: func(c lenCase) (h.Info, error) {
			info := h.Info{Class: "len/enumerated", NT: c.N >= 64}
			seed := make([]byte, 32)
			for i := range seed {
				seed[i] = byte(c.N*3 + i*29)
			}
			msg := make([]byte, c.N)
			for i := range msg {
				msg[i] = byte(i*11 + c.N + i>>8)
			}
			std := stded.NewKeyFromSeed(seed)
			sig := stded.Sign(std, msg)
			if !ed25519.Verify(ed25519.PublicKey(std[32:]), msg, sig) {
				return info, fmt.Errorf("Verify rejects the crypto/ed25519 signature of a pattern message of %d bytes (seed %x)", c.N, seed)
			}
			if c.N > 0 {
				msg[c.N/2] ^= 0x10
				if ed25519.Verify(ed25519.PublicKey(std[32:]), msg, sig) {
					return info, fmt.Errorf("Verify accepts the signature of a %d-byte message for the message with one bit flipped (seed %x)", c.N, seed)
				}
			}
			return info, nil
		},
	})
}

// which public entry point is called first in a process (and by how many goroutines at once)
func TestFirstCalls(t *testing.T) { h.FirstCallsSub(t, "C01", fc.Ed25519(), 6) }
