// C07 — Ed25519 keys and signatures are byte-identical to RFC 8032 / crypto/ed25519.
package c07

import (
	"bytes"
	"crypto"
	stded "crypto/ed25519"
	cryptorand "crypto/rand"
	"crypto/sha512"
	"fmt"
	"io"
	"testing"
	"time"
	"testing/iotest"

	"github.com/wollac/iota-crypto-demo/pkg/ed25519"
	"pgregory.net/rapid"

	"verifharness/fc"
	"verifharness/h"
	"verifharness/ref/ed"
)

func TestMain(m *testing.M) {
	h.FirstCallsChild(fc.Ed25519()) // never returns in a first-call child process
	h.Main(m)
}

var reusedPriv [64]byte
var primerKey = stded.NewKeyFromSeed(bytes.Repeat([]byte{9}, 32))

type signCase struct {
	Seed h.B `json:"seed"`
	Msg  h.B `json:"msg"`
}

var lengthCorners = []int{0, 1, 31, 32, 47, 48, 63, 64, 65, 95, 96, 111, 112, 113, 127, 128, 129, 175, 176, 191, 192, 239, 240, 255, 256, 257, 300}

func regime(n int) string {
	if n >= 65535 {
		if n%65536 == 0 {
			return "len/multiple-of-64KiB"
		}
		return "len/huge"
	}
	// SHA-512 padding regimes of prefix(32)||msg and R(32)||A(32)||msg: the number of blocks changes at
	// 32+n = 112 mod 128 and 64+n = 112 mod 128
	a := (32 + n) % 128
	b := (64 + n) % 128
	switch {
	case n == 0:
		return "len/empty"
	case a >= 112 || b >= 112:
		return "len/extra-padding-block"
	case a == 111 || b == 111 || a == 0 || b == 0:
		return "len/block-boundary"
	case n > 128:
		return "len/multi-block"
	}
	return "len/short"
}

type shortReader struct {
	data []byte
}

func (r *shortReader) Read(p []byte) (int, error) {
	if len(r.data) == 0 {
		return 0, io.EOF
	}
	n := copy(p, r.data)
	if n > 7 {
		n = 7 // deliver in small pieces
	}
	r.data = r.data[n:]
	return n, nil
}

// zeroOpts is a caller-defined options type asking for plain (unhashed) signing.
type zeroOpts struct{}

func (zeroOpts) HashFunc() crypto.Hash { return crypto.Hash(0) }

// dataWithErrReader returns all it has together with a non-EOF error on the first call.
type dataWithErrReader struct {
	src  *bytes.Reader
	done bool
}

func (r *dataWithErrReader) Read(p []byte) (int, error) {
	if r.done {
		return 0, io.ErrClosedPipe
	}
	r.done = true
	n, _ := r.src.Read(p)
	return n, io.ErrNoProgress
}

// reentrantReader calls GenerateKey (with a reader of its own) from inside its first Read
type reentrantReader struct {
	src  *bytes.Reader
	used bool
}

func (r *reentrantReader) Read(p []byte) (int, error) {
	if !r.used {
		r.used = true
		if _, _, err := ed25519.GenerateKey(bytes.NewReader(bytes.Repeat([]byte{0x42}, 32))); err != nil {
			return 0, err
		}
	}
	return r.src.Read(p)
}

type failingReader struct{}

func (failingReader) Read([]byte) (int, error) { return 0, io.ErrUnexpectedEOF }

type badSig struct {
	kind         string
	pk, msg, sig []byte
}

// rejected derives from an honest (pk, msg, sig) one rejected triple per rejection reason of Verify.
func rejected(pk, msg, sig []byte) []badSig {
	cp := func(b []byte) []byte { return append([]byte{}, b...) }
	var out []badSig
	out = append(out, badSig{"length", cp(pk), cp(msg), cp(sig[:63])})
	sL := cp(sig)
	copy(sL[32:], ed.LEBytes(ed.L, 32)) // S = L: not canonical
	out = append(out, badSig{"non-canonical S", cp(pk), cp(msg), sL})
	for j := 1; j < 256; j++ { // R that is not a point encoding, S canonical
		r := cp(sig)
		r[0] ^= byte(j)
		if _, ok := ed.DecodeZIP215(r[:32]); !ok {
			out = append(out, badSig{"undecodable R", cp(pk), cp(msg), r})
			break
		}
	}
	for j := 1; j < 256; j++ {
		a := cp(pk)
		a[0] ^= byte(j)
		if _, ok := ed.DecodeZIP215(a); !ok {
			out = append(out, badSig{"undecodable A", a, cp(msg), cp(sig)})
			break
		}
	}
	out = append(out, badSig{"wrong message", cp(pk), append(cp(msg), 1), cp(sig)})
	return out
}

func checkSign(c signCase) (h.Info, error) {
	if len(c.Seed) != 32 {
		return h.Info{}, fmt.Errorf("PRECONDITION: seed length")
	}
	seed, msg := []byte(c.Seed), []byte(c.Msg)
	info := h.Info{Class: regime(len(msg)), NT: true}
	seedCopy, msgCopy := append([]byte{}, seed...), append([]byte{}, msg...)
	std := stded.NewKeyFromSeed(seed)
	priv := ed25519.NewKeyFromSeed(seed)
	if !bytes.Equal(priv, std) {
		return info, fmt.Errorf("NewKeyFromSeed(%x) = %x, crypto/ed25519 %x", seed, priv, std)
	}
	pub := priv.Public().(ed25519.PublicKey)
	if !bytes.Equal(pub, std.Public().(stded.PublicKey)) || !bytes.Equal(priv.Seed(), seed) {
		return info, fmt.Errorf("Public()/Seed() mismatch: %x / %x", pub, priv.Seed())
	}
	want := stded.Sign(std, msg)
	// a caller that keeps its private key in one buffer and overwrites it in place with the next key:
	// first and last signing call of every case
	copy(reusedPriv[:], primerKey) // self-contained sequence: a fixed other key first, then this case's key over it
	if s0 := ed25519.Sign(ed25519.PrivateKey(reusedPriv[:]), msg); !bytes.Equal(s0, stded.Sign(primerKey, msg)) {
		return info, fmt.Errorf("Sign with the fixed primer key differs from crypto/ed25519")
	}
	copy(reusedPriv[:], std)
	if s5 := ed25519.Sign(ed25519.PrivateKey(reusedPriv[:]), msg); !bytes.Equal(s5, want) {
		return info, fmt.Errorf("Sign(seed %x, msg %x) with a private-key buffer that was overwritten in place after holding the previous case's key = %x, crypto/ed25519 %x", seed, msg, s5, want)
	}
	defer ed25519.Sign(ed25519.PrivateKey(reusedPriv[:]), msg)
	sig := ed25519.Sign(priv, msg)
	if !bytes.Equal(sig, want) {
		return info, fmt.Errorf("Sign(seed %x, msg %x) = %x, crypto/ed25519 %x", seed, msg, sig, want)
	}
	if sig2 := ed25519.Sign(priv, msg); !bytes.Equal(sig2, sig) {
		return info, fmt.Errorf("signing twice gives different signatures")
	}
	if !ed25519.Verify(pub, msg, sig) {
		return info, fmt.Errorf("Verify rejects its own signature (seed %x, msg %x)", seed, msg)
	}
	if !stded.Verify(stded.PublicKey(pub), msg, sig) {
		return info, fmt.Errorf("crypto/ed25519 rejects the signature")
	}
	// crypto.Signer
	var signer crypto.Signer = priv
	s3, err := signer.Sign(nil, msg, crypto.Hash(0))
	if err != nil || !bytes.Equal(s3, sig) {
		return info, fmt.Errorf("PrivateKey.Sign(Hash(0)) = %x, %v", s3, err)
	}
	if !bytes.Equal(signer.Public().(ed25519.PublicKey), pub) {
		return info, fmt.Errorf("Signer.Public mismatch")
	}
	// like crypto/ed25519 the Signer ignores its random source: any reader (plentiful, empty, failing)
	// gives the deterministic RFC 8032 signature
	for ri, mk := range []func() io.Reader{
		func() io.Reader { return bytes.NewReader(bytes.Repeat([]byte{0x5a}, 256)) },
		func() io.Reader { return &shortReader{data: bytes.Repeat([]byte{1}, 64)} },
		func() io.Reader { return &shortReader{} },
		func() io.Reader { return failingReader{} },
	} {
		wantR, wantErr := std.Sign(mk(), msg, crypto.Hash(0))
		gotR, gotErr := signer.Sign(mk(), msg, crypto.Hash(0))
		if wantErr != nil {
			return info, fmt.Errorf("PRECONDITION: crypto/ed25519 Signer failed with reader %d: %v", ri, wantErr)
		}
		if gotErr != nil || !bytes.Equal(gotR, wantR) {
			return info, fmt.Errorf("PrivateKey.Sign(rand = reader #%d, msg %x, Hash(0)) with seed %x = %x, %v; crypto/ed25519 with the same arguments gives %x", ri, msg, seed, gotR, gotErr, wantR)
		}
	}
	// rejected verifications of every kind in between must not disturb later signing / verifying
	for _, bad := range rejected(pub, msg, want) {
		if ed25519.Verify(ed25519.PublicKey(bad.pk), bad.msg, bad.sig) {
			return info, fmt.Errorf("Verify accepts the %s variant of an honest signature (pk %x msg %x sig %x)", bad.kind, bad.pk, bad.msg, bad.sig)
		}
		if s6 := ed25519.Sign(priv, msg); !bytes.Equal(s6, want) {
			return info, fmt.Errorf("after a Verify call rejected for %s (pk %x, msg %x, sig %x), Sign(seed %x, msg %x) = %x, crypto/ed25519 %x", bad.kind, bad.pk, bad.msg, bad.sig, seed, msg, s6, want)
		}
		if !ed25519.Verify(pub, msg, want) {
			return info, fmt.Errorf("after a Verify call rejected for %s (pk %x, msg %x, sig %x), Verify rejects the honest signature of seed %x msg %x", bad.kind, bad.pk, bad.msg, bad.sig, seed, msg)
		}
	}
	// any options value whose HashFunc() is zero asks for plain Ed25519, whatever its dynamic type
	for oi, opts := range []crypto.SignerOpts{zeroOpts{}, &zeroOpts{}, &stded.Options{}, &stded.Options{Hash: crypto.Hash(0)}} {
		wantO, errO := std.Sign(nil, msg, opts)
		if errO != nil {
			return info, fmt.Errorf("PRECONDITION: crypto/ed25519 refuses options #%d: %v", oi, errO)
		}
		gotO, err := signer.Sign(nil, msg, opts)
		if err != nil || !bytes.Equal(gotO, wantO) {
			return info, fmt.Errorf("PrivateKey.Sign(nil, msg %x, options #%d of type %T with HashFunc() = 0) with seed %x = %x, %v; crypto/ed25519 with the same arguments gives %x", msg, oi, opts, seed, gotO, err, wantO)
		}
	}
	for _, hf := range []crypto.Hash{crypto.SHA512, crypto.SHA256, crypto.SHA1} {
		digest := sha512.Sum512(msg)
		if s4, err := signer.Sign(nil, digest[:], hf); err == nil { // what accompanies the error is not specified
			return info, fmt.Errorf("PrivateKey.Sign with pre-hash option %v must fail, got %x, %v", hf, s4, err)
		}
	}
	// GenerateKey with a deterministic reader
	rd := &shortReader{data: append(append([]byte{}, seed...), 0xaa, 0xbb)}
	gpub, gpriv, err := ed25519.GenerateKey(rd)
	if err != nil || !bytes.Equal(gpriv, priv) || !bytes.Equal(gpub, pub) {
		return info, fmt.Errorf("GenerateKey(reader of seed) = %x, %x, %v", gpub, gpriv, err)
	}
	if len(rd.data) != 2 {
		return info, fmt.Errorf("GenerateKey consumed %d bytes, want 32", 34-len(rd.data))
	}
	// readers that deliver data together with an error, in halves, byte by byte: same outcome as
	// crypto/ed25519 with an identical reader, and the same number of bytes consumed
	stream := append(append([]byte{}, seed...), bytes.Repeat([]byte{0x77}, 40)...)
	for ri, mk := range []func(src *bytes.Reader) io.Reader{
		func(src *bytes.Reader) io.Reader { return iotest.DataErrReader(src) },
		func(src *bytes.Reader) io.Reader { return iotest.DataErrReader(iotest.HalfReader(src)) },
		func(src *bytes.Reader) io.Reader { return iotest.OneByteReader(src) },
		func(src *bytes.Reader) io.Reader { return &dataWithErrReader{src: src} },
		func(src *bytes.Reader) io.Reader { return io.LimitReader(src, 32) },
		func(src *bytes.Reader) io.Reader { return iotest.DataErrReader(io.LimitReader(src, 32)) },
	} {
		s1, s2 := bytes.NewReader(stream), bytes.NewReader(stream)
		wpub, wpriv, werr := stded.GenerateKey(mk(s1))
		gpub2, gpriv2, gerr := ed25519.GenerateKey(mk(s2))
		if (werr == nil) != (gerr == nil) || (werr == nil && (!bytes.Equal(gpriv2, wpriv) || !bytes.Equal(gpub2, wpub))) {
			return info, fmt.Errorf("GenerateKey(reader kind #%d over seed %x) = %x, %x, %v; crypto/ed25519 with an identical reader: %x, %x, %v", ri, seed, gpub2, gpriv2, gerr, wpub, wpriv, werr)
		}
		if s1.Len() != s2.Len() {
			return info, fmt.Errorf("GenerateKey(reader kind #%d) left %d bytes in the stream, crypto/ed25519 leaves %d", ri, s2.Len(), s1.Len())
		}
	}
	// a reader whose Read itself needs a key (an entropy source that derives its bytes from another key):
	// GenerateKey is re-entered from inside the caller's Read
	{
		type res struct {
			pub  ed25519.PublicKey
			priv ed25519.PrivateKey
			err  error
		}
		ch := make(chan res, 1)
		go func() {
			pub, priv, err := ed25519.GenerateKey(&reentrantReader{src: bytes.NewReader(stream)})
			ch <- res{pub, priv, err}
		}()
		select {
		case r := <-ch:
			if r.err != nil || !bytes.Equal(r.priv, priv) || !bytes.Equal(r.pub, pub) {
				return info, fmt.Errorf("GenerateKey(reader over seed %x whose Read calls GenerateKey itself) = %x, %x, %v; want the key of the seed", seed, []byte(r.pub), []byte(r.priv), r.err)
			}
		case <-time.After(60 * time.Second):
			h.FailAndExit("C07", "sign-vs-stdlib", c, fmt.Errorf("GenerateKey did not return within 60 s for a reader whose Read calls GenerateKey itself (seed %x): no key is produced, crypto/ed25519 returns the key of the seed", seed))
		}
	}
	// one reader object asked for several keys: a stream that repeats the same 32 bytes (a deterministic
	// key derivation source, a test fixture) gives the same key every time, a stream of different blocks the
	// keys of the successive blocks; crypto/ed25519 with an identical reader is the reference
	for ri, blocks := range [][]byte{
		bytes.Repeat(seed, 3),
		append(append(append([]byte{}, seed...), bytes.Repeat([]byte{0xff}, 32)...), seed...),
		append(bytes.Repeat([]byte{0xff}, 32), seed...),
		append(make([]byte, 32), seed...),
	} {
		s1, s2 := bytes.NewReader(blocks), bytes.NewReader(blocks)
		for call := 0; call < len(blocks)/32; call++ {
			wpub, wpriv, werr := stded.GenerateKey(s1)
			gpub3, gpriv3, gerr := ed25519.GenerateKey(s2)
			if werr != nil {
				return info, fmt.Errorf("PRECONDITION: crypto/ed25519.GenerateKey failed on a plentiful reader: %v", werr)
			}
			if gerr != nil || !bytes.Equal(gpriv3, wpriv) || !bytes.Equal(gpub3, wpub) || s1.Len() != s2.Len() {
				return info, fmt.Errorf("GenerateKey call %d on one reader object delivering the blocks %x (stream kind %d) = %x, %x, %v (%d bytes left); crypto/ed25519 with an identical reader: %x, %x (%d bytes left)", call, blocks, ri, gpub3, gpriv3, gerr, s2.Len(), wpub, wpriv, s1.Len())
			}
			// the returned keys are the caller's: overwriting the public key must not reach the private key
			for i := range gpub3 {
				gpub3[i] ^= 0xa5
			}
			if !bytes.Equal(gpriv3, wpriv) {
				return info, fmt.Errorf("overwriting the public key returned by GenerateKey changed the private key returned next to it: %x, crypto/ed25519 %x", gpriv3, wpriv)
			}
			if len(msg) > 4096 {
				continue
			}
			if sg := ed25519.Sign(gpriv3, msg); !bytes.Equal(sg, stded.Sign(wpriv, msg)) {
				return info, fmt.Errorf("Sign with the private key from GenerateKey after the returned public key slice was overwritten by the caller = %x, crypto/ed25519 %x", sg, stded.Sign(wpriv, msg))
			}
		}
	}
	if _, _, err := ed25519.GenerateKey(&shortReader{data: seed[:31]}); err == nil {
		return info, fmt.Errorf("GenerateKey with a 31-byte reader must fail")
	}
	if !priv.Equal(gpriv) || !pub.Equal(gpub) || pub.Equal(priv) {
		return info, fmt.Errorf("Equal methods inconsistent")
	}
	if !bytes.Equal(seed, seedCopy) || !bytes.Equal(msg, msgCopy) {
		return info, fmt.Errorf("inputs modified")
	}
	// the values handed out are copies: scribbling over them must not change the key or later signatures
	p2 := priv.Public().(ed25519.PublicKey)
	s2 := priv.Seed()
	for i := range p2 {
		p2[i] ^= 0xff
	}
	for i := range s2 {
		s2[i] ^= 0xff
	}
	for i := range sig {
		sig[i] = 0
	}
	if !bytes.Equal(priv, std) {
		return info, fmt.Errorf("writing into the slices returned by Public()/Seed() changed the private key: %x, want %x", []byte(priv), []byte(std))
	}
	if again := ed25519.Sign(priv, msg); !bytes.Equal(again, want) {
		return info, fmt.Errorf("after writing into the slices returned by Public()/Seed() the same key and message sign to %x, crypto/ed25519 %x", again, want)
	}
	// NewKeyFromSeed must not retain the caller's seed slice
	seedBuf := append([]byte{}, seed...)
	k2 := ed25519.NewKeyFromSeed(seedBuf)
	for i := range seedBuf {
		seedBuf[i] = 0xee
	}
	if !bytes.Equal(k2, std) || !bytes.Equal(ed25519.Sign(k2, msg), want) {
		return info, fmt.Errorf("NewKeyFromSeed retained the caller's seed slice")
	}
	if err := spareCapacity(seed, msg, std, want); err != nil {
		return info, err
	}
	if len(msg) == 0 {
		if err := emptySpellings(priv, pub, want); err != nil {
			return info, err
		}
	}
	if err := defaultSource(seed, std); err != nil {
		return info, err
	}
	return info, nil
}

// spareCapacity hands every argument over as the front part of a larger buffer whose remaining bytes
// belong to the caller (seeds packed back to back, I_L||I_R, a message inside a frame): nothing behind
// the argument may change, and what comes back must not live in that memory.
func spareCapacity(seed, msg, std, want []byte) error {
	tail := bytes.Repeat([]byte{0xc3}, 96)
	pack := func(b []byte) []byte { return append(append(make([]byte, 0, len(b)+len(tail)), b...), tail...) }
	intact := func(buf []byte, n int) bool { return bytes.Equal(buf[n:], tail) }

	sb := pack(seed)
	k := ed25519.NewKeyFromSeed(sb[:32])
	if !intact(sb, 32) {
		return fmt.Errorf("NewKeyFromSeed(seed %x passed as the first 32 bytes of a larger buffer) wrote behind the seed: the caller's following bytes are now %x", seed, sb[32:])
	}
	if !bytes.Equal(k, std) {
		return fmt.Errorf("NewKeyFromSeed(seed %x passed as the first 32 bytes of a larger buffer) = %x, crypto/ed25519 %x", seed, []byte(k), std)
	}
	for i := range sb {
		sb[i] = 0x3c
	}
	if !bytes.Equal(k, std) {
		return fmt.Errorf("the key returned by NewKeyFromSeed(seed %x) lives in the caller's buffer: overwriting that buffer changed it to %x", seed, []byte(k))
	}
	pb, mb := pack(std), pack(msg)
	sig := ed25519.Sign(ed25519.PrivateKey(pb[:64]), mb[:len(msg)])
	if !intact(pb, 64) || !intact(mb, len(msg)) || !bytes.Equal(pb[:64], std) || !bytes.Equal(mb[:len(msg)], msg) {
		return fmt.Errorf("Sign(seed %x, msg %x) with key and message passed as front parts of larger buffers modified the caller's memory", seed, msg)
	}
	if !bytes.Equal(sig, want) {
		return fmt.Errorf("Sign(seed %x, msg %x) with key and message passed as front parts of larger buffers = %x, crypto/ed25519 %x", seed, msg, sig, want)
	}
	pub := ed25519.PrivateKey(pb[:64]).Public().(ed25519.PublicKey)
	sd := ed25519.PrivateKey(pb[:64]).Seed()
	for i := range pb {
		pb[i] = 0x3c
	}
	for i := range mb {
		mb[i] = 0x3c
	}
	if !bytes.Equal(sig, want) || !bytes.Equal(pub, std[32:]) || !bytes.Equal(sd, seed) {
		return fmt.Errorf("signature / Public() / Seed() of seed %x live in the caller's key or message buffer: overwriting it changed them", seed)
	}
	kb, gb, vb := pack(std[32:]), pack(want), pack(msg)
	ok := ed25519.Verify(ed25519.PublicKey(kb[:32]), vb[:len(msg)], gb[:64])
	if !ok || !intact(kb, 32) || !intact(gb, 64) || !intact(vb, len(msg)) {
		return fmt.Errorf("Verify(seed %x, msg %x) with arguments passed as front parts of larger buffers: verdict %v, caller memory intact: key %v sig %v msg %v", seed, msg, ok, intact(kb, 32), intact(gb, 64), intact(vb, len(msg)))
	}
	return nil
}

// emptySpellings: the empty message is the same message whether the caller spells it nil, []byte{} or a
// zero-length slice of something else.
func emptySpellings(priv ed25519.PrivateKey, pub ed25519.PublicKey, want []byte) error {
	backing := []byte{1, 2, 3}
	for si, m := range [][]byte{nil, {}, backing[:0], backing[3:]} {
		if s := ed25519.Sign(priv, m); !bytes.Equal(s, want) {
			return fmt.Errorf("Sign(empty message, spelling #%d) = %x, crypto/ed25519 %x", si, s, want)
		}
		for oi, opts := range []crypto.SignerOpts{crypto.Hash(0), &stded.Options{}} {
			s, err := priv.Sign(nil, m, opts)
			if err != nil || !bytes.Equal(s, want) {
				return fmt.Errorf("PrivateKey.Sign(nil, empty message spelled #%d (nil, []byte{}, b[:0], b[len:]), options #%d) = %x, %v; crypto/ed25519 gives %x", si, oi, s, err, want)
			}
		}
		if !ed25519.Verify(pub, m, want) {
			return fmt.Errorf("Verify rejects the signature of the empty message when it is spelled #%d (nil, []byte{}, b[:0], b[len:])", si)
		}
	}
	return nil
}

// defaultSource: GenerateKey(nil) reads crypto/rand.Reader as it is at the time of the call, like
// crypto/ed25519; a program (or test) that installed its own Reader gets keys from it.
func defaultSource(seed, std []byte) error {
	stream := append(append([]byte{}, seed...), bytes.Repeat([]byte{0x42}, 64)...)
	old := cryptorand.Reader
	defer func() { cryptorand.Reader = old }()
	s1 := bytes.NewReader(stream)
	cryptorand.Reader = s1
	_, wpriv, werr := stded.GenerateKey(nil)
	s2 := bytes.NewReader(stream)
	cryptorand.Reader = s2
	gpub, gpriv, gerr := ed25519.GenerateKey(nil)
	cryptorand.Reader = old
	if werr != nil || !bytes.Equal(wpriv, std) {
		return nil // this toolchain's crypto/ed25519 does not draw the seed from a replaced Reader: nothing to compare with
	}
	if gerr != nil || !bytes.Equal(gpriv, std) || !bytes.Equal(gpub, std[32:]) {
		return fmt.Errorf("GenerateKey(nil) while crypto/rand.Reader delivers %x: got %x, %x, %v; crypto/ed25519.GenerateKey(nil) gives the key of that seed (%x)", seed, []byte(gpub), []byte(gpriv), gerr, std)
	}
	if s1.Len() != s2.Len() {
		return fmt.Errorf("GenerateKey(nil) consumed %d bytes of crypto/rand.Reader, crypto/ed25519 consumes %d", len(stream)-s2.Len(), len(stream)-s1.Len())
	}
	return nil
}

func genSign(t *rapid.T) signCase {
	var seed h.B
	switch h.Pick(t, "sk", 8, 1, 1) {
	case 0:
		seed = h.BytesN(t, "seed", 32)
	case 1:
		seed = make(h.B, 32)
	default:
		seed = bytes.Repeat([]byte{0xff}, 32)
	}
	var n int
	if h.Pick(t, "huge", 40, 1) == 1 { // around and at multiples of 64 KiB (chunked hashing)
		n = h.OneOf(t, "hl", 65535, 65536, 65537, 100000, 131071, 131072, 131073, 196608, 262144)
		fill := rapid.Byte().Draw(t, "hfill")
		m := make(h.B, n)
		for i := range m {
			m[i] = fill + byte(i*31+i>>8)
		}
		return signCase{Seed: seed, Msg: m}
	}
	switch h.Pick(t, "lk", 4, 4, 1) {
	case 0:
		n = h.OneOf(t, "corner", lengthCorners...)
	case 1:
		n = rapid.IntRange(0, 300).Draw(t, "n")
	default:
		n = rapid.IntRange(301, 2000).Draw(t, "nlong")
	}
	msg := h.BytesN(t, "msg", n)
	if h.Pick(t, "magic", 11, 1) == 1 { // messages that begin with a domain-separation string of a neighbouring scheme
		pre := h.OneOf(t, "magicpre", magicPrefixes...)
		msg = append([]byte(pre), msg...)
	}
	return signCase{Seed: seed, Msg: msg}
}

// strings that other signature schemes and protocols put in front of what they hash
var magicPrefixes = []string{"SigEd25519 no Ed25519 collisions", "SigEd25519 no Ed25519 collisions\x00\x00", "SigEd25519 no Ed25519 collisions\x01\x00", "SigEd448", "\x19Ethereum Signed Message:\n32", "Bitcoin Signed Message:\n", "ECVRF", "\x03\x01", "\x03\x02", "ed25519 seed", "mnemonic"}

func TestSign(t *testing.T) {
	h.Run(t, h.Sub[signCase]{
		Prop: "C07", Name: "sign-vs-stdlib", N: 6000,
		Gen: genSign, Check: checkSign,
		Require: []string{"len/empty", "len/extra-padding-block", "len/block-boundary", "len/multi-block", "len/short", "len/multiple-of-64KiB", "len/huge"},
		Rule:    "32-byte seeds (random, zero, ones) x messages of length 0..2000 weighted to SHA-512 block/padding boundaries (one in forty around multiples of 64 KiB up to 256 KiB): key, public key, signature, crypto.Signer output byte-identical to crypto/ed25519; deterministic; Verify accepts; pre-hash options refused; GenerateKey(reader) = NewKeyFromSeed; all non-trivial; distinct by (seed, msg)",
	})
}

// ---- concurrent callers with different keys ----

type concCase struct {
	Cases []signCase `json:"cases"`
	Iters int        `json:"iters"`
}

func checkConcurrent(c concCase) (h.Info, error) {
	info := h.Info{Class: fmt.Sprintf("goroutines=%d", len(c.Cases)), NT: len(c.Cases) > 1}
	type exp struct {
		priv stded.PrivateKey
		sig  []byte
	}
	want := make([]exp, len(c.Cases))
	for i, sc := range c.Cases {
		if len(sc.Seed) != 32 {
			return info, fmt.Errorf("PRECONDITION: seed length")
		}
		k := stded.NewKeyFromSeed(sc.Seed)
		want[i] = exp{k, stded.Sign(k, sc.Msg)}
	}
	err := h.Parallel(len(c.Cases), func(g int) error {
		sc, w := c.Cases[g], want[g]
		for it := 0; it < c.Iters; it++ {
			priv := ed25519.NewKeyFromSeed(sc.Seed)
			if !bytes.Equal(priv, w.priv) {
				return fmt.Errorf("goroutine %d: NewKeyFromSeed(%x) = %x, crypto/ed25519 %x", g, []byte(sc.Seed), []byte(priv), []byte(w.priv))
			}
			if sig := ed25519.Sign(priv, sc.Msg); !bytes.Equal(sig, w.sig) {
				return fmt.Errorf("goroutine %d (of %d, each with its own key), iteration %d: Sign(seed %x, msg %x) = %x, crypto/ed25519 %x", g, len(c.Cases), it, []byte(sc.Seed), []byte(sc.Msg), sig, w.sig)
			}
			if !ed25519.Verify(priv.Public().(ed25519.PublicKey), sc.Msg, w.sig) {
				return fmt.Errorf("goroutine %d (of %d, each with its own key), iteration %d: Verify rejects the honest signature of seed %x msg %x", g, len(c.Cases), it, []byte(sc.Seed), []byte(sc.Msg))
			}
		}
		return nil
	})
	return info, err
}

func TestConcurrent(t *testing.T) {
	h.Run(t, h.Sub[concCase]{
		Prop: "C07", Name: "concurrent-callers", N: 60,
		Gen: func(t *rapid.T) concCase {
			c := concCase{Iters: 40}
			n := h.OneOf(t, "g", 2, 4, 8, 16)
			for i := 0; i < n; i++ {
				sc := genSign(t)
				if len(sc.Msg) > 300 {
					sc.Msg = sc.Msg[:300]
				}
				c.Cases = append(c.Cases, sc)
			}
			return c
		},
		Check:   checkConcurrent,
		Require: []string{"goroutines=2", "goroutines=8"},
		Rule:    "schedules: 2..16 goroutines released together, each deriving its own key and signing/verifying its own message 40 times; every key and signature must equal crypto/ed25519's (computed beforehand); all non-trivial",
	})
}

// every message length 0..300 once (complete over lengths)
func TestEveryLength(t *testing.T) {
	h.RunEnum(t, h.Enum[signCase]{
		Prop: "C07", Name: "every-length-0..300",
		Rule: "complete enumeration of message lengths 0..300 (all SHA-512 padding regimes for the 32- and 64-byte prefixes) with a fixed pattern seed/message",
		Each: func(yield func(signCase) bool) {
			for n := 0; n <= 300; n++ {
				seed := make([]byte, 32)
				for i := range seed {
					seed[i] = byte(n + i*13)
				}
				msg := make([]byte, n)
				for i := range msg {
					msg[i] = byte(i*7 + n)
				}
				if !yield(signCase{seed, msg}) {
					return
				}
			}
		},
		Check: checkSign,
	})
}

// every message length 301..8400 with the three cheap assertions (the full case of checkSign costs too much
// for 8000 lengths): a buffer of any fixed size between the key material and the message is exactly full for
// one of these lengths
func TestEveryLongerLength(t *testing.T) {
	type lenCase struct {
		N int `json:"n"`
	}
	h.RunEnum(t, h.Enum[lenCase]{
		Prop: "C07", Name: "sign-verify-every-length-301..8400",
		Rule: "complete enumeration of message lengths 301..8400 (pattern seed and message): Sign = crypto/ed25519.Sign byte for byte, Verify accepts that signature, Verify rejects it for the message with one bit flipped; all non-trivial",
		Each: func(yield func(lenCase) bool) {
			for n := 301; n <= 8400; n++ {
				if !yield(lenCase{n}) {
					return
				}
			}
		},
		Check: func(c lenCase) (h.Info, error) {
			info := h.Info{Class: "len/enumerated", NT: true}
			seed := make([]byte, 32)
			for i := range seed {
				seed[i] = byte(c.N + i*13)
			}
			msg := make([]byte, c.N)
			for i := range msg {
				msg[i] = byte(i*7 + c.N + i>>8)
			}
			std := stded.NewKeyFromSeed(seed)
			want := stded.Sign(std, msg)
			priv := ed25519.NewKeyFromSeed(seed)
			if got := ed25519.Sign(priv, msg); !bytes.Equal(got, want) {
				return info, fmt.Errorf("Sign(seed %x, pattern message of %d bytes) = %x, crypto/ed25519 %x", seed, c.N, got, want)
			}
			if !ed25519.Verify(ed25519.PublicKey(std[32:]), msg, want) {
				return info, fmt.Errorf("Verify rejects the crypto/ed25519 signature of a pattern message of %d bytes (seed %x)", c.N, seed)
			}
			msg[c.N/2] ^= 4
			if ed25519.Verify(ed25519.PublicKey(std[32:]), msg, want) {
				return info, fmt.Errorf("Verify accepts the signature of a %d-byte message for the message with one bit flipped (seed %x)", c.N, seed)
			}
			return info, nil
		},
	})
}

// coverage-guided fuzzing over the structured generator (thorough tier)
func FuzzGenSign(f *testing.F) {
	h.FuzzSub(f, h.Sub[signCase]{Prop: "C07", Name: "sign-vs-stdlib", Gen: genSign, Check: checkSign})
}

// which public entry point is called first in a process (and by how many goroutines at once)
func TestFirstCalls(t *testing.T) { h.FirstCallsSub(t, "C07", fc.Ed25519(), 6) }
