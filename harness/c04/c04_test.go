// C04 — Bech32 Decode accepts exactly the valid strings and never panics.
package c04

import (
	"bytes"
	"errors"
	"fmt"
	"testing"

	"github.com/wollac/iota-crypto-demo/pkg/bech32"
	"pgregory.net/rapid"

	"verifharness/bgen"
	"verifharness/h"
	ref "verifharness/ref/bech32"
)

func TestMain(m *testing.M) {
	if err := ref.SelfCheck(); err != nil {
		fmt.Println("VERIF-INFRA reference self-check failed:", err)
		panic(err)
	}
	h.Main(m)
}

type strCase struct {
	S h.S `json:"s"`
}

func nonASCII(s string) bool {
	for i := 0; i < len(s); i++ {
		if s[i] >= 0x80 {
			return true
		}
	}
	return false
}

func checkDecode(c strCase) (h.Info, error) {
	s := string(c.S)
	r := ref.Decode(s)
	info := h.Info{}
	switch {
	case r.OK:
		info = h.Info{Class: fmt.Sprintf("accept/residue%d", len(r.Syms)%8), NT: true}
	case nonASCII(s):
		info = h.Info{Class: "reject/non-ascii", NT: true}
	case r.Stage == "checksum" || r.Stage == "padding":
		info = h.Info{Class: "reject/" + r.Stage, NT: true}
	default:
		info = h.Info{Class: "reject/" + r.Stage}
	}
	hrp, data, err := bech32.Decode(s)
	if r.OK != (err == nil) {
		return info, fmt.Errorf("Decode(%q): reference verdict ok=%v (stage %q) but Decode returned hrp=%q data=%x err=%v", s, r.OK, r.Stage, hrp, data, err)
	}
	if !r.OK {
		var se *bech32.SyntaxError
		if errors.As(err, &se) {
			if se.Offset < 0 || se.Offset > len(s) {
				return info, fmt.Errorf("Decode(%q): SyntaxError offset %d outside the input (len %d): %v", s, se.Offset, len(s), err)
			}
		}
		return info, nil
	}
	if hrp != r.HRP || !bytes.Equal(data, r.Data) {
		return info, fmt.Errorf("Decode(%q) = (%q, %x), reference (%q, %x)", s, hrp, data, r.HRP, r.Data)
	}
	// no state between calls: overwrite the returned bytes and decode the same string again
	for i := range data {
		data[i] ^= 0xff
	}
	if hrp2, data2, err2 := bech32.Decode(s); err2 != nil || hrp2 != r.HRP || !bytes.Equal(data2, r.Data) {
		return info, fmt.Errorf("second Decode(%q) = (%q, %x, %v) after the first result was overwritten; want (%q, %x)", s, hrp2, data2, err2, r.HRP, r.Data)
	}
	data = r.Data
	re, err := bech32.Encode(hrp, data)
	if err != nil || re != ref.AsciiLower(s) {
		return info, fmt.Errorf("Decode(%q) accepted but Encode(%q,%x) = %q,%v (want the lower-cased input)", s, hrp, data, re, err)
	}
	return info, nil
}

func genDecode(t *rapid.T) strCase {
	var s string
	switch h.Pick(t, "kind", 6, 6, 1) {
	case 0:
		s, _, _ = bgen.Valid(t, true, h.Pick(t, "over", 9, 1) == 1)
	case 1:
		s, _, _ = bgen.Valid(t, false, h.Pick(t, "over", 9, 1) == 1)
	default:
		return strCase{S: h.S(rapid.SliceOfN(rapid.Byte(), 0, 100).Draw(t, "raw"))}
	}
	switch h.Pick(t, "case", 6, 3, 2) {
	case 1:
		s = bgen.Upper(s)
	case 2:
		if rapid.Bool().Draw(t, "up") {
			s = bgen.Upper(s)
		}
		s = bgen.FlipCase(t, s)
	}
	ne := h.Pick(t, "nedits", 5, 5, 2, 1)
	for i := 0; i < ne; i++ {
		s = bgen.Edit(t, s)
	}
	return strCase{S: h.S(s)}
}

func TestDecode(t *testing.T) {
	req := []string{"reject/checksum", "reject/padding", "reject/non-ascii", "reject/case", "reject/length", "reject/charset", "reject/separator", "reject/short", "reject/charrange"}
	for i := 0; i < 8; i++ {
		if i != 1 && i != 3 && i != 6 { // symbol counts 1,3,6 mod 8 cannot be whole bytes
			req = append(req, fmt.Sprintf("accept/residue%d", i))
		}
	}
	h.Run(t, h.Sub[strCase]{
		Prop: "C04", Name: "decode", N: 150000,
		Gen: genDecode, Check: checkDecode, Require: req,
		Rule: "reference-encoded strings over arbitrary 5-bit symbols (every padding pattern), case variants, 0-3 edits with hostile replacement bytes, random bytes; non-trivial = accepted by the reference, or rejected at the checksum/padding stage, or containing a non-ASCII byte; distinct by string",
	})
}

// All symbol counts 0..84 with a correct checksum, for every value of the padding bits:
// enumerates (count, last symbol) completely for a fixed filler.
type padCase struct {
	HRP  string `json:"hrp"`
	N    int    `json:"n"`
	Last int    `json:"last"`
	Fill int    `json:"fill"`
}

func TestPaddingEnum(t *testing.T) {
	h.RunEnum(t, h.Enum[padCase]{
		Prop: "C04", Name: "padding-enum",
		Rule: "complete enumeration: symbol counts 0..83 x all 32 values of the last symbol x 3 fillers x 2 HRPs, checksum always correct; every case non-trivial (padding/length residue decides)",
		Each: func(yield func(padCase) bool) {
			for _, hrp := range []string{"a", "iota"} {
				for n := 0; n <= 90-len(hrp)-7; n++ {
					for last := 0; last < 32; last++ {
						for _, fill := range []int{0, 31, 21} {
							if !yield(padCase{hrp, n, last, fill}) {
								return
							}
						}
					}
				}
			}
		},
		Check: func(c padCase) (h.Info, error) {
			syms := make([]byte, c.N)
			for i := range syms {
				syms[i] = byte(c.Fill)
			}
			if c.N > 0 {
				syms[c.N-1] = byte(c.Last)
			}
			s := ref.EncodeSymbols(c.HRP, syms)
			info, err := checkDecode(strCase{S: h.S(s)})
			info.NT = true
			if err != nil {
				return info, err
			}
			info2, err := checkDecode(strCase{S: h.S(ref.AsciiUpper(s))})
			if info2.Class != info.Class {
				return info, fmt.Errorf("upper-case spelling of %q classified %s, lower-case %s", s, info2.Class, info.Class)
			}
			return info, err
		},
		Require: []string{"reject/padding", "accept/residue0", "accept/residue7"},
	})
}

func FuzzDecode(f *testing.F) {
	for _, s := range []string{"A12UEL5L", "a12uel5l", "abcdef1qpzry9x8gf2tvdw0s3jn54khce6mua7lmqqqxw", "?1ezyfcl", "iota1qrhacyfwlcnzkvzteumekfkrrwks98mpdm37cj4xx3drvmjvnep6xqgyzyx",
		"A1QCQSYQCUY8KZT", "a1K", "İ1qqqqqq", "a1qqqqqqq\xff", "1qqqqqq", "a1", "", "an83characterlonghumanreadablepartthatcontainsthenumber1andtheexcludedcharactersbio1tt5tgs"} {
		f.Add(s)
	}
	f.Fuzz(func(t *testing.T, s string) {
		c := strCase{S: h.S(s)}
		if _, err := checkDecode(c); err != nil {
			h.Fail(t, "C04", "decode", c, err)
		}
	})
}

// FuzzGenDecode: the structured generator driven by Go's coverage-guided fuzzer (thorough tier).
func FuzzGenDecode(f *testing.F) {
	h.FuzzSub(f, h.Sub[strCase]{Prop: "C04", Name: "decode", Gen: genDecode, Check: checkDecode})
}
