// C04 — Bech32 Decode accepts exactly the valid strings and never panics.
package c04

import (
	"bytes"
	"errors"
	"fmt"
	"testing"

	"github.com/wollac/iota-crypto-demo/pkg/bech32"
	"pgregory.net/rapid"

	"verifharness/bgen"
	"verifharness/fc"
	"verifharness/h"
	ref "verifharness/ref/bech32"
)

func TestMain(m *testing.M) {
	h.FirstCallsChild(fc.Bech32()) // never returns in a first-call child process
	if err := ref.SelfCheck(); err != nil {
		fmt.Println("VERIF-INFRA reference self-check failed:", err)
		panic(err)
	}
	h.Main(m)
}

type strCase struct {
	S h.S `json:"s"`
}

func nonASCII(s string) bool {
	for i := 0; i < len(s); i++ {
		if s[i] >= 0x80 {
			return true
		}
	}
	return false
}

func checkDecode(c strCase) (h.Info, error) {
	s := string(c.S)
	r := ref.Decode(s)
	info := h.Info{}
	switch {
	case r.OK:
		info = h.Info{Class: fmt.Sprintf("accept/residue%d", len(r.Syms)%8), NT: true}
	case nonASCII(s):
		info = h.Info{Class: "reject/non-ascii", NT: true}
	case r.Stage == "checksum" || r.Stage == "padding":
		info = h.Info{Class: "reject/" + r.Stage, NT: true}
	default:
		info = h.Info{Class: "reject/" + r.Stage}
	}
	hrp, data, err := bech32.Decode(s)
	if r.OK != (err == nil) {
		return info, fmt.Errorf("Decode(%q): reference verdict ok=%v (stage %q) but Decode returned hrp=%q data=%x err=%v", s, r.OK, r.Stage, hrp, data, err)
	}
	if !r.OK {
		var se *bech32.SyntaxError
		if errors.As(err, &se) {
			if se.Offset < 0 || se.Offset > len(s) {
				return info, fmt.Errorf("Decode(%q): SyntaxError offset %d outside the input (len %d): %v", s, se.Offset, len(s), err)
			}
			// the error value belongs to this call: inspected again after other strings were decoded
			// it still carries the same position and text
			off, msg := se.Offset, err.Error()
			for _, o := range afterwards {
				_, _, _ = bech32.Decode(o)
			}
			if se.Offset != off || err.Error() != msg || se.Offset > len(s) {
				return info, fmt.Errorf("Decode(%q) returned %q (position %d); after %d further Decode calls on other strings the same error value reads %q (position %d, input length %d)", s, msg, off, len(afterwards), err.Error(), se.Offset, len(s))
			}
		}
		return info, nil
	}
	if hrp != r.HRP || !bytes.Equal(data, r.Data) {
		return info, fmt.Errorf("Decode(%q) = (%q, %x), reference (%q, %x)", s, hrp, data, r.HRP, r.Data)
	}
	// no state between calls: overwrite the returned bytes and decode the same string again
	for i := range data {
		data[i] ^= 0xff
	}
	if hrp2, data2, err2 := bech32.Decode(s); err2 != nil || hrp2 != r.HRP || !bytes.Equal(data2, r.Data) {
		return info, fmt.Errorf("second Decode(%q) = (%q, %x, %v) after the first result was overwritten; want (%q, %x)", s, hrp2, data2, err2, r.HRP, r.Data)
	}
	data = r.Data
	re, err := bech32.Encode(hrp, data)
	if err != nil || re != ref.AsciiLower(s) {
		return info, fmt.Errorf("Decode(%q) accepted but Encode(%q,%x) = %q,%v (want the lower-cased input)", s, hrp, data, re, err)
	}
	return info, nil
}

// afterwards: fixed invalid strings, one or two per rejection rule, short and long, decoded between
// obtaining an error and inspecting it again.
var afterwards = []string{
	"a12uel5q", // checksum, short
	"an83characterlonghumanreadablepartthatcontainsthenumber1andtheexcludedcharactersbio1tt5tgq",  // checksum, long
	"an84characterslonghumanreadablepartthatcontainsthenumber1andtheexcludedcharactersbio1569pvx", // too long
	"pzry9x0s0muk",  // no separator
	"1pzry9x0s0muk", // empty hrp
	"x1b4n0q5v",     // invalid data character
	"abcdefghijklmnopqrstuvwxyzabcdefghijklmnopqrstuvwxyz1b4n0q5vqqqqqq", // invalid data character, far
	"li1dgmt3",                                                                                 // too short checksum
	"A1g7sgd8", "a1G7SGD8", "abcdefghijklmnopqrstuvwxyzabcdefghijklmnopqrstuvwxyZ1qqqqqqqqqqq", // mixed case
	"\x7f1axkwrx", "abcdefghijklmnopqrstuvwxyzabcdefghijklmnopqrstuvwxy\x801axkwrx", // hrp character
}

func genDecode(t *rapid.T) strCase {
	var s string
	switch h.Pick(t, "kind", 6, 6, 1, 1, 1, 1, 1) {
	case 5: // non-ASCII runes in the prefix, checksum correct for its bytes (or its truncated runes)
		return strCase{S: h.S(bgen.NonASCIIPrefix(t))}
	case 6: // prefix in one case, data part in the other
		v, hrp, _ := bgen.Valid(t, true, false)
		return strCase{S: h.S(bgen.SplitCase(v, len(hrp), rapid.Bool().Draw(t, "upfx")))}
	case 3: // well-formed, but the checksum belongs to another constant (Bech32m, 0, ...)
		s = bgen.WrongConst(t)
	case 4: // a human-readable part that leaves the checksum register at 0 (or 1)
		s, _, _ = bgen.ValidStateHRP(t)
	case 0:
		s, _, _ = bgen.Valid(t, true, h.Pick(t, "over", 9, 1) == 1)
	case 1:
		s, _, _ = bgen.Valid(t, false, h.Pick(t, "over", 9, 1) == 1)
	default:
		return strCase{S: h.S(rapid.SliceOfN(rapid.Byte(), 0, 100).Draw(t, "raw"))}
	}
	switch h.Pick(t, "case", 6, 3, 2) {
	case 1:
		s = bgen.Upper(s)
	case 2:
		if rapid.Bool().Draw(t, "up") {
			s = bgen.Upper(s)
		}
		s = bgen.FlipCase(t, s)
	}
	if h.Pick(t, "trappart", 14, 1) == 1 { // a case-folding trap placed in a chosen part of an otherwise valid string
		return strCase{S: h.S(bgen.FoldTrapPart(t, s))}
	}
	ne := h.Pick(t, "nedits", 5, 5, 2, 1)
	for i := 0; i < ne; i++ {
		s = bgen.Edit(t, s)
	}
	return strCase{S: h.S(s)}
}

func TestDecode(t *testing.T) {
	req := []string{"reject/checksum", "reject/padding", "reject/non-ascii", "reject/case", "reject/length", "reject/charset", "reject/separator", "reject/short", "reject/charrange"}
	for i := 0; i < 8; i++ {
		if i != 1 && i != 3 && i != 6 { // symbol counts 1,3,6 mod 8 cannot be whole bytes
			req = append(req, fmt.Sprintf("accept/residue%d", i))
		}
	}
	h.Run(t, h.Sub[strCase]{
		Prop: "C04", Name: "decode", N: 150000,
		Gen: genDecode, Check: checkDecode, Require: req,
		Rule: "reference-encoded strings over arbitrary 5-bit symbols (every padding pattern), well-formed strings whose checksum belongs to another constant (Bech32m, 0, all ones, ...), human-readable parts constructed to leave the checksum register at 0 or 1, prefixes containing non-ASCII runes with a checksum that is correct for their bytes, prefix and data part in different cases, case variants, 0-3 edits with hostile replacement bytes, random bytes; error values re-inspected after 13 further rejected calls; non-trivial = accepted by the reference, or rejected at the checksum/padding stage, or containing a non-ASCII byte; distinct by string",
	})
}

// ---- concurrent callers sharing a human-readable part ----

type concCase struct {
	Strings []h.S `json:"strings"`
	Iters   int   `json:"iters"`
}

func checkConcurrent(c concCase) (h.Info, error) {
	want := make([]ref.Result, len(c.Strings))
	acc := 0
	for i, s := range c.Strings {
		want[i] = ref.Decode(string(s))
		if want[i].OK {
			acc++
		}
	}
	info := h.Info{Class: fmt.Sprintf("goroutines=%d", len(c.Strings)), NT: acc > 0}
	if acc > 0 && acc < len(c.Strings) {
		info.Class += "/mixed"
	}
	err := h.Parallel(len(c.Strings), func(g int) error {
		s, w := string(c.Strings[g]), want[g]
		for it := 0; it < c.Iters; it++ {
			hrp, data, err := bech32.Decode(s)
			if w.OK != (err == nil) || (w.OK && (hrp != w.HRP || !bytes.Equal(data, w.Data))) {
				return fmt.Errorf("goroutine %d of %d (all decoding strings with the same human-readable part), iteration %d: Decode(%q) = (%q, %x, %v); reference ok=%v (%q, %x)", g, len(c.Strings), it, s, hrp, data, err, w.OK, w.HRP, w.Data)
			}
			if w.OK {
				if re, err := bech32.Encode(hrp, data); err != nil || re != ref.AsciiLower(s) {
					return fmt.Errorf("goroutine %d of %d (same human-readable part), iteration %d: Encode(%q, %x) = %q, %v; want %q", g, len(c.Strings), it, hrp, data, re, err, ref.AsciiLower(s))
				}
			}
		}
		return nil
	})
	return info, err
}

func genConcurrent(t *rapid.T) concCase {
	c := concCase{Iters: 300}
	hl := rapid.IntRange(1, 30).Draw(t, "hl")
	hrp := bgen.HRP(t, hl) // a fresh prefix in (almost) every case: first use happens under contention
	n := h.OneOf(t, "g", 2, 4, 8)
	for i := 0; i < n; i++ {
		nb := rapid.IntRange(0, (90-hl-7)*5/8).Draw(t, "nb")
		s := ref.EncodeSymbols(hrp, ref.ToSymbols(rapid.SliceOfN(rapid.Byte(), nb, nb).Draw(t, "data")))
		if h.Pick(t, "bad", 2, 1) == 1 { // one substituted data character: must stay rejected
			b := []byte(s)
			p := rapid.IntRange(len(hrp)+1, len(b)-1).Draw(t, "pos")
			r := ref.Charset[rapid.IntRange(0, 31).Draw(t, "r")]
			if r == b[p] {
				r = ref.Charset[(rapid.IntRange(0, 31).Draw(t, "r2")+1)%32]
			}
			if r != b[p] {
				b[p] = r
			}
			s = string(b)
		}
		c.Strings = append(c.Strings, h.S(s))
	}
	return c
}

func TestConcurrent(t *testing.T) {
	h.Run(t, h.Sub[concCase]{
		Prop: "C04", Name: "concurrent-callers", N: 150,
		Gen: genConcurrent, Check: checkConcurrent,
		Require: []string{"goroutines=2/mixed", "goroutines=8/mixed"},
		Rule:    "schedules: 2..8 goroutines released together, each decoding (and re-encoding) its own valid or one-character-corrupted string 300 times, all strings sharing one freshly drawn human-readable part; every verdict and value = reference computed beforehand; non-trivial = at least one valid string",
	})
}

// All symbol counts 0..84 with a correct checksum, for every value of the padding bits:
// enumerates (count, last symbol) completely for a fixed filler.
type padCase struct {
	HRP  string `json:"hrp"`
	N    int    `json:"n"`
	Last int    `json:"last"`
	Fill int    `json:"fill"`
}

func TestPaddingEnum(t *testing.T) {
	h.RunEnum(t, h.Enum[padCase]{
		Prop: "C04", Name: "padding-enum",
		Rule: "complete enumeration: symbol counts 0..83 x all 32 values of the last symbol x 3 fillers x 2 HRPs, checksum always correct; every case non-trivial (padding/length residue decides)",
		Each: func(yield func(padCase) bool) {
			for _, hrp := range []string{"a", "iota"} {
				for n := 0; n <= 90-len(hrp)-7; n++ {
					for last := 0; last < 32; last++ {
						for _, fill := range []int{0, 31, 21} {
							if !yield(padCase{hrp, n, last, fill}) {
								return
							}
						}
					}
				}
			}
		},
		Check: func(c padCase) (h.Info, error) {
			syms := make([]byte, c.N)
			for i := range syms {
				syms[i] = byte(c.Fill)
			}
			if c.N > 0 {
				syms[c.N-1] = byte(c.Last)
			}
			s := ref.EncodeSymbols(c.HRP, syms)
			info, err := checkDecode(strCase{S: h.S(s)})
			info.NT = true
			if err != nil {
				return info, err
			}
			info2, err := checkDecode(strCase{S: h.S(ref.AsciiUpper(s))})
			if info2.Class != info.Class {
				return info, fmt.Errorf("upper-case spelling of %q classified %s, lower-case %s", s, info2.Class, info.Class)
			}
			return info, err
		},
		Require: []string{"reject/padding", "accept/residue0", "accept/residue7"},
	})
}

func FuzzDecode(f *testing.F) {
	for _, s := range []string{"A12UEL5L", "a12uel5l", "abcdef1qpzry9x8gf2tvdw0s3jn54khce6mua7lmqqqxw", "?1ezyfcl", "iota1qrhacyfwlcnzkvzteumekfkrrwks98mpdm37cj4xx3drvmjvnep6xqgyzyx",
		"A1QCQSYQCUY8KZT", "a1K", "İ1qqqqqq", "a1qqqqqqq\xff", "1qqqqqq", "a1", "", "an83characterlonghumanreadablepartthatcontainsthenumber1andtheexcludedcharactersbio1tt5tgs"} {
		f.Add(s)
	}
	f.Fuzz(func(t *testing.T, s string) {
		c := strCase{S: h.S(s)}
		if _, err := checkDecode(c); err != nil {
			h.Fail(t, "C04", "decode", c, err)
		}
	})
}

// FuzzGenDecode: the structured generator driven by Go's coverage-guided fuzzer (thorough tier).
func FuzzGenDecode(f *testing.F) {
	h.FuzzSub(f, h.Sub[strCase]{Prop: "C04", Name: "decode", Gen: genDecode, Check: checkDecode})
}

// which public entry point is called first in a process (and by how many goroutines at once)
func TestFirstCalls(t *testing.T) { h.FirstCallsSub(t, "C04", fc.Bech32(), 6) }
