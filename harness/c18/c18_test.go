// C18 — ECVRF proofs are RFC 9381 conformant, complete, canonical and unique.
package c18

import (
	"bytes"
	"fmt"
	"math/big"
	"testing"

	"github.com/wollac/iota-crypto-demo/pkg/vrf"
	"pgregory.net/rapid"

	"verifharness/fc"
	"verifharness/h"
	"verifharness/ref/ed"
	ref "verifharness/ref/vrf"
)

func TestMain(m *testing.M) {
	h.FirstCallsChild(fc.VRF()) // never returns in a first-call child process
	if err := ed.SelfCheck(); err != nil {
		fmt.Println("VERIF-INFRA reference self-check failed:", err)
		panic(err)
	}
	if err := ref.SelfCheck(); err != nil {
		fmt.Println("VERIF-INFRA reference self-check failed:", err)
		panic(err)
	}
	h.Note("ref/vrf reproduces RFC 9381 appendix B.3 examples 16-18 (hard-coded in the reference)")
	h.Main(m)
}

// ---- Prove ----

type proveCase struct {
	Seed  h.B `json:"seed"`
	Alpha h.B `json:"alpha"`
}

func checkProve(c proveCase) (h.Info, error) {
	if len(c.Seed) != 32 {
		return h.Info{}, fmt.Errorf("PRECONDITION: seed length")
	}
	wantPi, wantPK, rounds := ref.Prove(c.Seed, c.Alpha)
	cls := "prove/rounds>=3"
	if rounds < 3 {
		cls = fmt.Sprintf("prove/rounds=%d", rounds)
	}
	info := h.Info{Class: cls, NT: true}
	priv := vrf.NewKeyFromSeed(append([]byte{}, c.Seed...))
	pub := priv.Public().(vrf.PublicKey)
	if !bytes.Equal(pub, wantPK) {
		return info, fmt.Errorf("public key %x, reference %x", []byte(pub), wantPK)
	}
	// the private key as a sub-slice with spare capacity: nothing behind it may be touched
	store := append(append(make([]byte, 0, 64+len(c.Alpha)+40), priv...), bytes.Repeat([]byte{0x5a}, len(c.Alpha)+40)...)
	if p0 := vrf.Prove(vrf.PrivateKey(store[:64]), append([]byte{}, c.Alpha...)).Bytes(); !bytes.Equal(p0, wantPi) {
		return info, fmt.Errorf("Prove with a private-key slice that has spare capacity = %x, reference %x", p0, wantPi)
	}
	if !bytes.Equal(store[:64], priv) || !bytes.Equal(store[64:], bytes.Repeat([]byte{0x5a}, len(c.Alpha)+40)) {
		return info, fmt.Errorf("Prove wrote into or behind the caller's private key slice")
	}
	// the key pair as GenerateKey hands it out (the seed read from the caller's reader); the two results are
	// the caller's to use: the public key is then overwritten (e.g. to make a wrong key for a negative test)
	// and the private key must still prove for the seed
	if gpub, gpriv, gerr := vrf.GenerateKey(bytes.NewReader(append(append([]byte{}, c.Seed...), 1, 2, 3))); gerr != nil || !bytes.Equal(gpub, wantPK) {
		return info, fmt.Errorf("GenerateKey(reader of the seed %x) = public key %x, %v; reference %x", []byte(c.Seed), []byte(gpub), gerr, wantPK)
	} else {
		for i := range gpub {
			gpub[i] ^= 0x3c
		}
		if p1 := vrf.Prove(gpriv, append([]byte{}, c.Alpha...)).Bytes(); !bytes.Equal(p1, wantPi) {
			return info, fmt.Errorf("Prove with the private key from GenerateKey(reader of the seed %x), after the caller overwrote the public key slice returned next to it, = %x; RFC 9381 reference for the seed %x", []byte(c.Seed), p1, wantPi)
		}
	}
	proof := vrf.Prove(priv, append([]byte{}, c.Alpha...))
	pi := proof.Bytes()
	if !bytes.Equal(pi, wantPi) {
		return info, fmt.Errorf("Prove(seed %x, alpha %x) = %x, RFC 9381 reference %x (%d try-and-increment rounds)", []byte(c.Seed), []byte(c.Alpha), pi, wantPi, rounds)
	}
	wantBeta, _ := ref.ProofToHash(wantPi)
	ok, beta := vrf.Verify(pub, c.Alpha, pi)
	if !ok || !bytes.Equal(beta, wantBeta) {
		return info, fmt.Errorf("Verify of the honest proof = %v, %x; want true, %x", ok, beta, wantBeta)
	}
	b2, err := vrf.ProofToHash(pi)
	if err != nil || !bytes.Equal(b2, wantBeta) {
		return info, fmt.Errorf("ProofToHash = %x, %v; want %x", b2, err, wantBeta)
	}
	if b3 := proof.Hash(); !bytes.Equal(b3, wantBeta) {
		return info, fmt.Errorf("Proof.Hash = %x; want %x", b3, wantBeta)
	}
	mb, err := proof.MarshalBinary()
	if err != nil || !bytes.Equal(mb, pi) {
		return info, fmt.Errorf("MarshalBinary = %x, %v", mb, err)
	}
	// the hashes handed out belong to the caller: still the same after OTHER proofs were hashed
	for round := 0; round < 3; round++ {
		if _, err := vrf.ProofToHash(primerPi); err != nil {
			return info, fmt.Errorf("ProofToHash(primer): %v", err)
		}
		var other vrf.Proof
		if _, err := other.SetBytes(primerPi); err != nil {
			return info, fmt.Errorf("SetBytes(primer): %v", err)
		}
		_ = other.Hash()
	}
	for i, held := range [][]byte{beta, b2, mb} {
		want := wantBeta
		if i == 2 {
			want = wantPi
		}
		if !bytes.Equal(held, want) {
			return info, fmt.Errorf("a value returned earlier for the proof of (seed %x, alpha %x) (0 = Verify's hash, 1 = ProofToHash, 2 = MarshalBinary: here %d) reads %x after other proofs were hashed; it was %x", []byte(c.Seed), []byte(c.Alpha), i, held, want)
		}
	}
	b3 := proof.Hash()
	_, _ = vrf.ProofToHash(primerPi)
	if !bytes.Equal(b3, wantBeta) {
		return info, fmt.Errorf("the slice returned by Proof.Hash for (seed %x, alpha %x) reads %x after another proof was hashed; it was %x", []byte(c.Seed), []byte(c.Alpha), b3, wantBeta)
	}
	// determinism, also after the caller overwrote everything the first call handed out
	for i := range pi {
		pi[i] ^= 0xff
	}
	for i := range beta {
		beta[i] ^= 0xff
	}
	pi = append([]byte{}, wantPi...)
	if again := vrf.Prove(priv, c.Alpha).Bytes(); !bytes.Equal(again, pi) {
		return info, fmt.Errorf("Prove is not deterministic")
	}
	// wrong alpha must not verify
	ok, _ = vrf.Verify(pub, append(append([]byte{}, c.Alpha...), 0x01), pi)
	if ok {
		return info, fmt.Errorf("proof verifies for a different alpha")
	}
	return info, nil
}

func genProve(t *rapid.T) proveCase {
	var seed h.B
	switch h.Pick(t, "sk", 8, 1) {
	case 0:
		seed = h.BytesN(t, "seed", 32)
	default:
		seed = make(h.B, 32)
	}
	if h.Pick(t, "along", 8, 1) == 1 { // alpha spanning many SHA-512 blocks
		return proveCase{seed, h.BytesN(t, "alphalong", h.OneOf(t, "al", 127, 128, 129, 1000, 2048, 5000))}
	}
	return proveCase{seed, h.Bytes(t, "alpha", 0, 100)}
}

// every alpha length 0..520: the hash input of try-and-increment is suite || 0x01 || key || alpha || ctr || 0x00;
// a buffer of any fixed size holding it is exactly full for one length
func TestEveryAlphaLength(t *testing.T) {
	h.RunEnum(t, h.Enum[proveCase]{
		Prop: "C18", Name: "prove-every-alpha-length-0..520",
		Rule: "complete enumeration of alpha lengths 0..520 (pattern seed and alpha): Prove = independent RFC 9381 proof byte for byte, Verify accepts it with the reference hash (the full prove case); all non-trivial",
		Each: func(yield func(proveCase) bool) {
			for n := 0; n <= 520; n++ {
				seed, alpha := make(h.B, 32), make(h.B, n)
				for i := range seed {
					seed[i] = byte(n*5 + i*3)
				}
				for i := range alpha {
					alpha[i] = byte(i*13 + n)
				}
				if !yield(proveCase{seed, alpha}) {
					return
				}
			}
		},
		Check: checkProve,
	})
}

func TestProve(t *testing.T) {
	h.Run(t, h.Sub[proveCase]{
		Prop: "C18", Name: "prove", N: 600,
		Gen: genProve, Check: checkProve,
		Require: []string{"prove/rounds=1", "prove/rounds=2", "prove/rounds>=3"},
		Rule:    "32-byte seeds x alpha strings of 0..100 bytes (classes by the number of try-and-increment rounds): Prove = independent RFC 9381 proof byte for byte, Verify accepts it with the reference hash, ProofToHash = Proof.Hash = reference, deterministic, other alpha rejected; all non-trivial; distinct by (seed, alpha)",
	})
}

var reusedProof = new(vrf.Proof)
var primerPi, _, _ = ref.Prove(bytes.Repeat([]byte{3}, 32), []byte("primer"))

// ---- Verify / decoding ----

type verifyCase struct {
	Kind  string `json:"kind"`
	Seed  h.B    `json:"seed,omitempty"` // when set, PK/alpha relate to this honest key (for the uniqueness oracle)
	PK    h.B    `json:"pk"`
	Alpha h.B    `json:"alpha"`
	Pi    h.B    `json:"pi"`
}

func checkVerify(c verifyCase) (h.Info, error) {
	if len(c.PK) != 32 {
		return h.Info{}, fmt.Errorf("PRECONDITION: key length")
	}
	want, wantBeta, stage := ref.Verify(c.PK, c.Alpha, c.Pi)
	cls := c.Kind + "/reject-" + stage
	if want {
		cls = c.Kind + "/accept"
	}
	info := h.Info{Class: cls, NT: c.Kind != "random"}
	ok, beta := vrf.Verify(vrf.PublicKey(append([]byte{}, c.PK...)), append([]byte{}, c.Alpha...), append([]byte{}, c.Pi...))
	if ok != want {
		return info, fmt.Errorf("Verify(pk=%x, alpha=%x, pi=%x) [%s] = %v, RFC 9381 reference = %v (first failing step %q)", []byte(c.PK), []byte(c.Alpha), []byte(c.Pi), c.Kind, ok, want, stage)
	}
	// same verdict when key, alpha and proof are adjacent sub-slices of one buffer (two orders); inputs unmodified
	for layout := 0; layout < 2; layout++ {
		var buf, k, a, p []byte
		if layout == 0 {
			buf = append(append(append(make([]byte, 0, 32+len(c.Alpha)+len(c.Pi)+64), c.PK...), c.Alpha...), c.Pi...)
			k, a, p = buf[:32], buf[32:32+len(c.Alpha)], buf[32+len(c.Alpha):]
		} else { // a wire message key || proof || alpha
			buf = append(append(append(make([]byte, 0, 32+len(c.Alpha)+len(c.Pi)+64), c.PK...), c.Pi...), c.Alpha...)
			k, p, a = buf[:32], buf[32:32+len(c.Pi)], buf[32+len(c.Pi):]
		}
		snap := append([]byte{}, buf...)
		ok2, beta2 := vrf.Verify(vrf.PublicKey(k), a, p)
		if ok2 != ok || !bytes.Equal(beta2, beta) {
			return info, fmt.Errorf("Verify(pk=%x, alpha=%x, pi=%x) = %v when the arguments are adjacent sub-slices of one buffer, %v otherwise", []byte(c.PK), []byte(c.Alpha), []byte(c.Pi), ok2, ok)
		}
		if !bytes.Equal(buf, snap) {
			return info, fmt.Errorf("Verify modified the caller's buffer")
		}
	}
	if ok {
		if !bytes.Equal(beta, wantBeta) {
			return info, fmt.Errorf("accepted proof hash %x, reference %x", beta, wantBeta)
		}
		// uniqueness: any accepted proof for (key, alpha) yields the honest hash
		if len(c.Seed) == 32 {
			hpi, hpk, _ := ref.Prove(c.Seed, c.Alpha)
			if bytes.Equal(hpk, c.PK) {
				hb, _ := ref.ProofToHash(hpi)
				if !bytes.Equal(beta, hb) {
					return info, fmt.Errorf("proof %x accepted for key %x / alpha %x with hash %x, but the honest hash is %x", []byte(c.Pi), []byte(c.PK), []byte(c.Alpha), beta, hb)
				}
			}
		}
	}
	// a Proof value that is reused: SetBytes(other proof), Hash, SetBytes(this one), Hash
	if _, _, _, okd := ref.DecodeProof(c.Pi); okd {
		if _, err := reusedProof.SetBytes(primerPi); err == nil {
			_ = reusedProof.Hash()
			if _, err := reusedProof.SetBytes(append([]byte{}, c.Pi...)); err == nil {
				wb, _ := ref.ProofToHash(c.Pi)
				if hb := reusedProof.Hash(); !bytes.Equal(hb, wb) || !bytes.Equal(reusedProof.Bytes(), c.Pi) {
					return info, fmt.Errorf("a reused Proof value: after SetBytes(%x) Hash() = %x, reference %x", []byte(c.Pi), hb, wb)
				}
			}
		}
	}
	// decoding: succeeds iff the reference decoder does, and only for inputs that re-encode to themselves
	_, _, _, decOK := ref.DecodeProof(c.Pi)
	p, err := new(vrf.Proof).SetBytes(append([]byte{}, c.Pi...))
	if decOK != (err == nil) {
		return info, fmt.Errorf("Proof.SetBytes(%x): reference decodable=%v, got err=%v", []byte(c.Pi), decOK, err)
	}
	if err == nil {
		if !bytes.Equal(p.Bytes(), c.Pi) {
			return info, fmt.Errorf("Proof.SetBytes(%x) succeeded but re-encodes to %x", []byte(c.Pi), p.Bytes())
		}
		wb, _ := ref.ProofToHash(c.Pi)
		if hb := p.Hash(); !bytes.Equal(hb, wb) {
			return info, fmt.Errorf("Proof.Hash = %x, reference %x", hb, wb)
		}
		// the decoded proof is a value of its own: the caller's input buffer is wiped / reused after
		// decoding (SetBytes and UnmarshalBinary), and the bytes handed out by Bytes() are overwritten by
		// the caller; the proof still encodes to the original 80 bytes and hashes the same
		buf := append([]byte{}, c.Pi...)
		var p2, p3 vrf.Proof
		if _, e2 := p2.SetBytes(buf); e2 == nil && p3.UnmarshalBinary(buf) == nil {
			for i := range buf {
				buf[i] = 0xee
			}
			for name, q := range map[string]*vrf.Proof{"SetBytes": &p2, "UnmarshalBinary": &p3} {
				if got := q.Bytes(); !bytes.Equal(got, c.Pi) || !bytes.Equal(q.Hash(), wb) {
					return info, fmt.Errorf("a proof decoded with %s(%x) encodes to %x and hashes to %x after the caller overwrote the buffer it was decoded from (want the same 80 bytes and %x)", name, []byte(c.Pi), got, q.Hash(), wb)
				}
				first := q.Bytes()
				for i := range first {
					first[i] ^= 0x77
				}
				if mb, merr := q.MarshalBinary(); merr != nil || !bytes.Equal(mb, c.Pi) || !bytes.Equal(q.Bytes(), c.Pi) {
					return info, fmt.Errorf("a proof decoded with %s(%x): after the caller overwrote the slice returned by Bytes(), MarshalBinary = %x, %v and Bytes() = %x", name, []byte(c.Pi), mb, merr, q.Bytes())
				}
			}
		}
	}
	hb, herr := vrf.ProofToHash(append([]byte{}, c.Pi...))
	if decOK != (herr == nil) {
		return info, fmt.Errorf("ProofToHash(%x): reference decodable=%v, err=%v", []byte(c.Pi), decOK, herr)
	}
	if decOK {
		if wb, _ := ref.ProofToHash(c.Pi); !bytes.Equal(hb, wb) {
			return info, fmt.Errorf("ProofToHash = %x, reference %x", hb, wb)
		}
	}
	var q vrf.Proof
	if uerr := q.UnmarshalBinary(append([]byte{}, c.Pi...)); decOK != (uerr == nil) {
		return info, fmt.Errorf("UnmarshalBinary: reference decodable=%v, err=%v", decOK, uerr)
	}
	return info, nil
}

// all encodings ZIP-215 would decode to p (canonical first)
func encodings(p ed.Point) [][]byte {
	x, y := p.Affine()
	out := [][]byte{p.Encode()}
	ys := []*big.Int{y}
	if yp := new(big.Int).Add(y, ed.P); yp.BitLen() <= 255 {
		ys = append(ys, yp)
	}
	for _, yv := range ys {
		for sign := byte(0); sign < 2; sign++ {
			if x.Sign() != 0 && uint(sign) != x.Bit(0) {
				continue
			}
			b := ed.LEBytes(yv, 32)
			b[31] |= sign << 7
			dup := false
			for _, o := range out {
				if bytes.Equal(o, b) {
					dup = true
				}
			}
			if !dup {
				out = append(out, b)
			}
		}
	}
	return out
}

func genVerify(t *rapid.T) verifyCase {
	seed := h.BytesN(t, "seed", 32)
	alpha := h.Bytes(t, "alpha", 0, 40)
	pi, pk, _ := ref.Prove(seed, alpha)
	c := verifyCase{Kind: "honest", Seed: seed, PK: pk, Alpha: alpha, Pi: pi}
	tor := ed.Torsion()
	switch h.Pick(t, "mut", 3, 4, 3, 2, 2, 2, 2, 2, 2, 1, 1, 3) {
	case 0:
	case 11: // proofs Prove never emits, made with the secret scalar: RFC 9381 decides each of them
		return crafted(t, seed, alpha)
	case 1: // bit flip in one of the three fields
		f := h.Pick(t, "field", 1, 1, 1)
		lo, hi := []int{0, 32, 48}[f], []int{31, 47, 79}[f]
		c.Pi[rapid.IntRange(lo, hi).Draw(t, "i")] ^= 1 << uint(rapid.IntRange(0, 7).Draw(t, "b"))
		c.Kind = []string{"flip-gamma", "flip-c", "flip-s"}[f]
	case 2: // Gamma + torsion point
		g, _ := ed.DecodeStrict(c.Pi[:32])
		copy(c.Pi[:32], g.Add(tor[rapid.IntRange(1, 7).Draw(t, "ti")]).Encode())
		c.Kind = "gamma+torsion"
	case 3: // Gamma replaced by a small-order point in any (also non-canonical) encoding, c = 0 variants
		e := encodings(tor[rapid.IntRange(0, 7).Draw(t, "ti")])
		copy(c.Pi[:32], e[rapid.IntRange(0, len(e)-1).Draw(t, "enc")])
		if rapid.Bool().Draw(t, "czero") {
			copy(c.Pi[32:48], make([]byte, 16))
		}
		c.Kind = "gamma-small-order"
	case 4: // s + j*L, or s with top bits
		s := ed.LEInt(c.Pi[48:])
		if rapid.Bool().Draw(t, "addL") {
			s.Add(s, new(big.Int).Mul(big.NewInt(int64(rapid.IntRange(1, 15).Draw(t, "j"))), ed.L))
			if s.BitLen() <= 256 {
				copy(c.Pi[48:], ed.LEBytes(s, 32))
			}
		} else {
			c.Pi[79] |= byte(h.OneOf(t, "top", 0x80, 0x40, 0x20, 0x10))
		}
		c.Kind = "s-noncanonical"
	case 5: // length change
		n := rapid.IntRange(0, 100).Draw(t, "len")
		for len(c.Pi) < n {
			c.Pi = append(c.Pi, 0)
		}
		c.Pi = c.Pi[:n]
		c.Kind = "length"
	case 6: // key + torsion (mixed order), key encodings
		y, _ := ed.DecodeStrict(pk)
		c.PK = y.Add(tor[rapid.IntRange(1, 7).Draw(t, "ti")]).Encode()
		c.Kind = "key+torsion"
	case 7: // small-order key in every encoding, with a proof made to "fit": Gamma small order too, c = 0
		e := encodings(tor[rapid.IntRange(0, 7).Draw(t, "ti")])
		c.PK = e[rapid.IntRange(0, len(e)-1).Draw(t, "enc")]
		if rapid.Bool().Draw(t, "fit") {
			// the proof an attacker can forge for a small-order key (verifies unless the key is rejected)
			c.Pi = forge(c.PK, alpha, rapid.Uint64().Draw(t, "k0"))
		}
		c.Kind = "key-small-order"
	case 8: // non-canonical key encodings: y + p for the honest key is impossible (y >= 19), so flip to other trap encodings
		c.PK = h.OneOf(t, "nck", ed.LEBytes(new(big.Int).Add(ed.P, big.NewInt(1)), 32), ed.LEBytes(ed.P, 32),
			append(ed.LEBytes(big.NewInt(1), 31), 0x80), append(bytesOf(0xec, 0xff, 30), 0xff), ed.LEBytes(new(big.Int).Add(ed.P, big.NewInt(3)), 32))
		c.Kind = "key-noncanonical"
	case 9: // other honest key
		_, pk2, _ := ref.Prove(h.BytesN(t, "seed2", 32), alpha)
		c.PK = pk2
		c.Kind = "other-key"
	default: // random
		c = verifyCase{Kind: "random", PK: h.BytesN(t, "rpk", 32), Alpha: alpha, Pi: h.Bytes(t, "rpi", 80, 80)}
	}
	return c
}

// crafted builds (key, proof) pairs with the secret scalar x of seed that an honest prover never emits and
// that section 5.3 of RFC 9381 nevertheless accepts or rejects for a definite reason:
//   - Gamma = xH + T with T of order 2, 4 or 8: accepted exactly when c*T = O (the nonce is stepped until
//     that holds, or, for the twin, until it does not);
//   - the mixed-order key Y' = xB + T (passes ECVRF_validate_key: 8Y' != O) with Gamma = xH: accepted exactly
//     when c*T = O;
//   - a chosen nonce: 0 (U = V = O), 1, L-1, or one that makes s = 0.
// The hash of every accepted one is the honest hash for (x, alpha) resp. hash(8xH).
func crafted(t *rapid.T, seed, alpha []byte) verifyCase {
	x, _ := ed.SecretScalar(seed)
	tor := ed.Torsion()
	Y := ed.B.Mul(x)
	T := tor[rapid.IntRange(1, 7).Draw(t, "cti")]
	annihilated := func(c *big.Int) bool { return T.Mul(c).IsIdentity() }
	k := new(big.Int).SetBytes(h.BytesN(t, "ck", 32))
	k.Mod(k, ed.L)
	build := func(pk []byte, gamma ed.Point, H ed.Point, k *big.Int) ([]byte, *big.Int) {
		c := ref.Challenge(pk, H.Encode(), gamma, ed.B.Mul(k), H.Mul(k))
		sc := new(big.Int).Mul(c, x)
		sc.Add(sc, k).Mod(sc, ed.L)
		return append(append(gamma.Encode(), ed.LEBytes(c, 16)...), ed.LEBytes(sc, 32)...), c
	}
	wantFit := h.Pick(t, "cfit", 3, 1) == 0
	switch h.Pick(t, "ckind", 3, 3, 2) {
	case 0:
		pk := Y.Encode()
		H, _ := ref.EncodeToCurve(pk, alpha)
		gamma := H.Mul(x).Add(T)
		for try := 0; try < 200; try++ {
			pi, c := build(pk, gamma, H, k)
			if annihilated(c) == wantFit {
				return verifyCase{Kind: "crafted-gamma+torsion", Seed: seed, PK: pk, Alpha: alpha, Pi: pi}
			}
			k.Add(k, big.NewInt(1)).Mod(k, ed.L)
		}
	case 1:
		pk := Y.Add(T).Encode()
		H, _ := ref.EncodeToCurve(pk, alpha)
		gamma := H.Mul(x)
		for try := 0; try < 200; try++ {
			pi, c := build(pk, gamma, H, k)
			if annihilated(c) == wantFit {
				return verifyCase{Kind: "crafted-key+torsion", PK: pk, Alpha: alpha, Pi: pi}
			}
			k.Add(k, big.NewInt(1)).Mod(k, ed.L)
		}
	}
	pk := Y.Encode()
	H, _ := ref.EncodeToCurve(pk, alpha)
	gamma := H.Mul(x)
	switch h.Pick(t, "cnonce", 3, 1, 1, 1) {
	case 0:
		k = big.NewInt(0)
	case 1:
		k = big.NewInt(1)
	case 2:
		k = new(big.Int).Sub(ed.L, big.NewInt(1))
	default:
		// s = k + c x = 0 needs c, which depends on k: take k = -c0 x for the challenge c0 of nonce 0 (a nonce
		// related to the secret; s is then whatever it is)
		_, c0 := build(pk, gamma, H, big.NewInt(0))
		k = new(big.Int).Mul(c0, x)
		k.Neg(k).Mod(k, ed.L)
	}
	pi, _ := build(pk, gamma, H, k)
	return verifyCase{Kind: "crafted-nonce", Seed: seed, PK: pk, Alpha: alpha, Pi: pi}
}

func bytesOf(first, fill byte, n int) []byte {
	out := []byte{first}
	for i := 0; i < n; i++ {
		out = append(out, fill)
	}
	return out
}

func TestVerify(t *testing.T) {
	h.Run(t, h.Sub[verifyCase]{
		Prop: "C18", Name: "verify", N: 1200,
		Gen: genVerify, Check: checkVerify,
		Require: []string{"honest/accept", "flip-gamma/reject-proof-decode", "flip-c/reject-challenge", "flip-s/reject-challenge", "gamma+torsion/reject-challenge",
			"gamma-small-order/reject-proof-decode", "s-noncanonical/reject-proof-decode", "length/reject-proof-decode", "key-small-order/reject-key-small-order",
			"key-small-order/reject-key-decode", "key-noncanonical/reject-key-decode", "other-key/reject-challenge", "key+torsion/reject-challenge",
			"crafted-gamma+torsion/accept", "crafted-gamma+torsion/reject-challenge", "crafted-key+torsion/accept", "crafted-key+torsion/reject-challenge", "crafted-nonce/accept"},
		Rule: "honest proofs and structural mutations: bit flips in Gamma / c / s, Gamma plus a torsion point, Gamma replaced by small-order points in every (also non-canonical) encoding, s+jL and s top bits, lengths 0..100, key plus torsion, all small-order and non-canonical key encodings, other honest key, proofs crafted with the secret scalar that Prove never emits (Gamma = xH + T and mixed-order key xB + T with the nonce stepped until c*T = O or until it is not; nonces 0, 1, L-1, -c0*x), random 80-byte strings; Verify's boolean must equal the reference verifier's (two-sided), accepted hash = honest hash (uniqueness), SetBytes/ProofToHash/UnmarshalBinary succeed iff the reference decoder does and only for self-re-encoding inputs; non-trivial = not random bytes; distinct by case",
	})
}

// forge builds the proof an attacker can make for a small-order key Y without any secret:
// Gamma = identity, s = k, c = challenge(Y, H, Gamma, kB, kH), retrying k until c*Y = O (c = 0 mod 8).
// Such a proof verifies in an implementation that forgets ECVRF_validate_key for this key.
func forge(pk, alpha []byte, k0 uint64) []byte {
	H, _ := ref.EncodeToCurve(pk, alpha)
	id := ed.Identity()
	for k := new(big.Int).SetUint64(k0 | 1); ; k.Add(k, big.NewInt(2)) {
		c := ref.Challenge(pk, H.Encode(), id, ed.B.Mul(k), H.Mul(k))
		if new(big.Int).Mod(c, big.NewInt(8)).Sign() == 0 {
			return append(append(id.Encode(), ed.LEBytes(c, 16)...), ed.LEBytes(k, 32)...)
		}
	}
}

// all small-order / non-canonical key encodings, complete
type keyCase struct {
	Enc h.B `json:"key"`
}

func TestKeyEncodings(t *testing.T) {
	pi, _, _ := ref.Prove(make([]byte, 32), []byte("alpha"))
	h.RunEnum(t, h.Enum[keyCase]{
		Prop: "C18", Name: "small-order-and-noncanonical-keys",
		Rule: "complete enumeration of every encoding (canonical, y+p, flipped sign for x = 0) of the 8 small-order points plus y = p..p+18 with both sign bits as public key, each with an honest proof of another key and with the forged proof (Gamma = O, s = k, c = 0 mod 8) that verifies unless the key is rejected: Verify must reject each",
		Each: func(yield func(keyCase) bool) {
			for _, p := range ed.Torsion() {
				for _, e := range encodings(p) {
					if !yield(keyCase{e}) {
						return
					}
				}
			}
			for d := int64(0); d < 19; d++ {
				for sign := byte(0); sign < 2; sign++ {
					b := ed.LEBytes(new(big.Int).Add(ed.P, big.NewInt(d)), 32)
					b[31] |= sign << 7
					if !yield(keyCase{b}) {
						return
					}
				}
			}
		},
		Check: func(k keyCase) (h.Info, error) {
			info, err := checkVerify(verifyCase{Kind: "key-enum", PK: k.Enc, Alpha: []byte("alpha"), Pi: append(h.B{}, pi...)})
			info.NT = true
			if err == nil {
				// the forged proof that would verify if the key were not rejected
				if _, ok := ed.DecodeZIP215(k.Enc); ok {
					_, err = checkVerify(verifyCase{Kind: "key-enum", PK: k.Enc, Alpha: []byte("alpha"), Pi: forge(k.Enc, []byte("alpha"), 12345)})
				}
			}
			if err == nil && info.Class == "key-enum/accept" {
				return info, fmt.Errorf("harness self-check: reference accepts a small-order / non-canonical key %x", []byte(k.Enc))
			}
			return info, err
		},
	})
}

func FuzzVerify(f *testing.F) {
	pi, pk, _ := ref.Prove(make([]byte, 32), []byte("a"))
	f.Add(pk, []byte("a"), pi)
	f.Add(make([]byte, 32), []byte{}, make([]byte, 80))
	f.Fuzz(func(t *testing.T, pk, alpha, pi []byte) {
		if len(pk) != 32 {
			return
		}
		c := verifyCase{Kind: "fuzz", PK: pk, Alpha: alpha, Pi: pi}
		if _, err := checkVerify(c); err != nil {
			h.Fail(t, "C18", "verify", c, err)
		}
	})
}

// coverage-guided fuzzing over the structured generators (thorough tier)
func FuzzGenVerify(f *testing.F) {
	h.FuzzSub(f, h.Sub[verifyCase]{Prop: "C18", Name: "verify", Gen: genVerify, Check: checkVerify})
}

func FuzzGenProve(f *testing.F) {
	h.FuzzSub(f, h.Sub[proveCase]{Prop: "C18", Name: "prove", Gen: genProve, Check: checkProve})
}

// which public entry point is called first in a process (and by how many goroutines at once)
func TestFirstCalls(t *testing.T) { h.FirstCallsSub(t, "C18", fc.VRF(), 6) }
