// C08 — public and private SLIP-10 child derivation commute.
package c08

import (
	"bytes"
	"errors"
	"fmt"
	"math/big"
	"testing"

	"github.com/wollac/iota-crypto-demo/pkg/slip10"
	slipelliptic "github.com/wollac/iota-crypto-demo/pkg/slip10/elliptic"
	"pgregory.net/rapid"

	"verifharness/fc"
	"verifharness/h"
	"verifharness/ref/secp"
)

func TestMain(m *testing.M) {
	h.FirstCallsChild(fc.Secp256k1()) // never returns in a first-call child process
	for _, c := range []*secp.Curve{secp.K1, secp.P256} {
		if err := c.SelfCheck(); err != nil {
			fmt.Println("VERIF-INFRA reference self-check failed:", err)
			panic(err)
		}
	}
	h.Main(m)
}

func curveOf(name string) (slip10.Curve, *secp.Curve) {
	if name == "secp256k1" {
		return slipelliptic.Secp256k1(), secp.K1
	}
	return slipelliptic.Nist256p1(), secp.P256
}

// ---- extended-key level ----

type deriveCase struct {
	Curve string   `json:"curve"`
	Seed  h.B      `json:"seed"`
	Path  []uint32 `json:"path"`  // walk down from the master (any indices)
	Index uint32   `json:"index"` // non-hardened index to derive both ways
	// further non-hardened children derived from the same parent object afterwards
	Siblings []uint32 `json:"siblings,omitempty"`
	Retry    bool     `json:"retry,omitempty"` // the official SLIP-0010 retry vector parent (index 33941 retries)
}

func checkDerive(c deriveCase) (h.Info, error) {
	cv, _ := curveOf(c.Curve)
	info := h.Info{Class: c.Curve + "/derive", NT: true}
	if c.Retry {
		info.Class = c.Curve + "/derive-with-retry"
	}
	if c.Index >= slip10.Hardened {
		return info, fmt.Errorf("PRECONDITION: hardened index")
	}
	parent, err := slip10.DeriveKeyFromPath(c.Seed, cv, c.Path)
	if err != nil {
		return info, fmt.Errorf("parent derivation: %v", err)
	}
	child, err := parent.DeriveChild(c.Index)
	if err != nil {
		return info, fmt.Errorf("private DeriveChild(%d): %v", c.Index, err)
	}
	pubChild, err := parent.Public().DeriveChild(c.Index)
	if err != nil {
		return info, fmt.Errorf("public DeriveChild(%d): %v", c.Index, err)
	}
	a := child.Public()
	if pubChild.IsPrivate() || a.IsPrivate() {
		return info, fmt.Errorf("public child reports IsPrivate")
	}
	if !bytes.Equal(a.Key.Bytes(), pubChild.Key.Bytes()) {
		return info, fmt.Errorf("index %d under %v: public key of the private child %x != child of the public parent %x", c.Index, c.Path, a.Key.Bytes(), pubChild.Key.Bytes())
	}
	if !bytes.Equal(a.ChainCode, pubChild.ChainCode) {
		return info, fmt.Errorf("chain codes differ: %x vs %x", a.ChainCode, pubChild.ChainCode)
	}
	if !bytes.Equal(a.Fingerprint(), pubChild.Fingerprint()) || !bytes.Equal(child.Fingerprint(), pubChild.Fingerprint()) {
		return info, fmt.Errorf("fingerprints differ: %x vs %x", a.Fingerprint(), pubChild.Fingerprint())
	}
	// Public() of a key that is public already is the same extended public key, fingerprint included
	if pp := pubChild.Public(); pp == nil || pp.IsPrivate() || !bytes.Equal(pp.Fingerprint(), pubChild.Fingerprint()) || !bytes.Equal(pp.Key.Bytes(), pubChild.Key.Bytes()) || !bytes.Equal(pp.ChainCode, pubChild.ChainCode) {
		return info, fmt.Errorf("Public() of the public child: fingerprint %x, key %x, chain code %x; the public child itself has %x, %x, %x", pp.Fingerprint(), pp.Key.Bytes(), pp.ChainCode, pubChild.Fingerprint(), pubChild.Key.Bytes(), pubChild.ChainCode)
	}
	if pp := a.Public().Public(); !bytes.Equal(pp.Fingerprint(), pubChild.Fingerprint()) {
		return info, fmt.Errorf("Public().Public() of the private child has fingerprint %x, want %x", pp.Fingerprint(), pubChild.Fingerprint())
	}
	// several children of the SAME parent object, compared only after all of them exist, against
	// children of an independently built public parent (buffers or hash state kept on the parent must
	// not leak from one derivation into another, also not after a derivation that needed a retry)
	sibs := append([]uint32{c.Index}, c.Siblings...)
	var kids []*slip10.ExtendedKey
	for _, idx := range sibs {
		k, err := parent.DeriveChild(idx)
		if err != nil {
			return info, fmt.Errorf("sibling derivation %d: %v", idx, err)
		}
		kids = append(kids, k)
	}
	for i, idx := range sibs {
		fresh, err := slip10.DeriveKeyFromPath(c.Seed, cv, c.Path)
		if err != nil {
			return info, err
		}
		pk, err := fresh.Public().DeriveChild(idx)
		if err != nil {
			return info, fmt.Errorf("public sibling derivation %d: %v", idx, err)
		}
		kp := kids[i].Public()
		if !bytes.Equal(kp.Key.Bytes(), pk.Key.Bytes()) || !bytes.Equal(kp.ChainCode, pk.ChainCode) || !bytes.Equal(kp.Fingerprint(), pk.Fingerprint()) {
			return info, fmt.Errorf("child %d (number %d of %v derived from the same parent object under %v): key %x chain code %x, child of an independently built public parent: key %x chain code %x", idx, i, sibs, c.Path, kp.Key.Bytes(), kp.ChainCode, pk.Key.Bytes(), pk.ChainCode)
		}
	}
	// one level further from the public child (public-only chain)
	g1, err1 := pubChild.DeriveChild(c.Index ^ 1)
	g2, err2 := child.DeriveChild(c.Index ^ 1)
	if err1 != nil || err2 != nil || !bytes.Equal(g1.Key.Bytes(), g2.Public().Key.Bytes()) || !bytes.Equal(g1.ChainCode, g2.ChainCode) {
		return info, fmt.Errorf("grandchild mismatch (%v, %v)", err1, err2)
	}
	return info, nil
}

var retrySeed = []byte{0, 1, 2, 3, 4, 5, 6, 7, 8, 9, 10, 11, 12, 13, 14, 15}

func genDerive(t *rapid.T) deriveCase {
	if h.Pick(t, "retryvec", 7, 1) == 1 {
		// SLIP-0010 "derivation retry" vector for P-256: m/28578' -> index 33941 needs one retry
		c := deriveCase{Curve: "nist256p1", Seed: retrySeed, Path: []uint32{28578 | 1<<31}, Index: 33941, Retry: true}
		n := rapid.IntRange(1, 3).Draw(t, "nsib")
		for i := 0; i < n; i++ {
			c.Siblings = append(c.Siblings, h.OneOf(t, "sib", uint32(0), 1, 33940, 33942, rapid.Uint32Range(0, 1<<31-1).Draw(t, "sibr")))
		}
		if rapid.Bool().Draw(t, "retryfirst") {
			c.Index, c.Siblings[0] = c.Siblings[0], c.Index
		}
		return c
	}
	c := deriveCase{Curve: h.OneOf(t, "curve", "secp256k1", "nist256p1")}
	c.Seed = h.Bytes(t, "seed", 1, 64)
	n := rapid.IntRange(0, 3).Draw(t, "plen")
	for i := 0; i < n; i++ {
		c.Path = append(c.Path, rapid.Uint32().Draw(t, "pi"))
	}
	switch h.Pick(t, "ik", 3, 3) {
	case 0:
		c.Index = h.OneOf(t, "ic", uint32(0), 1, 2, 1<<31-1, 1<<31-2)
	default:
		c.Index = rapid.Uint32Range(0, 1<<31-1).Draw(t, "ir")
	}
	for i, n := 0, rapid.IntRange(0, 3).Draw(t, "nsib"); i < n; i++ {
		c.Siblings = append(c.Siblings, rapid.Uint32Range(0, 1<<31-1).Draw(t, "sib"))
	}
	return c
}

func TestDeriveCommutes(t *testing.T) {
	h.Run(t, h.Sub[deriveCase]{
		Prop: "C08", Name: "derive-commutes", N: 1200,
		Gen: genDerive, Check: checkDerive,
		Require: []string{"secp256k1/derive", "nist256p1/derive", "nist256p1/derive-with-retry"},
		Rule:    "parents = master of a random seed walked down 0..3 random indices, on secp256k1 and P-256; every non-hardened index (corners 0,1,2,2^31-1 and random): Public() of the private child = child of Public() parent in key bytes, chain code, fingerprint; also one level further; 1-4 siblings derived from the same parent object and compared afterwards with children of an independently built public parent; the official P-256 retry vector parent (index 33941 retries) with siblings before and after the retried derivation; all non-trivial; distinct by case",
	})
}

// ---- Shift level ----

type shiftCase struct {
	Curve  string `json:"curve"`
	Scalar h.B    `json:"scalar"` // private key k in [1, n-1] (32 bytes)
	Shift  h.B    `json:"shift"`  // 32-byte shift
	Corner string `json:"corner"`
}

func checkShift(c shiftCase) (h.Info, error) {
	cv, rc := curveOf(c.Curve)
	info := h.Info{Class: "shift/" + c.Corner, NT: c.Corner != "random<n"}
	k := new(big.Int).SetBytes(c.Scalar)
	if k.Sign() == 0 || k.Cmp(rc.N) >= 0 || len(c.Shift) != 32 || len(c.Scalar) != 32 {
		return info, fmt.Errorf("PRECONDITION: scalar/shift out of range")
	}
	priv, err := cv.NewPrivateKey(c.Scalar)
	if err != nil {
		return info, fmt.Errorf("NewPrivateKey(%x): %v", []byte(c.Scalar), err)
	}
	pub := priv.Public()
	// third opinion: (k + b mod n) G, invalid iff b >= n or k + b = 0 mod n
	b := new(big.Int).SetBytes(c.Shift)
	sum := new(big.Int).Add(k, b)
	sum.Mod(sum, rc.N)
	wantInvalid := b.Cmp(rc.N) >= 0 || sum.Sign() == 0
	if want := rc.Compressed(rc.BaseMul(k)); !bytes.Equal(pub.Bytes(), want) {
		return info, fmt.Errorf("Public() of %x = %x, reference %x", k, pub.Bytes(), want)
	}
	// one caller buffer holds the shift for both calls (I_L is computed once and used on both sides): it is
	// only read, and nothing that comes back lives in it
	shared := append(make([]byte, 0, 64), c.Shift...)
	ps, perr := priv.Shift(shared)
	if !bytes.Equal(shared, c.Shift) {
		return info, fmt.Errorf("k=%x shift=%x [%s]: private Shift changed the caller's shift bytes to %x", k, []byte(c.Shift), c.Corner, shared)
	}
	qs, qerr := pub.Shift(shared)
	if !bytes.Equal(shared, c.Shift) {
		return info, fmt.Errorf("k=%x shift=%x [%s]: public Shift changed the caller's shift bytes to %x", k, []byte(c.Shift), c.Corner, shared)
	}
	for i := range shared {
		shared[i] = 0xee
	}
	pInv, qInv := errors.Is(perr, slip10.ErrInvalidKey), errors.Is(qerr, slip10.ErrInvalidKey)
	if (perr != nil && !pInv) || (qerr != nil && !qInv) {
		return info, fmt.Errorf("Shift returned an error other than ErrInvalidKey: private %v, public %v", perr, qerr)
	}
	if pInv != qInv {
		return info, fmt.Errorf("k=%x shift=%x [%s]: private Shift invalid=%v but public Shift invalid=%v", k, b, c.Corner, pInv, qInv)
	}
	if pInv != wantInvalid {
		return info, fmt.Errorf("k=%x shift=%x [%s]: Shift reports invalid=%v, expected %v", k, b, c.Corner, pInv, wantInvalid)
	}
	if pInv {
		return info, nil // (what accompanies ErrInvalidKey is not prescribed)
	}
	want := rc.Compressed(rc.BaseMul(sum))
	if !bytes.Equal(ps.Public().Bytes(), qs.Bytes()) {
		return info, fmt.Errorf("k=%x shift=%x [%s]: public key of shifted private key %x != shifted public key %x", k, b, c.Corner, ps.Public().Bytes(), qs.Bytes())
	}
	if !bytes.Equal(qs.Bytes(), want) || !bytes.Equal(ps.Bytes(), sum.FillBytes(make([]byte, 32))) {
		return info, fmt.Errorf("k=%x shift=%x [%s]: results %x / %x, reference (k+b mod n) = %x, point %x", k, b, c.Corner, ps.Bytes(), qs.Bytes(), sum, want)
	}
	if !bytes.Equal(priv.Bytes(), c.Scalar) || !bytes.Equal(pub.Bytes(), rc.Compressed(rc.BaseMul(k))) {
		return info, fmt.Errorf("Shift modified its receiver")
	}
	return info, nil
}

var one = big.NewInt(1)

func scalarCorners(n *big.Int) []*big.Int {
	half := new(big.Int).Rsh(n, 1)
	return []*big.Int{big.NewInt(1), big.NewInt(2), new(big.Int).Sub(n, one), new(big.Int).Sub(n, big.NewInt(2)), half, new(big.Int).Add(half, one)}
}

type shiftCorner struct {
	name string
	f    func(k, n *big.Int) *big.Int
}

var max256 = new(big.Int).Sub(new(big.Int).Lsh(one, 256), one)

var shiftCorners = []shiftCorner{
	{"zero", func(k, n *big.Int) *big.Int { return new(big.Int) }},
	{"equal-scalar", func(k, n *big.Int) *big.Int { return new(big.Int).Set(k) }},
	{"negated-scalar", func(k, n *big.Int) *big.Int { return new(big.Int).Sub(n, k) }},
	{"negated+1", func(k, n *big.Int) *big.Int {
		return new(big.Int).Mod(new(big.Int).Add(new(big.Int).Sub(n, k), one), n)
	}},
	{"negated-1", func(k, n *big.Int) *big.Int {
		return new(big.Int).Mod(new(big.Int).Sub(new(big.Int).Sub(n, k), one), n)
	}},
	{"n", func(k, n *big.Int) *big.Int { return new(big.Int).Set(n) }},
	{"n+1", func(k, n *big.Int) *big.Int { return new(big.Int).Add(n, one) }},
	{"n-1", func(k, n *big.Int) *big.Int { return new(big.Int).Sub(n, one) }},
	{"2^256-1", func(k, n *big.Int) *big.Int { return new(big.Int).Set(max256) }},
	{"one", func(k, n *big.Int) *big.Int { return big.NewInt(1) }},
	// shift*G = +-lambda*(k*G): a point with the same (or the opposite) y and another x (on secp256k1, where
	// a cube root of unity mod n acts as (x, y) -> (beta*x, y); on P-256 just another scalar)
	{"lambda*k", func(k, n *big.Int) *big.Int { return new(big.Int).Mod(new(big.Int).Mul(cubeRootOfUnity(n, 1), k), n) }},
	{"lambda^2*k", func(k, n *big.Int) *big.Int { return new(big.Int).Mod(new(big.Int).Mul(cubeRootOfUnity(n, 2), k), n) }},
	{"-lambda*k", func(k, n *big.Int) *big.Int {
		v := new(big.Int).Mod(new(big.Int).Mul(cubeRootOfUnity(n, 1), k), n)
		return v.Sub(n, v).Mod(v, n)
	}},
}

var rootCache = map[string]*big.Int{}

// cubeRootOfUnity returns lambda^e for a non-trivial cube root of unity lambda mod n (n = 1 mod 3 for
// secp256k1; for an n where none exists it returns 2^e, an ordinary scalar).
func cubeRootOfUnity(n *big.Int, e int) *big.Int {
	key := fmt.Sprintf("%x/%d", n, e)
	if v, ok := rootCache[key]; ok {
		return v
	}
	l := big.NewInt(2)
	if new(big.Int).Mod(n, big.NewInt(3)).Cmp(one) == 0 {
		exp := new(big.Int).Div(new(big.Int).Sub(n, one), big.NewInt(3))
		for g := int64(2); ; g++ {
			l = new(big.Int).Exp(big.NewInt(g), exp, n)
			if l.Cmp(one) != 0 {
				break
			}
		}
	}
	v := new(big.Int).Exp(l, big.NewInt(int64(e)), n)
	rootCache[key] = v
	return v
}

func mkShift(curve string, k *big.Int, corner string, b *big.Int) shiftCase {
	return shiftCase{Curve: curve, Scalar: k.FillBytes(make([]byte, 32)), Shift: b.FillBytes(make([]byte, 32)), Corner: corner}
}

func genShift(t *rapid.T) shiftCase {
	curve := h.OneOf(t, "curve", "secp256k1", "nist256p1")
	_, rc := curveOf(curve)
	var k *big.Int
	if h.Pick(t, "kk", 2, 3) == 0 {
		cs := scalarCorners(rc.N)
		k = cs[rapid.IntRange(0, len(cs)-1).Draw(t, "kc")]
	} else {
		k = new(big.Int).SetBytes(rapid.SliceOfN(rapid.Byte(), 32, 32).Draw(t, "kr"))
		k.Mod(k, new(big.Int).Sub(rc.N, one))
		k.Add(k, one)
	}
	switch h.Pick(t, "bk", 5, 3, 1) {
	case 0:
		sc := shiftCorners[rapid.IntRange(0, len(shiftCorners)-1).Draw(t, "bc")]
		return mkShift(curve, k, sc.name, sc.f(k, rc.N))
	case 1:
		b := new(big.Int).SetBytes(rapid.SliceOfN(rapid.Byte(), 32, 32).Draw(t, "br"))
		b.Mod(b, rc.N)
		return mkShift(curve, k, "random<n", b)
	default:
		// random >= n: n + small or uniformly in [n, 2^256)
		span := new(big.Int).Sub(max256, rc.N)
		b := new(big.Int).SetBytes(rapid.SliceOfN(rapid.Byte(), 32, 32).Draw(t, "bo"))
		b.Mod(b, span).Add(b, rc.N)
		return mkShift(curve, k, "random>=n", b)
	}
}

func TestShift(t *testing.T) {
	req := []string{"shift/random<n", "shift/random>=n"}
	for _, sc := range shiftCorners {
		req = append(req, "shift/"+sc.name)
	}
	h.Run(t, h.Sub[shiftCase]{
		Prop: "C08", Name: "shift-commutes", N: 2400,
		Gen: genShift, Check: checkShift, Require: req,
		Rule: "private scalars k (corners 1,2,n-1,n-2,(n+-1)/2 and random) x 32-byte shifts (0, k, n-k, n-k+-1, n, n+1, n-1, 2^256-1, 1, +-lambda*k and lambda^2*k for the cube root of unity lambda mod n, random < n, random >= n) on secp256k1 and P-256: priv.Shift and priv.Public().Shift both report ErrInvalidKey or both succeed with matching keys, no panic; third opinion (k+b mod n)G from the affine reference; non-trivial = corner shift or shift >= n; distinct by case",
	})
}

func TestShiftCornerGrid(t *testing.T) {
	h.RunEnum(t, h.Enum[shiftCase]{
		Prop: "C08", Name: "shift-corner-grid",
		Rule: "complete grid: 2 curves x 6 corner scalars x 13 corner shifts",
		Each: func(yield func(shiftCase) bool) {
			for _, curve := range []string{"secp256k1", "nist256p1"} {
				_, rc := curveOf(curve)
				for _, k := range scalarCorners(rc.N) {
					for _, sc := range shiftCorners {
						if !yield(mkShift(curve, k, sc.name, sc.f(k, rc.N))) {
							return
						}
					}
				}
			}
		},
		Check: func(c shiftCase) (h.Info, error) {
			info, err := checkShift(c)
			info.NT = true
			return info, err
		},
	})
}

// ---- sequences of shifts through one reused caller buffer ----

type shiftSeq struct {
	Curve  string `json:"curve"`
	Scalar h.B    `json:"scalar"`
	Shifts []h.B  `json:"shifts"`
}

func checkShiftSeq(c shiftSeq) (h.Info, error) {
	cv, rc := curveOf(c.Curve)
	info := h.Info{Class: fmt.Sprintf("%s/shifts=%d", c.Curve, len(c.Shifts)), NT: len(c.Shifts) > 1}
	k := new(big.Int).SetBytes(c.Scalar)
	if k.Sign() == 0 || k.Cmp(rc.N) >= 0 || len(c.Scalar) != 32 {
		return info, fmt.Errorf("PRECONDITION: scalar out of range")
	}
	priv, err := cv.NewPrivateKey(c.Scalar)
	if err != nil {
		return info, fmt.Errorf("NewPrivateKey(%x): %v", []byte(c.Scalar), err)
	}
	pub := priv.Public()
	buf := make([]byte, 32) // the caller's one buffer, refilled for every call
	run := func(key slip10.Key) ([]res, error) {
		var out []res
		for _, sh := range c.Shifts {
			if len(sh) != 32 {
				return nil, fmt.Errorf("PRECONDITION: shift length")
			}
			copy(buf, sh)
			r, err := key.Shift(buf)
			if err != nil && !errors.Is(err, slip10.ErrInvalidKey) {
				return nil, fmt.Errorf("Shift(%x): error other than ErrInvalidKey: %v", []byte(sh), err)
			}
			if err != nil {
				out = append(out, res{nil, true})
			} else {
				out = append(out, res{append([]byte{}, r.Bytes()...), false})
			}
		}
		return out, nil
	}
	pubRes, err := run(pub) // all public shifts first, then all private ones
	if err != nil {
		return info, err
	}
	privRes, err := run(priv)
	if err != nil {
		return info, err
	}
	for i, sh := range c.Shifts {
		b := new(big.Int).SetBytes(sh)
		sum := new(big.Int).Add(k, b)
		sum.Mod(sum, rc.N)
		wantInv := b.Cmp(rc.N) >= 0 || sum.Sign() == 0
		if pubRes[i].inv != wantInv || privRes[i].inv != wantInv {
			return info, fmt.Errorf("k=%x, shift %d of %d through one reused buffer (%x): invalid private=%v public=%v, expected %v", k, i, len(c.Shifts), []byte(sh), privRes[i].inv, pubRes[i].inv, wantInv)
		}
		if wantInv {
			continue
		}
		want := rc.Compressed(rc.BaseMul(sum))
		if !bytes.Equal(pubRes[i].key, want) {
			return info, fmt.Errorf("k=%x, public Shift number %d of %d (shift %x, all passed through one caller buffer that is refilled between calls) = %x, (k+b mod n)G = %x", k, i, len(c.Shifts), []byte(sh), pubRes[i].key, want)
		}
		if !bytes.Equal(privRes[i].key, sum.FillBytes(make([]byte, 32))) {
			return info, fmt.Errorf("k=%x, private Shift number %d of %d (shift %x, reused caller buffer) = %x, k+b mod n = %x", k, i, len(c.Shifts), []byte(sh), privRes[i].key, sum)
		}
	}
	return info, nil
}

type res struct {
	key []byte
	inv bool
}

func TestShiftSequences(t *testing.T) {
	h.Run(t, h.Sub[shiftSeq]{
		Prop: "C08", Name: "shift-sequences", N: 500,
		Gen: func(t *rapid.T) shiftSeq {
			first := genShift(t)
			c := shiftSeq{Curve: first.Curve, Scalar: first.Scalar, Shifts: []h.B{first.Shift}}
			_, rc := curveOf(c.Curve)
			k := new(big.Int).SetBytes(c.Scalar)
			for i, n := 0, rapid.IntRange(1, 5).Draw(t, "n"); i < n; i++ {
				if h.Pick(t, "sk", 1, 2) == 0 {
					sc := shiftCorners[rapid.IntRange(0, len(shiftCorners)-1).Draw(t, "bc")]
					c.Shifts = append(c.Shifts, sc.f(k, rc.N).FillBytes(make([]byte, 32)))
				} else {
					c.Shifts = append(c.Shifts, h.BytesN(t, "b", 32))
				}
			}
			return c
		},
		Check:   checkShiftSeq,
		Require: []string{"secp256k1/shifts=2", "nist256p1/shifts=3", "secp256k1/shifts=6"},
		Rule:    "histories: one key, 2..6 shifts (corners and random) passed through ONE caller buffer that is refilled between calls; all public shifts first, then all private ones; every result = (k+b mod n) and its point from the affine reference; all non-trivial",
	})
}

// ---- concurrent derivations from one shared parent ----

type concCase struct {
	Curve   string   `json:"curve"`
	Seed    h.B      `json:"seed"`
	Path    []uint32 `json:"path"`
	Public  bool     `json:"public"`
	Indices []uint32 `json:"indices"`
	Iters   int      `json:"iters"`
}

func checkConcurrent(c concCase) (h.Info, error) {
	cv, _ := curveOf(c.Curve)
	info := h.Info{Class: fmt.Sprintf("%s/public=%v", c.Curve, c.Public), NT: len(c.Indices) > 1}
	mk := func() (*slip10.ExtendedKey, error) {
		p, err := slip10.DeriveKeyFromPath(c.Seed, cv, c.Path)
		if err == nil && c.Public {
			p = p.Public()
		}
		return p, err
	}
	type exp struct{ key, chain []byte }
	want := make([]exp, len(c.Indices))
	for i, idx := range c.Indices { // sequential expectations, each from its own parent object
		if idx >= slip10.Hardened {
			return info, fmt.Errorf("PRECONDITION: hardened index")
		}
		p, err := mk()
		if err != nil {
			return info, fmt.Errorf("parent derivation: %v", err)
		}
		k, err := p.DeriveChild(idx)
		if err != nil {
			return info, fmt.Errorf("DeriveChild(%d): %v", idx, err)
		}
		want[i] = exp{append([]byte{}, k.Public().Key.Bytes()...), append([]byte{}, k.ChainCode...)}
	}
	shared, err := mk()
	if err != nil {
		return info, err
	}
	err = h.Parallel(len(c.Indices), func(g int) error {
		for it := 0; it < c.Iters; it++ {
			k, err := shared.DeriveChild(c.Indices[g])
			if err != nil {
				return fmt.Errorf("goroutine %d: DeriveChild(%d): %v", g, c.Indices[g], err)
			}
			if got := k.Public().Key.Bytes(); !bytes.Equal(got, want[g].key) || !bytes.Equal(k.ChainCode, want[g].chain) {
				return fmt.Errorf("goroutine %d of %d deriving non-hardened children of one shared %s parent (public=%v), iteration %d: child %d has public key %x chain code %x; derived alone it has %x / %x", g, len(c.Indices), c.Curve, c.Public, it, c.Indices[g], got, k.ChainCode, want[g].key, want[g].chain)
			}
		}
		return nil
	})
	return info, err
}

func TestConcurrent(t *testing.T) {
	h.Run(t, h.Sub[concCase]{
		Prop: "C08", Name: "concurrent-children", N: 40,
		Gen: func(t *rapid.T) concCase {
			c := concCase{Curve: h.OneOf(t, "curve", "secp256k1", "nist256p1"), Seed: h.Bytes(t, "seed", 16, 64), Public: rapid.Bool().Draw(t, "pub"), Iters: 12}
			for i := rapid.IntRange(0, 2).Draw(t, "plen"); i > 0; i-- {
				c.Path = append(c.Path, rapid.Uint32().Draw(t, "pi"))
			}
			for i := h.OneOf(t, "g", 2, 4, 8); i > 0; i-- {
				c.Indices = append(c.Indices, rapid.Uint32Range(0, 1<<31-1).Draw(t, "idx"))
			}
			return c
		},
		Check:   checkConcurrent,
		Require: []string{"secp256k1/public=true", "secp256k1/public=false", "nist256p1/public=true", "nist256p1/public=false"},
		Rule:    "schedules: 2..8 goroutines released together, each repeatedly deriving its own non-hardened child from one shared extended key (private or public); each result = the same child derived alone from its own parent object; all non-trivial",
	})
}

// FuzzGenShift: the structured generator driven by Go's coverage-guided fuzzer (thorough tier).
func FuzzGenShift(f *testing.F) {
	h.FuzzSub(f, h.Sub[shiftCase]{Prop: "C08", Name: "shift-commutes", Gen: genShift, Check: checkShift})
}

// which public entry point is called first in a process (and by how many goroutines at once)
func TestFirstCalls(t *testing.T) { h.FirstCallsSub(t, "C08", fc.Secp256k1(), 6) }
