//go:build !purego

package c06

const buildVariant = "default"
