// C06 — batched Curl equals independent Curl-P-81 sponges, lane by lane (stateful).
package c06

import (
	"fmt"
	"testing"

	"github.com/iotaledger/iota.go/trinary"
	"github.com/wollac/iota-crypto-demo/pkg/curl"
	"pgregory.net/rapid"

	"verifharness/fc"
	"verifharness/h"
	ref "verifharness/ref/curl"
	"verifharness/ref/trit"
)

func TestMain(m *testing.M) {
	h.FirstCallsChild(fc.Curl()) // never returns in a first-call child process
	if err := trit.SelfCheck(); err != nil {
		panic(err)
	}
	if err := ref.SelfCheck(); err != nil {
		fmt.Println("VERIF-INFRA reference self-check failed:", err)
		panic(err)
	}
	h.Note("build variant: %s", buildVariant)
	h.Main(m)
}

// maxLanes: one lane per bit of the machine word (64 on amd64/arm64, 32 on 386/arm).
const maxLanes = curl.MaxBatchSize

// An op of the history. All trit material is a deterministic function of drawn values
// (Base, Mode, lane index), so a history is a small serialisable value.
type op struct {
	Kind   string `json:"kind"` // new, absorb, squeeze, clone, reset, bad-absorb, bad-squeeze
	Inst   int    `json:"inst"`
	N      int    `json:"n,omitempty"`      // new: batch size
	Blocks int    `json:"blocks,omitempty"` // absorb / squeeze: number of 243-trit blocks
	Mode   int    `json:"mode,omitempty"`   // absorb: 0 equal lanes, 1 single-trit differences, 2 all lanes different
	Base   []int8 `json:"base,omitempty"`   // absorb: Blocks*243 trits
	Split  []int  `json:"split,omitempty"`  // absorb: issue as several calls, cut after these block counts
	Lanes  int    `json:"lanes,omitempty"`  // squeeze: number of lanes requested (<= n)
	Bad    string `json:"bad,omitempty"`    // bad-*: "size0", "size65", "length"
	// squeeze: what the caller passes as dst: 0 a fresh slice of nil entries, 1 the same slice it passed
	// to this instance's previous squeezes (entries still holding the earlier results, which the caller
	// keeps), 2 entries that are adjacent 243-trit windows of one large buffer
	Dst int `json:"dst,omitempty"`
}

type history struct {
	Ops []op `json:"ops"`
}

// laneInput derives lane j's trits from the base block(s).
func laneInput(base []int8, mode, j int) []int8 {
	out := make([]int8, len(base))
	copy(out, base)
	switch mode {
	case 1: // lane j differs from the base in exactly one trit
		if j > 0 && len(out) > 0 {
			p := (j * 37) % len(out)
			out[p] = int8((int(out[p])+1+1)%3) - 1
		}
	case 2: // every lane different in many positions
		for i := range out {
			out[i] = int8((int(out[i])+1+(i*(j+1)+j*j)%3)%3) - 1
		}
	}
	return out
}

// runInput: lanes grouped in runs of three equal lanes counted from the LAST lane (so that the last run ends
// at lane n-1); the lanes of a run are handed to Absorb as one and the same slice
func runInput(base []int8, n, j int) []int8 {
	return laneInput(base, 1, (n-1-j)/3)
}

type inst struct {
	c     *curl.Curl
	n     int
	model []*ref.Sponge
	dst   []trinary.Trits // the caller's long-lived dst slice (Dst mode 1)
	held  []heldOut       // results of earlier squeezes the caller still holds
}

type heldOut struct {
	step int
	lane int
	got  trinary.Trits
	want []int8
}

func (in *inst) cloneModel() []*ref.Sponge {
	out := make([]*ref.Sponge, len(in.model))
	for i, s := range in.model {
		cp := *s
		out[i] = &cp
	}
	return out
}

// compareState decodes the bit-sliced state lane by lane and compares it with the model.
func compareState(where string, in *inst) error {
	var l, hh [curl.StateSize]uint
	in.c.CopyState(l[:], hh[:])
	for j := 0; j < in.n; j++ {
		for i := 0; i < curl.StateSize; i++ {
			lb, hb := int8(l[i]>>uint(j)&1), int8(hh[i]>>uint(j)&1)
			if lb == 0 && hb == 0 {
				return fmt.Errorf("%s: lane %d state[%d] has the undefined bit pair (0,0)", where, j, i)
			}
			if got := hb - lb; got != in.model[j].S[i] {
				return fmt.Errorf("%s: lane %d state[%d] = %d, independent sponge has %d", where, j, i, got, in.model[j].S[i])
			}
		}
	}
	return nil
}

func checkHistory(hist history) (h.Info, error) {
	var insts []*inst
	var absorbed, squeezed, multiLane, split, multiSqueeze, cloned, resetReuse, rejected, dstReuse, aliased bool
	for step, o := range hist.Ops {
		where := fmt.Sprintf("step %d (%s inst %d)", step, o.Kind, o.Inst)
		if o.Kind == "new" {
			if o.N < 1 || o.N > maxLanes {
				return h.Info{}, fmt.Errorf("PRECONDITION: batch size %d", o.N)
			}
			in := &inst{c: curl.NewCurlP81(), n: o.N}
			for j := 0; j < o.N; j++ {
				in.model = append(in.model, &ref.Sponge{})
			}
			insts = append(insts, in)
			if err := compareState(where, in); err != nil {
				return h.Info{}, err
			}
			continue
		}
		if o.Inst < 0 || o.Inst >= len(insts) {
			return h.Info{}, fmt.Errorf("PRECONDITION: instance %d", o.Inst)
		}
		in := insts[o.Inst]
		switch o.Kind {
		case "absorb":
			if len(o.Base) != o.Blocks*ref.Rate {
				return h.Info{}, fmt.Errorf("PRECONDITION: base length")
			}
			if in.model[0].Squeezing {
				return h.Info{}, fmt.Errorf("PRECONDITION: absorb after squeeze is a documented panic, not generated")
			}
			src := make([]trinary.Trits, in.n)
			for j := range src {
				if o.Mode == 3 {
					src[j] = runInput(o.Base, in.n, j)
				} else {
					src[j] = laneInput(o.Base, o.Mode, j)
				}
			}
			// issue as one or several calls
			cuts := append(append([]int{}, o.Split...), o.Blocks)
			prev := 0
			for _, cut := range cuts {
				if cut < prev || cut > o.Blocks {
					return h.Info{}, fmt.Errorf("PRECONDITION: split")
				}
				part := make([]trinary.Trits, in.n)
				for j := range part {
					if o.Mode == 3 && j > 0 && (in.n-1-j)/3 == (in.n-j)/3 {
						part[j] = part[j-1] // same run: the very same slice (a caller hashing one message in several lanes)
						continue
					}
					part[j] = append(trinary.Trits{}, src[j][prev*ref.Rate:cut*ref.Rate]...)
				}
				if err := in.c.Absorb(part, (cut-prev)*ref.Rate); err != nil {
					return h.Info{}, fmt.Errorf("%s: Absorb(%d lanes, %d trits): %v", where, in.n, (cut-prev)*ref.Rate, err)
				}
				for j := range part { // inputs must not be modified
					for i := range part[j] {
						if part[j][i] != src[j][prev*ref.Rate+i] {
							return h.Info{}, fmt.Errorf("%s: Absorb modified its input", where)
						}
					}
				}
				prev = cut
			}
			for j := 0; j < in.n; j++ {
				in.model[j].Absorb(src[j])
			}
			if o.Blocks > 0 {
				absorbed = true
				if in.n >= 2 && o.Mode != 0 {
					multiLane = true
				}
				if o.Mode == 3 && in.n >= 2 {
					aliased = true
				}
				if len(o.Split) > 0 {
					split = true
				}
			}
		case "squeeze":
			if o.Lanes < 1 || o.Lanes > in.n {
				return h.Info{}, fmt.Errorf("PRECONDITION: lanes")
			}
			dst := make([]trinary.Trits, o.Lanes)
			switch o.Dst {
			case 1:
				if in.dst == nil {
					in.dst = make([]trinary.Trits, maxLanes)
				}
				dst = in.dst[:o.Lanes]
			case 2:
				big := make(trinary.Trits, (o.Lanes+4)*ref.Rate)
				for j := range dst {
					dst[j] = big[j*ref.Rate : (j+1)*ref.Rate]
				}
			}
			if err := in.c.Squeeze(dst, o.Blocks*ref.Rate); err != nil {
				return h.Info{}, fmt.Errorf("%s: Squeeze: %v", where, err)
			}
			// the model squeezes every lane (the state of all lanes advances)
			for j := 0; j < in.n; j++ {
				want := in.model[j].Squeeze(o.Blocks * ref.Rate)
				if j >= o.Lanes {
					continue
				}
				if len(dst[j]) != len(want) {
					return h.Info{}, fmt.Errorf("%s: lane %d squeezed %d trits, want %d", where, j, len(dst[j]), len(want))
				}
				for i := range want {
					if dst[j][i] != want[i] {
						return h.Info{}, fmt.Errorf("%s: lane %d of %d, output trit %d = %d, the Curl-P-81 sponge on lane %d's input alone gives %d (dst mode %d)", where, j, in.n, i, dst[j][i], j, want[i], o.Dst)
					}
				}
				if o.Dst == 1 && o.Blocks > 0 && (j == 0 || j == o.Lanes-1) {
					in.held = append(in.held, heldOut{step, j, dst[j], want})
				}
			}
			// results of earlier squeezes that the caller still holds are untouched by this one
			for _, ho := range in.held {
				for i := range ho.want {
					if ho.got[i] != ho.want[i] {
						return h.Info{}, fmt.Errorf("%s: the slice returned for lane %d by the squeeze of step %d (the caller passed the same dst slice again and kept the earlier results) now has trit %d = %d, it was %d", where, ho.lane, ho.step, i, ho.got[i], ho.want[i])
					}
				}
			}
			if o.Dst != 0 && o.Blocks > 0 {
				dstReuse = true
			}
			// the returned lane slices are independent: extending one in place must not change another
			if o.Lanes >= 2 && o.Blocks > 0 {
				snap := make([]trinary.Trits, o.Lanes)
				for j := range dst {
					snap[j] = append(trinary.Trits{}, dst[j]...)
				}
				for j := range dst {
					dst[j] = append(dst[j], 1, -1, 1, -1, 1, -1, 1, -1)
				}
				for j := range dst {
					for i := range snap[j] {
						if dst[j][i] != snap[j][i] {
							return h.Info{}, fmt.Errorf("%s: appending to the squeezed slice of another lane changed lane %d trit %d (lanes share storage)", where, j, i)
						}
					}
				}
			}
			if o.Blocks > 0 {
				squeezed = true
			}
			if o.Blocks > 1 {
				multiSqueeze = true
			}
		case "clone":
			cl := &inst{c: in.c.Clone(), n: in.n, model: in.cloneModel()}
			insts = append(insts, cl)
			cloned = true
			if err := compareState(where+" [clone]", cl); err != nil {
				return h.Info{}, err
			}
		case "reset":
			in.c.Reset()
			// a reset instance is like a new one: it may be used with another batch size
			if o.N >= 1 && o.N <= maxLanes {
				in.n = o.N
				in.model = make([]*ref.Sponge, in.n)
				in.held = nil
			}
			for j := range in.model {
				in.model[j] = &ref.Sponge{}
			}
			if absorbed {
				resetReuse = true
			}
		case "bad-absorb", "bad-squeeze":
			var l0, h0, l1, h1 [curl.StateSize]uint
			in.c.CopyState(l0[:], h0[:])
			var err error
			size, count := in.n, ref.Rate
			switch o.Bad {
			case "size0":
				size = 0
			case "size65":
				size = maxLanes + 1
			case "length":
				count = ref.Rate + 1 + o.Blocks // not a multiple of 243
			case "shortlane":
				count = 2 * ref.Rate // one lane holds a single block only
			default:
				return h.Info{}, fmt.Errorf("PRECONDITION: bad kind")
			}
			bufs := make([]trinary.Trits, size)
			for j := range bufs {
				bufs[j] = make(trinary.Trits, 2*ref.Rate)
				for i := range bufs[j] {
					bufs[j][i] = int8((i+j)%3) - 1
				}
			}
			shortPanicked := false
			if o.Bad == "shortlane" {
				// lanes of unequal length are outside the statement's domain; today the call panics. Should
				// it instead be REJECTED WITH AN ERROR, the statement's last clause applies: state untouched.
				bufs[size-1] = bufs[size-1][:ref.Rate]
				func() {
					defer func() {
						if recover() != nil {
							shortPanicked = true
						}
					}()
					err = in.c.Absorb(bufs, count)
				}()
				if shortPanicked || err == nil {
					// a panic, or acceptance, of an out-of-domain call: nothing is prescribed, and the
					// instance is in no defined state any more: the history ends here
					return h.Info{Class: "history/out-of-domain-call-ends-history"}, nil
				}
			} else if o.Kind == "bad-absorb" {
				// on a squeezing instance the call is rejected either by the argument validation (an
				// error) or by the documented "absorb after squeeze" panic; the statement fixes no order
				// between the two, only that the state is untouched
				func() {
					defer func() {
						if r := recover(); r != nil {
							if in.model[0].Squeezing {
								err = fmt.Errorf("panic: %v", r)
								return
							}
							panic(r)
						}
					}()
					err = in.c.Absorb(bufs, count)
				}()
			} else {
				err = in.c.Squeeze(bufs, count)
			}
			if err == nil {
				return h.Info{}, fmt.Errorf("%s: call with %s accepted", where, o.Bad)
			}
			in.c.CopyState(l1[:], h1[:])
			if l0 != l1 || h0 != h1 {
				return h.Info{}, fmt.Errorf("%s: rejected call (%v) changed the state", where, err)
			}
			rejected = true
		default:
			return h.Info{}, fmt.Errorf("PRECONDITION: op kind %q", o.Kind)
		}
		// invariant after every step: every instance equals its own model, lane by lane
		for k, x := range insts {
			if err := compareState(fmt.Sprintf("%s, instance %d", where, k), x); err != nil {
				return h.Info{}, err
			}
		}
	}
	info := h.Info{Class: "history/plain", NT: absorbed && squeezed && multiLane}
	switch {
	case aliased:
		info.Class = "history/lanes-sharing-one-slice"
	case dstReuse:
		info.Class = "history/caller-supplied-dst"
	case rejected:
		info.Class = "history/rejected-call"
	case cloned && absorbed:
		info.Class = "history/clone"
	case resetReuse:
		info.Class = "history/reset-reuse"
	case split:
		info.Class = "history/split-absorb"
	case multiSqueeze:
		info.Class = "history/multi-block-squeeze"
	}
	return info, nil
}

func genHistory(t *rapid.T) history {
	type abs struct {
		n         int
		squeezing bool
	}
	var st []abs
	var ops []op
	newInst := func() {
		var n int
		switch h.Pick(t, "nk", 2, 2, 2, 2, 4) {
		case 0:
			n = 1
		case 1:
			n = 2
		case 2:
			n = maxLanes - 1
		case 3:
			n = maxLanes
		default:
			n = rapid.IntRange(1, maxLanes).Draw(t, "n")
		}
		st = append(st, abs{n: n})
		ops = append(ops, op{Kind: "new", Inst: len(st) - 1, N: n})
	}
	newInst()
	steps := rapid.IntRange(2, 12).Draw(t, "steps")
	for s := 0; s < steps; s++ {
		i := rapid.IntRange(0, len(st)-1).Draw(t, "inst")
		kind := h.Pick(t, "op", 8, 8, 2, 2, 1, 1, 1)
		if s == 0 && h.Pick(t, "absorbfirst", 1, 4) == 1 {
			kind = 0 // most histories start by absorbing something
		}
		if kind == 0 && st[i].squeezing {
			kind = 1
		}
		switch kind {
		case 0:
			k := h.Pick(t, "blocks", 1, 6, 3, 1)
			if h.Pick(t, "longabsorb", 60, 1) == 1 { // many blocks in one call (more than one 8019-trit transaction)
				k = h.OneOf(t, "longblocks", 32, 33, 34, 35, 66, 67, 100)
			}
			o := op{Kind: "absorb", Inst: i, Blocks: k, Mode: h.Pick(t, "mode", 2, 4, 8, 3)}
			o.Base = make([]int8, k*ref.Rate)
			fill := h.Pick(t, "fill", 8, 2, 2, 3)
			for x := range o.Base {
				switch fill {
				case 3: // zero blocks except for one of the first or last three trits of the block
					o.Base[x] = 0
					if pos := x % ref.Rate; pos == (x/ref.Rate*7+k)%3 || pos == ref.Rate-1-(x/ref.Rate+k)%3 {
						if (x/ref.Rate+pos)%2 == 0 {
							o.Base[x] = int8(1 - 2*((x/ref.Rate)%2))
						}
					}
				case 0:
					o.Base[x] = int8(rapid.IntRange(-1, 1).Draw(t, "trit"))
				case 1:
					o.Base[x] = 0
				default:
					o.Base[x] = int8(x%3) - 1
				}
			}
			if k >= 2 && rapid.Bool().Draw(t, "split") {
				o.Split = []int{rapid.IntRange(0, k).Draw(t, "cut")}
			}
			ops = append(ops, o)
		case 1:
			blocks := h.Pick(t, "sblocks", 1, 6, 2, 1)
			if st[i].n <= 4 && h.Pick(t, "longsqueeze", 60, 1) == 1 { // hundreds of squeezed blocks on one instance
				blocks = h.OneOf(t, "lsq", 255, 256, 257, 258, 300, 513)
			}
			lanes := st[i].n
			if !rapid.Bool().Draw(t, "alllanes") {
				lanes = rapid.IntRange(1, st[i].n).Draw(t, "lanes")
			}
			ops = append(ops, op{Kind: "squeeze", Inst: i, Blocks: blocks, Lanes: lanes, Dst: h.Pick(t, "dst", 5, 2, 1)})
			if blocks > 0 { // a 0-block squeeze does not change the direction
				st[i].squeezing = true
			}
		case 2:
			if len(st) < 4 {
				st = append(st, st[i])
				ops = append(ops, op{Kind: "clone", Inst: i})
			}
		case 3:
			st[i].squeezing = false
			o := op{Kind: "reset", Inst: i}
			if rapid.Bool().Draw(t, "newn") { // reuse with another batch size
				o.N = h.OneOf(t, "resetn", 1, 2, 3, 7, maxLanes-1, maxLanes, rapid.IntRange(1, maxLanes).Draw(t, "resetnany"))
				st[i].n = o.N
			}
			ops = append(ops, o)
		case 4:
			if len(st) < 4 {
				newInst()
			}
		case 5: // also on a squeezing instance: rejected (by error or by the documented panic), state untouched
			bad := h.OneOf(t, "bad", "size0", "size65", "length", "shortlane")
			if bad == "shortlane" && st[i].squeezing {
				bad = "length"
			}
			ops = append(ops, op{Kind: "bad-absorb", Inst: i, Bad: bad, Blocks: rapid.IntRange(0, 200).Draw(t, "extra")})
		default:
			ops = append(ops, op{Kind: "bad-squeeze", Inst: i, Bad: h.OneOf(t, "bad", "size0", "size65", "length"), Blocks: rapid.IntRange(0, 200).Draw(t, "extra")})
		}
	}
	return history{Ops: ops}
}

func TestHistories(t *testing.T) {
	h.Run(t, h.Sub[history]{
		Prop: "C06", Name: "histories-" + buildVariant, N: 1600,
		Gen: genHistory, Check: checkHistory,
		Require: []string{"history/lanes-sharing-one-slice", "history/clone", "history/reset-reuse", "history/rejected-call", "history/split-absorb", "history/multi-block-squeeze", "history/caller-supplied-dst"},
		Rule:    "histories of 2..12 calls (lanes optionally in runs of three handed over as one shared slice; zero blocks except a first or last trit; one squeeze in sixty of 255..513 blocks) over up to 4 instances (batch sizes weighted to 1, 2, W-1, W, where W = lanes per machine word of the build target: 64, or 32 for the GOARCH=386 variant): Absorb of 0..3 blocks (equal lanes / single-trit differences / all lanes different, optionally split across calls), Squeeze of 0..3 blocks into 1..n lanes (dst: fresh, the caller's long-lived slice still holding earlier results that must stay intact, or adjacent windows of one buffer), Clone, Reset (optionally followed by use with another batch size), occasional absorbs of 32..100 blocks in one call, rejected calls (batch size 0 / W+1, length not a multiple of 243); after every step the bit-sliced state of every instance decoded lane by lane must equal n independent scalar Curl-P-81 sponges and squeezed output = the lane's own sponge; non-trivial = >= 1 absorbed block, >= 1 squeezed block and >= 2 different lanes; distinct by history",
	})
}

// ---- tens of thousands of absorbed blocks on one instance, then Reset and a fresh hash ----

func TestManyBlocksThenReset(t *testing.T) {
	type manyCase struct {
		Blocks int `json:"blocks"`
	}
	h.RunEnum(t, h.Enum[manyCase]{
		Prop: "C06", Name: "many-blocks-then-reset-" + buildVariant,
		Rule: "one instance absorbs 65535 / 65536 / 65537 blocks (in calls of 4096 blocks), is Reset and then hashes a fresh one-block message in two lanes: the digest equals the reference hash of that message alone (a count of absorbed blocks kept in 16 bits wraps here); the three counts go to three shards, i.e. to the three build variants; all non-trivial",
		Each: func(yield func(manyCase) bool) {
			for _, n := range []int{65536, 65537, 65535} {
				if !yield(manyCase{n}) {
					return
				}
			}
		},
		Check: func(c manyCase) (h.Info, error) {
			info := h.Info{Class: "many-blocks", NT: true}
			cu := curl.NewCurlP81()
			chunk := make(trinary.Trits, 4096*ref.Rate)
			for i := range chunk {
				chunk[i] = int8((i*7+i/243)%3) - 1
			}
			for left := c.Blocks; left > 0; {
				k := 4096
				if left < k {
					k = left
				}
				if err := cu.Absorb([]trinary.Trits{chunk[:k*ref.Rate]}, k*ref.Rate); err != nil {
					return info, err
				}
				left -= k
			}
			cu.Reset()
			msg := make(trinary.Trits, ref.Rate)
			for i := range msg {
				msg[i] = int8((i*5+c.Blocks)%3) - 1
			}
			other := append(trinary.Trits{}, msg...)
			other[7] = -other[7] + 0
			if other[7] == msg[7] {
				other[7] = 1
			}
			if err := cu.Absorb([]trinary.Trits{msg, other}, ref.Rate); err != nil {
				return info, err
			}
			dst := make([]trinary.Trits, 2)
			if err := cu.Squeeze(dst, ref.Rate); err != nil {
				return info, err
			}
			for j, m := range []trinary.Trits{msg, other} {
				want := ref.Hash(m)
				for i := range want {
					if dst[j][i] != want[i] {
						return info, fmt.Errorf("[%s build] after %d absorbed blocks and Reset, the hash of a fresh one-block message (lane %d) differs from Curl-P-81 at trit %d: %d, reference %d", buildVariant, c.Blocks, j, i, dst[j][i], want[i])
					}
				}
			}
			return info, nil
		},
	})
}

// ---- concurrent use of independent instances ----

type job struct {
	N       int    `json:"n"`
	Blocks  int    `json:"blocks"`
	Mode    int    `json:"mode"`
	Base    []int8 `json:"base"`
	Squeeze int    `json:"squeeze"`
}

type concCase struct {
	Jobs  []job `json:"jobs"`
	Iters int   `json:"iters"`
}

func checkConcurrent(c concCase) (h.Info, error) {
	info := h.Info{Class: fmt.Sprintf("goroutines=%d", len(c.Jobs)), NT: len(c.Jobs) > 1}
	srcs := make([][]trinary.Trits, len(c.Jobs))
	wants := make([][][]int8, len(c.Jobs))
	for g, jb := range c.Jobs { // expectations from the scalar model, sequentially, beforehand
		if jb.N < 1 || jb.N > maxLanes || len(jb.Base) != jb.Blocks*ref.Rate || jb.Squeeze < 1 {
			return info, fmt.Errorf("PRECONDITION: job")
		}
		for j := 0; j < jb.N; j++ {
			in := laneInput(jb.Base, jb.Mode, j)
			srcs[g] = append(srcs[g], in)
			sp := &ref.Sponge{}
			sp.Absorb(in)
			wants[g] = append(wants[g], sp.Squeeze(jb.Squeeze*ref.Rate))
		}
	}
	err := h.Parallel(len(c.Jobs), func(g int) error {
		jb := c.Jobs[g]
		proto := curl.NewCurlP81()
		for it := 0; it < c.Iters; it++ {
			cu := proto
			if it%2 == 1 {
				cu = proto.Clone() // own instances: a fresh one, or a clone of this goroutine's pristine prototype
			} else {
				cu = curl.NewCurlP81()
			}
			if err := cu.Absorb(srcs[g], jb.Blocks*ref.Rate); err != nil {
				return fmt.Errorf("goroutine %d: Absorb: %v", g, err)
			}
			dst := make([]trinary.Trits, jb.N)
			if err := cu.Squeeze(dst, jb.Squeeze*ref.Rate); err != nil {
				return fmt.Errorf("goroutine %d: Squeeze: %v", g, err)
			}
			for j := range dst {
				for i := range wants[g][j] {
					if dst[j][i] != wants[g][j][i] {
						return fmt.Errorf("goroutine %d of %d (each with its own Curl instances), iteration %d: lane %d of %d, output trit %d = %d, the scalar Curl-P-81 sponge gives %d", g, len(c.Jobs), it, j, jb.N, i, dst[j][i], wants[g][j][i])
					}
				}
			}
		}
		return nil
	})
	return info, err
}

func TestConcurrent(t *testing.T) {
	h.Run(t, h.Sub[concCase]{
		Prop: "C06", Name: "concurrent-instances-" + buildVariant, N: 64,
		Gen: func(t *rapid.T) concCase {
			c := concCase{Iters: 150}
			for i := h.OneOf(t, "g", 2, 4, 8); i > 0; i-- {
				jb := job{N: h.OneOf(t, "n", 1, 2, 8, maxLanes), Blocks: rapid.IntRange(1, 3).Draw(t, "b"), Mode: rapid.IntRange(0, 2).Draw(t, "mode"), Squeeze: rapid.IntRange(1, 2).Draw(t, "s")}
				jb.Base = make([]int8, jb.Blocks*ref.Rate)
				seed := rapid.IntRange(0, 1<<30).Draw(t, "seed")
				for x := range jb.Base {
					seed = (seed*1103515245 + 12345) & 0x7fffffff
					jb.Base[x] = int8(seed>>16)%3 - 1
					if jb.Base[x] < -1 {
						jb.Base[x] += 3
					}
				}
				c.Jobs = append(c.Jobs, jb)
			}
			return c
		},
		Check:   checkConcurrent,
		Require: []string{"goroutines=2", "goroutines=8"},
		Rule:    "schedules: 2..8 goroutines released together, each hashing its own input with its own instances (fresh or cloned; 1..W lanes, 1..3 absorbed and 1..2 squeezed blocks) 150 times; every lane = the scalar Curl-P-81 sponge computed beforehand; all non-trivial",
	})
}

// FuzzGenHistories: the structured generator driven by Go's coverage-guided fuzzer (thorough tier).
func FuzzGenHistories(f *testing.F) {
	h.FuzzSub(f, h.Sub[history]{Prop: "C06", Name: "histories-" + buildVariant, Gen: genHistory, Check: checkHistory})
}

// which public entry point is called first in a process (and by how many goroutines at once)
func TestFirstCalls(t *testing.T) { h.FirstCallsSub(t, "C06", fc.Curl(), 6) }
