// C13 — PoW Mine terminates, honours cancellation and is race- and leak-free (built with -race).
package c13

import (
	"bytes"
	"context"
	"crypto"
	_ "crypto/md5"
	_ "crypto/sha1"
	_ "crypto/sha256"
	"encoding/binary"
	"errors"
	"fmt"
	"math"
	"runtime"
	"strings"
	"sync"
	"testing"
	"time"

	pow1 "github.com/wollac/iota-crypto-demo/pkg/pow"
	pow2 "github.com/wollac/iota-crypto-demo/pkg/pow/v2"
	"pgregory.net/rapid"

	_ "golang.org/x/crypto/blake2s"
	_ "golang.org/x/crypto/ripemd160"

	"verifharness/fc"
	"verifharness/h"
)

func TestMain(m *testing.M) {
	h.FirstCallsChild(fc.Pow()) // never returns in a first-call child process
	h.Main(m)
}

const (
	hangBound = 45 * time.Second // Mine must return within this after the context is cancelled (expected: milliseconds)
	leakBound = 5 * time.Second
)

type runCase struct {
	Version int    `json:"version"` // 1 or 2
	Workers int    `json:"workers"`
	Procs   int    `json:"gomaxprocs"`
	Target  string `json:"target"` // every-lane, easy, moderate, unattainable
	Cancel  string `json:"cancel"` // never, before, delay, race
	DelayUs int    `json:"delay_us"`
	Spins   int    `json:"spins"`
	Data    h.B    `json:"data"`
	Hash    uint   `json:"hash,omitempty"` // PoW v1 only: crypto.Hash to install in pow.Hash for this call (0 = default)
	Ctx     string `json:"ctx,omitempty"`  // kind of context handed to Mine: "" (context.WithCancel), background, foreign, foreign-yield, child, cause, far-deadline, far-deadline-parent
}

// foreignCtx is a context.Context that is not one of the standard library's types (the context package
// takes a slower path with an extra goroutine when somebody derives a context from it, and nothing can be
// learnt from its dynamic type). Done creates its channel lazily like the standard ones; with yield set,
// Done and Err hand the processor to other goroutines first, which moves the instant at which Mine's
// goroutines learn about the context relative to the workers.
type foreignCtx struct {
	mu    sync.Mutex
	ch    chan struct{}
	err   error
	yield bool
}

func (c *foreignCtx) Deadline() (time.Time, bool) { return time.Time{}, false }
func (c *foreignCtx) Value(any) any               { return nil }
func (c *foreignCtx) Done() <-chan struct{} {
	if c.yield {
		runtime.Gosched()
	}
	c.mu.Lock()
	defer c.mu.Unlock()
	if c.ch == nil {
		c.ch = make(chan struct{})
		if c.err != nil {
			close(c.ch)
		}
	}
	return c.ch
}
func (c *foreignCtx) Err() error {
	if c.yield {
		runtime.Gosched()
	}
	c.mu.Lock()
	defer c.mu.Unlock()
	return c.err
}
func (c *foreignCtx) cancel() {
	c.mu.Lock()
	defer c.mu.Unlock()
	if c.err == nil {
		c.err = context.Canceled
		if c.ch != nil {
			close(c.ch)
		}
	}
}

func msgOf(data []byte, nonce uint64) []byte {
	var nb [8]byte
	binary.LittleEndian.PutUint64(nb[:], nonce)
	return append(append([]byte{}, data...), nb[:]...)
}

func powGoroutines() (int, string) {
	buf := make([]byte, 1<<20)
	n := runtime.Stack(buf, true)
	dump := string(buf[:n])
	cnt := 0
	for _, g := range strings.Split(dump, "\n\n") {
		// goroutines with a pkg/pow frame, and the context package's forwarding goroutines: the harness never
		// derives a context from its own non-standard context type, so such a goroutine can only stem from a
		// derivation made inside Mine (it lives until that derived context or the caller's context ends)
		if strings.Contains(g, "iota-crypto-demo/pkg/pow") || strings.Contains(g, "context.(*cancelCtx).propagateCancel") {
			cnt++
		}
	}
	return cnt, dump
}

type result struct {
	nonce uint64
	err   error
}

func checkRun(c runCase) (h.Info, error) {
	if c.Workers < 1 || c.Procs < 1 {
		return h.Info{}, fmt.Errorf("PRECONDITION: workers/procs")
	}
	attainable := c.Target != "unattainable" && c.Target != "unattainable-max"
	if !attainable && c.Cancel == "never" {
		return h.Info{}, fmt.Errorf("PRECONDITION: unattainable target without cancellation")
	}
	info := h.Info{Class: fmt.Sprintf("v%d/%s/%s", c.Version, c.Target, c.Cancel), NT: c.Workers >= 2 && (c.Cancel != "never" || c.Target == "every-lane")}
	old := runtime.GOMAXPROCS(c.Procs)
	defer runtime.GOMAXPROCS(old)
	curSub, curCase = subName, c
	defer releaseContexts()
	elapsed, err := mineAndJudge(c)
	if err != nil {
		return info, err
	}
	return info, awaitNoGoroutines(fmt.Sprintf("Mine (v%d, %d workers, %s, cancel=%s)", c.Version, c.Workers, c.Target, c.Cancel), elapsed)
}

// mineAndJudge runs one Mine call as described by c (GOMAXPROCS is the caller's business) and checks
// termination and the result contract.
func mineAndJudge(c runCase) (time.Duration, error) {
	attainable := c.Target != "unattainable" && c.Target != "unattainable-max"
	var info h.Info

	ell := float64(len(c.Data) + 8)
	var t1 float64
	var t2 uint64
	switch c.Target {
	case "every-lane":
		t1, t2 = 1/ell, 0 // v1: zero trailing zeros needed; v2: the trivial target
		if c.Version == 2 {
			t2 = 1 // smallest non-trivial v2 target; found in the very first batches
		}
	case "easy":
		t1, t2 = 9/ell, uint64(27/ell)+1
	case "moderate":
		t1, t2 = math.Pow(3, 8)/ell, uint64(math.Pow(3, 8)/ell)
	case "unattainable":
		t1, t2 = math.Pow(3, 60)/ell, math.MaxUint64/uint64(ell)-1
	case "unattainable-max": // the largest target of the domain: len * target = 2^64-1 exactly when len divides it
		t1, t2 = math.Pow(3, 60)/ell, math.MaxUint64/uint64(ell)
	default:
		return 0, fmt.Errorf("PRECONDITION: target class")
	}

	// the context of an uncancelled call stays uncancelled until the caller has counted goroutines:
	// a goroutine that Mine leaves waiting for the context is a leak although it would end with it
	if c.Hash != 0 && c.Version == 1 {
		if !crypto.Hash(c.Hash).Available() || crypto.Hash(c.Hash).Size() > 32 {
			return 0, fmt.Errorf("PRECONDITION: hash %d", c.Hash)
		}
		old := pow1.Hash
		pow1.Hash = crypto.Hash(c.Hash)
		defer func() { pow1.Hash = old }()
	}
	ctx, cancel := context.WithCancel(context.Background())
	switch c.Ctx {
	case "":
	case "background": // a context that can never be cancelled: Done() returns a nil channel
		if c.Cancel != "never" {
			cancel()
			return 0, fmt.Errorf("PRECONDITION: background context with cancellation")
		}
		ctx = context.Background()
	case "foreign", "foreign-yield":
		if c.Cancel == "deadline" {
			cancel()
			return 0, fmt.Errorf("PRECONDITION: foreign context with deadline")
		}
		fc := &foreignCtx{yield: c.Ctx == "foreign-yield"}
		ctx, cancel = fc, fc.cancel
	case "child": // a grandchild carrying values: cancellation reaches it through two parents
		type key struct{}
		mid, cancelMid := context.WithCancel(context.WithValue(ctx, key{}, 1))
		pendingCancels = append(pendingCancels, cancelMid)
		ctx = context.WithValue(mid, key{}, 2)
	case "far-deadline": // a context that carries a deadline an hour away and is cancelled by its owner long before
		var cancelFar context.CancelFunc
		ctx, cancelFar = context.WithTimeout(ctx, time.Hour)
		inner := cancel
		cancel = func() { cancelFar(); inner() }
	case "far-deadline-parent": // ... or through its parent, the deadline context's own cancel function unused
		var cancelFar context.CancelFunc
		ctx, cancelFar = context.WithDeadline(ctx, time.Now().Add(time.Hour))
		pendingCancels = append(pendingCancels, cancelFar)
	case "cause": // cancelled with a cause: Err() is still context.Canceled, Cause is the caller's business
		var cc context.CancelCauseFunc
		ctx, cc = context.WithCancelCause(ctx)
		inner := cancel
		cancel = func() { cc(errors.New("harness: cause")); inner() }
	default:
		cancel()
		return 0, fmt.Errorf("PRECONDITION: context kind %q", c.Ctx)
	}
	pendingCancels = append(pendingCancels, cancel)
	cancelled := make(chan struct{})
	doCancel := func() { cancel(); close(cancelled) }
	switch c.Cancel {
	case "before":
		doCancel()
	case "delay":
		go func() { time.Sleep(time.Duration(c.DelayUs) * time.Microsecond); doCancel() }()
	case "deadline":
		// the context ends by its deadline (ctx.Err() == DeadlineExceeded), nobody calls cancel
		var cancel2 context.CancelFunc
		ctx, cancel2 = context.WithTimeout(ctx, time.Duration(c.DelayUs)*time.Microsecond)
		pendingCancels = append(pendingCancels, cancel2)
		go func() { <-ctx.Done(); close(cancelled) }()
	case "race":
		go func() {
			// yield a drawn number of times, but never longer than 20 ms in total: with GOMAXPROCS = 1
			// every yield hands a whole time slice to each busy worker
			t0 := time.Now()
			for i := 0; i < c.Spins && time.Since(t0) < 20*time.Millisecond; i++ {
				runtime.Gosched()
			}
			doCancel()
		}()
	case "never":
	default:
		return 0, fmt.Errorf("PRECONDITION: cancel mode")
	}

	// data is the front part of a larger buffer of the caller; the bytes behind it are the caller's and
	// are read by another goroutine of the caller while Mine runs (a write to them by Mine is a data race,
	// which the race detector reports, and is also seen by comparing them afterwards)
	const tailLen = 24
	store := make([]byte, len(c.Data)+tailLen)
	copy(store, c.Data)
	for i := len(c.Data); i < len(store); i++ {
		store[i] = 0xa5 ^ byte(i)
	}
	data := store[:len(c.Data)]
	tailSum := make(chan int, 1)
	go func() {
		sum := 0
		for _, b := range store[len(c.Data):] {
			sum += int(b)
		}
		tailSum <- sum
	}()
	done := make(chan result, 1)
	start := time.Now()
	go func() {
		var r result
		if c.Version == 1 {
			r.nonce, r.err = worker1(c.Workers).Mine(ctx, data, t1)
		} else {
			r.nonce, r.err = worker2(c.Workers).Mine(ctx, data, t2)
		}
		done <- r
	}()

	var r result
	if c.Cancel == "never" {
		select {
		case r = <-done:
		case <-time.After(4 * hangBound):
			_, dump := powGoroutines()
			h.FailAndExit("C13", curSub, curCase, fmt.Errorf("Mine (v%d, %d workers, %s target, no cancellation) did not return within %v\n%s", c.Version, c.Workers, c.Target, 4*hangBound, dump))
		}
	} else {
		// wait for the result; once the context is cancelled Mine has hangBound to return
		select {
		case r = <-done:
		case <-cancelled:
			select {
			case r = <-done:
			case <-time.After(hangBound):
				_, dump := powGoroutines()
				h.FailAndExit("C13", curSub, curCase, fmt.Errorf("Mine (v%d, %d workers, GOMAXPROCS %d, %s target) did not return within %v after the context was cancelled (%s)\n%s", c.Version, c.Workers, c.Procs, c.Target, hangBound, c.Cancel, dump))
			}
		}
	}
	elapsed := time.Since(start)
	<-tailSum
	if !bytes.Equal(store[:len(c.Data)], c.Data) {
		return elapsed, fmt.Errorf("Mine v%d modified the caller's data (%d bytes)", c.Version, len(c.Data))
	}
	for i := len(c.Data); i < len(store); i++ {
		if store[i] != 0xa5^byte(i) {
			return elapsed, fmt.Errorf("Mine v%d (%d workers, %s target) wrote to the caller's memory behind data (data is the first %d bytes of a %d-byte buffer; byte %d changed): an unsynchronised write to memory the caller uses concurrently", c.Version, c.Workers, c.Target, len(c.Data), len(store), i)
		}
	}

	// result contract
	switch {
	case r.err == nil:
		ok := false
		if c.Version == 1 {
			ok = pow1.Score(msgOf(c.Data, r.nonce)) >= t1
		} else {
			ok = pow2.Score(msgOf(c.Data, r.nonce)) >= t2
		}
		if !ok {
			return elapsed, fmt.Errorf("Mine v%d (%d workers, %s, cancel=%s) returned nonce %d without error but it does not meet the target", c.Version, c.Workers, c.Target, c.Cancel, r.nonce)
		}
	case errors.Is(r.err, pow1.ErrCancelled) || errors.Is(r.err, pow2.ErrCancelled):
		if ctx.Err() == nil {
			return elapsed, fmt.Errorf("Mine v%d returned the cancellation error although the context was never cancelled (%d workers, GOMAXPROCS %d, %s target)", c.Version, c.Workers, runtime.GOMAXPROCS(0), c.Target)
		}
	default:
		return elapsed, fmt.Errorf("Mine v%d returned unexpected error %v", c.Version, r.err)
	}
	if !attainable && r.err == nil {
		return elapsed, fmt.Errorf("harness self-check: unattainable target was attained")
	}
	_ = info
	return elapsed, nil
}

// contexts of the calls made since the last goroutine count (released after it)
var pendingCancels []context.CancelFunc

func releaseContexts() {
	for _, c := range pendingCancels {
		c()
	}
	pendingCancels = nil
}

// awaitNoGoroutines: every goroutine Mine started has finished or finishes immediately.
func awaitNoGoroutines(what string, elapsed time.Duration) error {
	defer releaseContexts()
	deadline := time.Now().Add(leakBound)
	for {
		n, dump := powGoroutines()
		if n == 0 {
			return nil
		}
		if time.Now().After(deadline) {
			return fmt.Errorf("%d goroutine(s) started by %s are still alive %v after it returned (took %v)\n%s", n, what, leakBound, elapsed, dump)
		}
		time.Sleep(2 * time.Millisecond)
	}
}

// ---- histories: calls back to back on the same Workers ----

type seqCase struct {
	Procs int       `json:"gomaxprocs"`
	Steps []runCase `json:"steps"`
}

func checkSeq(c seqCase) (h.Info, error) {
	if c.Procs < 1 || len(c.Steps) == 0 {
		return h.Info{}, fmt.Errorf("PRECONDITION: sequence")
	}
	old := runtime.GOMAXPROCS(c.Procs)
	defer runtime.GOMAXPROCS(old)
	info := h.Info{Class: fmt.Sprintf("sequence/procs=%d", c.Procs), NT: true}
	curSub, curCase = "back-to-back-sequences", c
	defer releaseContexts()
	afterCancelled := false
	var total time.Duration
	for i, st := range c.Steps {
		if (st.Target == "unattainable" || st.Target == "unattainable-max") && st.Cancel == "never" {
			return info, fmt.Errorf("PRECONDITION: unattainable target without cancellation")
		}
		if i > 0 && c.Steps[i-1].Cancel != "never" && st.Cancel == "never" {
			afterCancelled = true
		}
		el, err := mineAndJudge(st) // no pause between calls: whatever the previous call left running is still around
		total += el
		if err != nil {
			return info, fmt.Errorf("call %d of %d issued back to back (GOMAXPROCS %d; previous calls: %s): %w", i, len(c.Steps), c.Procs, describe(c.Steps[:i]), err)
		}
	}
	if afterCancelled {
		info.Class += "/uncancelled-after-cancelled"
	}
	return info, awaitNoGoroutines(fmt.Sprintf("a sequence of %d Mine calls (%s)", len(c.Steps), describe(c.Steps)), total)
}

func describe(steps []runCase) string {
	var parts []string
	for _, s := range steps {
		parts = append(parts, fmt.Sprintf("v%d/%dw/%s/%s", s.Version, s.Workers, s.Target, s.Cancel))
	}
	return strings.Join(parts, ", ")
}

func TestSequences(t *testing.T) {
	h.Run(t, h.Sub[seqCase]{
		Prop: "C13", Name: "back-to-back-sequences", N: 120,
		Gen: func(t *rapid.T) seqCase {
			c := seqCase{Procs: h.OneOf(t, "procs", 1, 1, 2, 4, 16)}
			for i, n := 0, rapid.IntRange(2, 5).Draw(t, "n"); i < n; i++ {
				st := genRun(t)
				st.Procs = c.Procs
				if rapid.Bool().Draw(t, "samev") && i > 0 {
					st.Version = c.Steps[0].Version
				}
				if i > 0 && c.Steps[i-1].Cancel != "never" && h.Pick(t, "follow", 1, 2) == 1 {
					// an uncancelled call that takes a while right after a cancelled one
					st.Cancel, st.Target = "never", h.OneOf(t, "ft", "moderate", "moderate", "easy")
				}
				c.Steps = append(c.Steps, st)
			}
			return c
		},
		Check:   checkSeq,
		Require: []string{"sequence/procs=1/uncancelled-after-cancelled", "sequence/procs=16/uncancelled-after-cancelled"},
		Rule:    "histories: 2..5 Mine calls (any mix of versions, worker counts, targets and cancellation modes of the single-call sub-check) issued back to back with no pause, under GOMAXPROCS {1,2,4,16}, weighted to an uncancelled call of some duration right after a cancelled one; every call meets the result contract on its own (in particular: the cancellation error only if ITS context was cancelled); no pkg/pow goroutine alive 5 s after the last call; built with -race; all non-trivial",
	})
}

// many successful calls in one process: resources that are acquired per call and released on some
// paths only run out eventually
type manyCase struct {
	Version int    `json:"version"`
	Workers int    `json:"workers"`
	Calls   int    `json:"calls"`
	Target  string `json:"target"`
}

func TestManyCalls(t *testing.T) {
	h.Run(t, h.Sub[manyCase]{
		Prop: "C13", Name: "many-successful-calls", N: 8, MaxN: 400,
		Gen: func(t *rapid.T) manyCase {
			return manyCase{Version: rapid.IntRange(1, 2).Draw(t, "version"), Workers: h.OneOf(t, "workers", 1, 4, 8), Calls: h.OneOf(t, "calls", 300, 400, 600), Target: h.OneOf(t, "target", "every-lane", "easy")}
		},
		Check: func(c manyCase) (h.Info, error) {
			info := h.Info{Class: fmt.Sprintf("v%d/%d-calls", c.Version, c.Calls), NT: true}
			curSub, curCase = "many-successful-calls", c
			defer releaseContexts()
			var total time.Duration
			for i := 0; i < c.Calls; i++ {
				el, err := mineAndJudge(runCase{Version: c.Version, Workers: c.Workers, Procs: runtime.GOMAXPROCS(0), Target: c.Target, Cancel: "never", Data: []byte{byte(i), byte(i >> 8)}})
				total += el
				if err != nil {
					return info, fmt.Errorf("call %d of %d successive uncancelled calls (v%d, %d workers, %s target): %w", i, c.Calls, c.Version, c.Workers, c.Target, err)
				}
			}
			return info, awaitNoGoroutines(fmt.Sprintf("%d successive Mine calls (v%d, %d workers)", c.Calls, c.Version, c.Workers), total)
		},
		Rule: "histories: 300..600 successive uncancelled Mine calls with a trivially easy target (1, 4 or 8 workers, both versions) in one process: every call returns a qualifying nonce in bounded time (a call that does not return within 180 s is reported with a goroutine dump), no goroutine left; all non-trivial",
	})
}

var subName = "runs"

// the sub-check and case in progress (a hang is reported from inside mineAndJudge with the whole case)
var (
	curSub  = subName
	curCase any
)

// Worker objects are reused from run to run (no state may survive a call, cancelled or not)
var w1 = map[int]*pow1.Worker{}
var w2 = map[int]*pow2.Worker{}

func worker1(n int) *pow1.Worker {
	if w1[n] == nil {
		w1[n] = pow1.New(n)
	}
	return w1[n]
}

func worker2(n int) *pow2.Worker {
	if w2[n] == nil {
		w2[n] = pow2.New(n)
	}
	return w2[n]
}

func genRun(t *rapid.T) runCase {
	c := runCase{
		Version: rapid.IntRange(1, 2).Draw(t, "version"),
		Workers: h.OneOf(t, "workers", 1, 2, 3, 4, 8, 16, 32, 64, 3, 5, 6, 7, 12),
		Procs:   h.OneOf(t, "procs", 1, 2, 4, 16),
		Data:    h.Bytes(t, "data", 0, 40),
	}
	if h.Pick(t, "longdata", 5, 1) == 1 { // messages far longer than a digest or a Curl block: the target scales with the length
		c.Data = h.BytesN(t, "ldata", h.OneOf(t, "ldlen", 100, 300, 1000, 2000, 5000))
	}
	c.Target = []string{"every-lane", "easy", "moderate", "unattainable"}[h.Pick(t, "target", 3, 3, 2, 3)]
	if c.Target == "unattainable" && h.Pick(t, "maxprod", 3, 1) == 1 {
		// message lengths that divide 2^64-1 = 3*5*17*257*641*65537*6700417, with the quotient as target
		c.Target = "unattainable-max"
		c.Data = h.BytesN(t, "mdata", h.OneOf(t, "mlen", 15, 17, 51, 85, 255, 257, 641)-8)
	}
	if c.Target == "unattainable" || c.Target == "unattainable-max" {
		c.Cancel = []string{"before", "delay", "race", "deadline"}[h.Pick(t, "cancel", 1, 3, 2, 2)]
	} else {
		c.Cancel = []string{"never", "before", "delay", "race", "deadline"}[h.Pick(t, "cancel", 2, 1, 2, 4, 1)]
	}
	// the digest function is a package-level setting of PoW v1: shorter digests move the nonce inside the block
	if c.Version == 1 && h.Pick(t, "hash", 4, 1) == 1 {
		c.Hash = uint(h.OneOf(t, "hashid", crypto.SHA1, crypto.MD5, crypto.SHA224, crypto.RIPEMD160, crypto.SHA256, crypto.BLAKE2s_256))
	}
	// the kind of context: Mine may only rely on the context.Context interface
	switch h.Pick(t, "ctxkind", 5, 1, 2, 2, 1, 1, 2, 1) {
	case 6:
		c.Ctx = "far-deadline"
	case 7:
		c.Ctx = "far-deadline-parent"
	case 1:
		if c.Cancel == "never" {
			c.Ctx = "background"
		}
	case 2:
		if c.Cancel != "deadline" {
			c.Ctx = "foreign"
		}
	case 3:
		if c.Cancel != "deadline" {
			c.Ctx = "foreign-yield"
		}
	case 4:
		c.Ctx = "child"
	case 5:
		c.Ctx = "cause"
	}
	c.DelayUs = rapid.IntRange(0, 5000).Draw(t, "delay")
	c.Spins = rapid.IntRange(0, 3000).Draw(t, "spins")
	return c
}

func TestRuns(t *testing.T) {
	h.Run(t, h.Sub[runCase]{
		Prop: "C13", Name: subName, N: 320,
		Gen: genRun, Check: checkRun,
		Require: []string{"v1/every-lane/race", "v2/every-lane/race", "v1/unattainable/delay", "v2/unattainable/delay", "v1/moderate/race", "v2/moderate/race", "v1/easy/before", "v2/easy/never"},
		Rule:    "configurations {v1, v2} x workers {1,2,3,4,5,6,7,8,12,16,32,64} x GOMAXPROCS {1,2,4,16} x data {0..40 bytes, one in six 100..5000 bytes} x target {every lane qualifies, easy, moderate (~3^8 hashes), unattainable, the largest target of the domain (length x target = 2^64-1 exactly)} x cancellation {never, before the call, after 0..5 ms, racing with the find after 0..3000 scheduler yields, by a context deadline} x context kind {context.WithCancel, context.Background (nil Done channel), a context type of the harness (lazily created Done channel; optionally yielding the processor inside Done and Err), a value-carrying grandchild, cancel-with-cause, a context with a deadline one hour away that is cancelled by its own cancel function or through its parent} x (v1) digest function {default, SHA-1, MD5, SHA-224, RIPEMD-160, SHA-256, BLAKE2s}; data handed over as the front part of a larger caller buffer whose tail another goroutine of the caller reads meanwhile (must stay untouched); (err == nil and Score >= target) or (cancellation error and ctx cancelled); returns within 45 s of cancellation (expected ms); no goroutine with a pkg/pow frame (nor a context-forwarding goroutine of a context derived inside Mine) alive 5 s after return; binary built with -race (any report is a violation); non-trivial = >= 2 workers and (cancellation used or every-lane target); distinct by configuration",
	})
}

// which public entry point is called first in a process (and by how many goroutines at once)
func TestFirstCalls(t *testing.T) { h.FirstCallsSub(t, "C13", fc.Pow(), 6) }
