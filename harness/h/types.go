package h

import (
	"encoding/hex"
	"encoding/json"
	"strconv"

	"pgregory.net/rapid"
)

// S is a byte-exact string: JSON form is the Go-quoted (ASCII) literal, so
// invalid UTF-8 and control bytes survive a replay file unchanged.
type S string

func (s S) MarshalJSON() ([]byte, error) {
	return json.Marshal(strconv.QuoteToASCII(string(s)))
}

func (s *S) UnmarshalJSON(b []byte) error {
	var q string
	if err := json.Unmarshal(b, &q); err != nil {
		return err
	}
	u, err := strconv.Unquote(q)
	if err != nil {
		return err
	}
	*s = S(u)
	return nil
}

// B is a byte string with a hex JSON form.
type B []byte

func (b B) MarshalJSON() ([]byte, error) { return json.Marshal(hex.EncodeToString(b)) }

func (b *B) UnmarshalJSON(in []byte) error {
	var q string
	if err := json.Unmarshal(in, &q); err != nil {
		return err
	}
	u, err := hex.DecodeString(q)
	if err != nil {
		return err
	}
	*b = u
	return nil
}

// mix64 is the splitmix64 finaliser: spreads a drawn (small-biased) value over the whole range.
func mix64(x uint64) uint64 {
	x += 0x9e3779b97f4a7c15
	x = (x ^ (x >> 30)) * 0xbf58476d1ce4e5b9
	x = (x ^ (x >> 27)) * 0x94d049bb133111eb
	return x ^ (x >> 31)
}

// Uniform draws an integer in lo..hi with (nearly) equal probability for every value. rapid's own
// integer and slice generators are deliberately biased towards small values and short lengths
// (measured: SliceOfN(Byte(), 0, 100) is shorter than 10 in 84% of the draws and practically never
// longer than 40; IntRange(0, 100) is below 10 in 42%), which starves anything that depends on a
// particular larger length; this spreads a drawn 64-bit value with a fixed bijection instead.
func Uniform(t *rapid.T, label string, lo, hi int) int {
	if hi <= lo {
		return lo
	}
	return lo + int(mix64(rapid.Uint64().Draw(t, label))%uint64(hi-lo+1))
}

// Bytes draws a byte string of length lo..hi: the length is uniform over the range in two draws out
// of three and rapid's (short-biased, boundary-biased) choice otherwise; the content is rapid's
// (small-value-biased) bytes or, every other time, uniformly distributed bytes expanded from one drawn
// seed.
func Bytes(t *rapid.T, label string, lo, hi int) B {
	n := lo
	if hi > lo {
		if Pick(t, label+"/lenkind", 2, 1) == 0 {
			n = Uniform(t, label+"/len", lo, hi)
		} else {
			n = rapid.IntRange(lo, hi).Draw(t, label+"/len")
		}
	}
	if n > 0 && rapid.Bool().Draw(t, label+"/uniform") {
		s := rapid.Uint64().Draw(t, label+"/seed")
		b := make(B, n)
		for i := 0; i < n; i += 8 {
			s = mix64(s)
			for j := 0; j < 8 && i+j < n; j++ {
				b[i+j] = byte(s >> (8 * uint(j)))
			}
		}
		return b
	}
	return B(rapid.SliceOfN(rapid.Byte(), n, n).Draw(t, label))
}

// BytesN draws exactly n bytes.
func BytesN(t *rapid.T, label string, n int) B { return Bytes(t, label, n, n) }

// Pick draws an index into a weight table (weights are small positive ints).
func Pick(t *rapid.T, label string, weights ...int) int {
	total := 0
	for _, w := range weights {
		total += w
	}
	x := rapid.IntRange(0, total-1).Draw(t, label)
	for i, w := range weights {
		if x < w {
			return i
		}
		x -= w
	}
	return len(weights) - 1
}

// OneOf draws one of the given values uniformly.
func OneOf[T any](t *rapid.T, label string, vs ...T) T {
	return vs[rapid.IntRange(0, len(vs)-1).Draw(t, label)]
}
