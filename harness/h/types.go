package h

import (
	"encoding/hex"
	"encoding/json"
	"strconv"

	"pgregory.net/rapid"
)

// S is a byte-exact string: JSON form is the Go-quoted (ASCII) literal, so
// invalid UTF-8 and control bytes survive a replay file unchanged.
type S string

func (s S) MarshalJSON() ([]byte, error) {
	return json.Marshal(strconv.QuoteToASCII(string(s)))
}

func (s *S) UnmarshalJSON(b []byte) error {
	var q string
	if err := json.Unmarshal(b, &q); err != nil {
		return err
	}
	u, err := strconv.Unquote(q)
	if err != nil {
		return err
	}
	*s = S(u)
	return nil
}

// B is a byte string with a hex JSON form.
type B []byte

func (b B) MarshalJSON() ([]byte, error) { return json.Marshal(hex.EncodeToString(b)) }

func (b *B) UnmarshalJSON(in []byte) error {
	var q string
	if err := json.Unmarshal(in, &q); err != nil {
		return err
	}
	u, err := hex.DecodeString(q)
	if err != nil {
		return err
	}
	*b = u
	return nil
}

// Bytes draws a byte string of length lo..hi.
func Bytes(t *rapid.T, label string, lo, hi int) B {
	return B(rapid.SliceOfN(rapid.Byte(), lo, hi).Draw(t, label))
}

// BytesN draws exactly n bytes.
func BytesN(t *rapid.T, label string, n int) B { return Bytes(t, label, n, n) }

// Pick draws an index into a weight table (weights are small positive ints).
func Pick(t *rapid.T, label string, weights ...int) int {
	total := 0
	for _, w := range weights {
		total += w
	}
	x := rapid.IntRange(0, total-1).Draw(t, label)
	for i, w := range weights {
		if x < w {
			return i
		}
		x -= w
	}
	return len(weights) - 1
}

// OneOf draws one of the given values uniformly.
func OneOf[T any](t *rapid.T, label string, vs ...T) T {
	return vs[rapid.IntRange(0, len(vs)-1).Draw(t, label)]
}
