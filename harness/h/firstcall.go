package h

import (
	"encoding/json"
	"fmt"
	"os"
	"strings"
	"testing"
	"time"

	"pgregory.net/rapid"
)

// First calls: which public entry point of a library package is called FIRST in a process (and which
// second, third) is a dimension of every property that no sub-check running inside one long-lived test
// process can vary: after the first case everything has been initialised. A package that builds tables
// or parses constants lazily is right only if every entry point triggers the initialisation.
//
// A property lists its entry points as EntryPoint values: a function of a seed that calls the library
// with an input derived from the seed, judges the result with the property's reference and returns a
// description of the disagreement ("" = fine). FirstCallsSub draws an order of two to four entry points,
// a seed and a number of goroutines, and re-executes the test binary; the fresh process (FirstCallsChild,
// from TestMain) calls the first entry point from that many goroutines at once, then the others in order.

type EntryPoint struct {
	Name string
	Call func(seed uint64) string
	// Serial: the entry point changes a process-wide setting of the library (such as the selected word
	// list) whose concurrent modification no property covers; as a first call it is made by one goroutine.
	Serial bool
}

type firstCallCase struct {
	Order      []int    `json:"order"` // indices into the entry point list
	Names      []string `json:"names"`
	Seed       uint64   `json:"seed"`
	Goroutines int      `json:"goroutines"`
}

const firstCallEnv = "VERIF_FIRSTCALL"

// FirstCallsChild runs the job if this process is a first-call child; it never returns in that case.
func FirstCallsChild(entries []EntryPoint) {
	spec, ok := ChildSpec(firstCallEnv)
	if !ok {
		return
	}
	var c firstCallCase
	if err := json.Unmarshal([]byte(spec), &c); err != nil || len(c.Order) == 0 {
		fmt.Println("CHILD-BADSPEC", err)
		os.Exit(3)
	}
	for _, i := range c.Order {
		if i < 0 || i >= len(entries) {
			fmt.Println("CHILD-BADSPEC index")
			os.Exit(3)
		}
	}
	g := c.Goroutines
	if g < 1 {
		g = 1
	}
	first := entries[c.Order[0]]
	if first.Serial {
		g = 1
	}
	msgs := make([]string, g)
	if err := Parallel(g, func(i int) error {
		msgs[i] = first.Call(c.Seed | uint64(i)<<44)
		return nil
	}); err != nil {
		fmt.Printf("CHILD-MISMATCH %s as the first call into the package in a fresh process (%d goroutine(s) at once): %v\n", first.Name, g, err)
		os.Exit(0)
	}
	for i, m := range msgs {
		if m != "" {
			fmt.Printf("CHILD-MISMATCH %s as the first call into the package in a fresh process (goroutine %d of %d at once, seed %d): %s\n", first.Name, i, g, c.Seed|uint64(i)<<44, m)
			os.Exit(0)
		}
	}
	done := []string{first.Name}
	for k, i := range c.Order[1:] {
		if m := entries[i].Call(c.Seed | uint64(100+k)<<44); m != "" {
			fmt.Printf("CHILD-MISMATCH %s in a fresh process after the calls %v (seed %d): %s\n", entries[i].Name, done, c.Seed|uint64(100+k)<<44, m)
			os.Exit(0)
		}
		done = append(done, entries[i].Name)
	}
	fmt.Println("CHILD-OK")
	os.Exit(0)
}

// FirstCallsSub is the sub-check "first-calls-in-a-fresh-process" of property prop.
func FirstCallsSub(t *testing.T, prop string, entries []EntryPoint, n int) {
	names := make([]string, len(entries))
	for i, e := range entries {
		names[i] = e.Name
	}
	Run(t, Sub[firstCallCase]{
		Prop: prop, Name: "first-calls-in-a-fresh-process", N: n, MaxN: 600,
		Gen: func(t *rapid.T) firstCallCase {
			c := firstCallCase{Seed: rapid.Uint64Range(0, 1<<40).Draw(t, "seed"), Goroutines: OneOf(t, "g", 1, 1, 2, 8)}
			for k, m := 0, rapid.IntRange(2, 4).Draw(t, "calls"); k < m; k++ {
				c.Order = append(c.Order, rapid.IntRange(0, len(entries)-1).Draw(t, "entry"))
			}
			for _, i := range c.Order {
				c.Names = append(c.Names, names[i])
			}
			return c
		},
		Check: func(c firstCallCase) (Info, error) {
			if len(c.Order) == 0 {
				return Info{}, fmt.Errorf("PRECONDITION: empty order")
			}
			for _, i := range c.Order {
				if i < 0 || i >= len(entries) {
					return Info{}, fmt.Errorf("PRECONDITION: entry index")
				}
			}
			info := Info{Class: "first=" + names[c.Order[0]], NT: true}
			spec, _ := json.Marshal(c)
			out, timedOut, err := RunChild(firstCallEnv, string(spec), 120*time.Second)
			switch {
			case strings.Contains(out, "CHILD-OK"):
				return info, nil
			case strings.Contains(out, "CHILD-MISMATCH"):
				return info, fmt.Errorf("%s", strings.TrimSpace(out[strings.Index(out, "CHILD-MISMATCH")+15:]))
			case timedOut:
				return info, fmt.Errorf("PRECONDITION: child process timed out (infrastructure)")
			case strings.Contains(out, "panic:") || strings.Contains(out, "fatal error:"):
				return info, fmt.Errorf("fresh process calling %v (the first from %d goroutine(s) at once, seed %d): the process crashed: %.700s", c.Names, c.Goroutines, c.Seed, out)
			default:
				return info, fmt.Errorf("PRECONDITION: child process could not run (infrastructure): %v %.300s", err, out)
			}
		},
		Rule: fmt.Sprintf("histories from process start: a fresh process (the test binary re-executed) whose first call into the library is a drawn public entry point out of %v, made by 1, 2 or 8 goroutines at once, followed by 1..3 further drawn entry points; every result is judged by the property's reference inside the child; a crash of the child is a finding; all non-trivial; distinct by (order, seed, goroutines)", names),
	})
}
