package h

import (
	"context"
	"os"
	"os/exec"
	"time"
)

// ChildSpec returns the job description when this test binary was re-executed as a child process for
// the sub-check identified by key (see RunChild); TestMain calls the job and exits.
func ChildSpec(key string) (string, bool) {
	s := os.Getenv(key)
	return s, s != ""
}

// RunChild re-executes the running test binary with the job description in the environment variable
// key and no tests selected: a fresh process in which the code under test has never run, so that
// first-use behaviour (lazily built tables, one-time initialisation) can be observed under contention.
// The deadline belongs to the parent.
func RunChild(key, spec string, timeout time.Duration) (out string, timedOut bool, err error) {
	ctx, cancel := context.WithTimeout(context.Background(), timeout)
	defer cancel()
	cmd := exec.CommandContext(ctx, os.Args[0], "-test.run", "^$")
	cmd.Env = append(os.Environ(), key+"="+spec)
	b, err := cmd.CombinedOutput()
	return string(b), ctx.Err() != nil, err
}
