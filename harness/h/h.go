// Package h is the shared driver layer of the verification harness: it runs a
// property (generator + oracle over a plain serialisable case) under
// pgregory.net/rapid, records evidence (evaluations, class histogram, distinct
// non-trivial case hashes, samples), writes a shrunk replay file on failure and
// replays such files without rapid.
//
// One test binary per property; a property has one or more named sub-checks.
// Flags (all set by /verif/check):
//
//	-verif.part=<file>    evidence part file (JSON) to write; <file>.h holds the raw hashes
//	-verif.scale=<float>  multiplies every sub-check's base case count
//	-verif.shard=i/n      shard index / shard count (enumerations are split i mod n)
//	-verif.replay=<file>  replay this file (no rapid), exit status = verdict
//	-verif.replaydir=<d>  where failing cases are written
//	-verif.sub=<regexp>   only run matching sub-checks
package h

import (
	"encoding/binary"
	"encoding/json"
	"flag"
	"fmt"
	"hash/fnv"
	"math/bits"
	"os"
	"path/filepath"
	"regexp"
	"runtime/debug"
	"sort"
	"strconv"
	"strings"
	"sync"
	"testing"
	"time"

	"pgregory.net/rapid"
)

var (
	flagPart      = flag.String("verif.part", "", "evidence part file")
	flagScale     = flag.Float64("verif.scale", 1, "case count multiplier")
	flagShard     = flag.String("verif.shard", "0/1", "shard i/n")
	flagReplay    = flag.String("verif.replay", "", "replay file")
	flagReplayDir = flag.String("verif.replaydir", "", "directory for replay files of failing cases")
	flagSub       = flag.String("verif.sub", "", "regexp selecting sub-checks")
	flagTier      = flag.String("verif.tier", "quick", "tier name (quick|thorough)")
)

// Info classifies one evaluated case.
type Info struct {
	Class string // histogram bucket
	NT    bool   // non-trivial by the property's stated rule
}

// Sub is one sub-check of a property over case type C.
type Sub[C any] struct {
	Prop string // property id, e.g. "C10"
	Name string // sub-check name
	// N is the number of rapid cases in the quick tier at scale 1 (summed over shards).
	N int
	// MaxN caps the number of cases summed over shards whatever the scale (0 = no cap): for sub-checks
	// whose cases are expensive (child processes), so that the thorough tier stays bounded.
	MaxN  int
	Gen   func(t *rapid.T) C
	Check func(c C) (Info, error)
	// Require lists classes that must have been hit at least once (vacuity guard).
	Require []string
	// Rule is the human-readable non-triviality rule for the evidence file.
	Rule string
}

// Enum is an exhaustively enumerated sub-check: Each is called with an emit
// function for every element of a finite space; shard i of n should handle the
// elements with index%n == i (helper Mine).
type Enum[C any] struct {
	Prop, Name string
	Rule       string
	Each       func(yield func(c C) bool)
	Check      func(c C) (Info, error)
	Require    []string
	// Tier restricts the enumeration to a tier ("" = both).
	Tier string
}

type subRec struct {
	Evaluations int64             `json:"evaluations"`
	NonTrivial  int64             `json:"nontrivial_evaluations"`
	Classes     map[string]int64  `json:"classes"`
	Samples     []json.RawMessage `json:"samples"`
	Require     []string          `json:"require"`
	Rule        string            `json:"rule"`
	Exhaustive  bool              `json:"exhaustive"`
	Requested   int               `json:"requested"`
	Passed      bool              `json:"passed"`
	WallS       float64           `json:"wall_s"`
	samplePer   map[string]int
}

type recorder struct {
	mu     sync.Mutex
	subs   map[string]*subRec
	order  []string
	hashes []uint64
	sorted int // prefix of hashes that is sorted+unique
	notes  []string
	viol   []violation
}

type violation struct {
	Prop   string `json:"property"`
	Sub    string `json:"sub"`
	Replay string `json:"replay"`
	Error  string `json:"error"`
}

var rec = &recorder{subs: map[string]*subRec{}}

func (r *recorder) sub(name, rule string, require []string) *subRec {
	r.mu.Lock()
	defer r.mu.Unlock()
	s, ok := r.subs[name]
	if !ok {
		s = &subRec{Classes: map[string]int64{}, samplePer: map[string]int{}, Rule: rule, Require: require}
		r.subs[name] = s
		r.order = append(r.order, name)
	}
	return s
}

func hash64(sub string, b []byte) uint64 {
	f := fnv.New64a()
	f.Write([]byte(sub))
	f.Write([]byte{0})
	f.Write(b)
	return f.Sum64()
}

func (r *recorder) record(subName string, s *subRec, info Info, c any) {
	r.mu.Lock()
	defer r.mu.Unlock()
	s.Evaluations++
	cls := info.Class
	if cls == "" {
		cls = "-"
	}
	s.Classes[cls]++
	needSample := s.samplePer[cls] < 2 && len(s.Samples) < 24
	if !info.NT && !needSample {
		return
	}
	b, err := json.Marshal(c)
	if err != nil {
		panic(fmt.Sprintf("case not serialisable: %v", err))
	}
	if info.NT {
		s.NonTrivial++
		r.hashes = append(r.hashes, hash64(subName, b))
		if len(r.hashes)-r.sorted > 1<<20 && len(r.hashes) > 2*r.sorted {
			r.compact()
		}
	}
	if needSample {
		s.samplePer[cls]++
		if len(b) > 1500 {
			b, _ = json.Marshal(map[string]any{"class": cls, "truncated_json_prefix": string(b[:1500])})
		} else {
			b, _ = json.Marshal(map[string]any{"class": cls, "case": json.RawMessage(b)})
		}
		s.Samples = append(s.Samples, b)
	}
}

func (r *recorder) compact() {
	sort.Slice(r.hashes, func(i, j int) bool { return r.hashes[i] < r.hashes[j] })
	out := r.hashes[:0]
	var prev uint64
	for i, v := range r.hashes {
		if i == 0 || v != prev {
			out = append(out, v)
		}
		prev = v
	}
	r.hashes = out
	r.sorted = len(out)
}

// Note adds a free-text note to the evidence part (e.g. self-check results).
func Note(format string, a ...any) {
	rec.mu.Lock()
	defer rec.mu.Unlock()
	rec.notes = append(rec.notes, fmt.Sprintf(format, a...))
}

// Shard returns (index, count).
func Shard() (int, int) {
	parts := strings.Split(*flagShard, "/")
	if len(parts) != 2 {
		return 0, 1
	}
	i, _ := strconv.Atoi(parts[0])
	n, _ := strconv.Atoi(parts[1])
	if n < 1 {
		n = 1
	}
	return i, n
}

// Tier returns "quick" or "thorough".
func Tier() string { return *flagTier }

// Thorough reports whether the thorough tier is running.
func Thorough() bool { return *flagTier == "thorough" }

// Scale returns the case-count multiplier.
func Scale() float64 { return *flagScale }

func selected(name string) bool {
	if *flagSub == "" {
		return true
	}
	ok, err := regexp.MatchString(*flagSub, name)
	return err == nil && ok
}

type replayFile struct {
	Prop  string          `json:"property"`
	Sub   string          `json:"sub"`
	Error string          `json:"error,omitempty"`
	Case  json.RawMessage `json:"case"`
}

func writeReplay(prop, sub string, c any, errText string) string {
	dir := *flagReplayDir
	if dir == "" {
		dir = os.TempDir()
	}
	_ = os.MkdirAll(dir, 0o755)
	b, err := json.Marshal(c)
	if err != nil {
		b = []byte(`null`)
	}
	if len(errText) > 1200 {
		errText = errText[:1200] + " …"
	}
	rf := replayFile{Prop: prop, Sub: sub, Error: errText, Case: b}
	out, _ := json.MarshalIndent(rf, "", " ")
	name := fmt.Sprintf("%s-%s-%016x.json", prop, sanitize(sub), hash64(sub, b))
	p := filepath.Join(dir, name)
	_ = os.WriteFile(p, out, 0o644)
	return p
}

func sanitize(s string) string {
	return regexp.MustCompile(`[^A-Za-z0-9_.-]`).ReplaceAllString(s, "_")
}

// safeCheck runs check and converts a panic into an error (with stack).
func safeCheck[C any](check func(C) (Info, error), c C) (info Info, err error) {
	defer func() {
		if r := recover(); r != nil {
			err = fmt.Errorf("PANIC: %v\n%s", r, debug.Stack())
		}
	}()
	return check(c)
}

// Run executes a generated sub-check under rapid (or replays a file addressed to it).
func Run[C any](t *testing.T, s Sub[C]) {
	t.Helper()
	if *flagReplay != "" {
		replayInto(t, s.Prop, s.Name, s.Check)
		return
	}
	if !selected(s.Name) {
		return
	}
	_, nsh := Shard()
	n := float64(s.N) * *flagScale / float64(nsh)
	if bits.UintSize == 32 {
		// shards built for a 32-bit target look for word-size dependence, not for volume: 64-bit
		// arithmetic (SHA-512, rapid's own generators) is several times slower there
		n *= 0.3
	}
	cnt := int(n)
	if s.MaxN > 0 && cnt > s.MaxN/nsh {
		cnt = s.MaxN / nsh
	}
	if cnt < 1 {
		cnt = 1
	}
	require := s.Require
	if bits.UintSize == 32 {
		// (the reduced 32-bit shards are supplementary: the vacuity guard is carried by the 64-bit shards)
		require = nil
	}
	sr := rec.sub(s.Name, s.Rule, require)
	sr.Requested += cnt
	start := time.Now()
	var (
		lastFail    *C
		lastFailErr string
	)
	_ = flag.Set("rapid.checks", strconv.Itoa(cnt))
	_ = flag.Set("rapid.nofailfile", "true")
	ok := t.Run(s.Name, func(t *testing.T) {
		rapid.Check(t, func(rt *rapid.T) {
			c := s.Gen(rt)
			info, err := safeCheck(s.Check, c)
			rec.record(s.Name, sr, info, c)
			if err != nil {
				cc := c
				lastFail, lastFailErr = &cc, err.Error()
				rt.Fatalf("%s/%s violated: %v", s.Prop, s.Name, err)
			}
		})
	})
	sr.WallS += time.Since(start).Seconds()
	sr.Passed = ok
	if !ok {
		if lastFail != nil && strings.HasPrefix(lastFailErr, "PRECONDITION") {
			// the generated case violates a premise of the statement: a harness defect, never a finding
			p := writeReplay(s.Prop, s.Name, *lastFail, lastFailErr)
			fmt.Printf("VERIF-INFRA property=%s sub=%s harness generated a case outside the statement's domain (%s); case saved to %s\n", s.Prop, s.Name, firstLine(lastFailErr), p)
		} else if lastFail != nil {
			p := writeReplay(s.Prop, s.Name, *lastFail, lastFailErr)
			rec.mu.Lock()
			rec.viol = append(rec.viol, violation{s.Prop, s.Name, p, firstLine(lastFailErr)})
			rec.mu.Unlock()
			fmt.Printf("VERIF-FAIL property=%s sub=%s replay=%s error=%s\n", s.Prop, s.Name, p, firstLine(lastFailErr))
		} else {
			fmt.Printf("VERIF-INFRA property=%s sub=%s rapid failed without a failing case (generator problem?)\n", s.Prop, s.Name)
		}
	}
}

// RunEnum executes an exhaustive enumeration; shard i handles elements i mod n.
func RunEnum[C any](t *testing.T, e Enum[C]) {
	t.Helper()
	if *flagReplay != "" {
		replayInto(t, e.Prop, e.Name, e.Check)
		return
	}
	if !selected(e.Name) || (e.Tier != "" && e.Tier != *flagTier) {
		return
	}
	si, sn := Shard()
	sr := rec.sub(e.Name, e.Rule, e.Require)
	sr.Exhaustive = true
	start := time.Now()
	idx := 0
	failed := false
	e.Each(func(c C) bool {
		mine := idx%sn == si
		idx++
		if !mine {
			return true
		}
		info, err := safeCheck(e.Check, c)
		rec.record(e.Name, sr, info, c)
		if err != nil && strings.HasPrefix(err.Error(), "PRECONDITION") {
			p := writeReplay(e.Prop, e.Name, c, err.Error())
			fmt.Printf("VERIF-INFRA property=%s sub=%s harness enumerated a case outside the statement's domain (%s); case saved to %s\n", e.Prop, e.Name, firstLine(err.Error()), p)
			t.Errorf("harness defect: %v", err)
			failed = true
			return false
		}
		if err != nil {
			p := writeReplay(e.Prop, e.Name, c, err.Error())
			rec.mu.Lock()
			rec.viol = append(rec.viol, violation{e.Prop, e.Name, p, firstLine(err.Error())})
			rec.mu.Unlock()
			fmt.Printf("VERIF-FAIL property=%s sub=%s replay=%s error=%s\n", e.Prop, e.Name, p, firstLine(err.Error()))
			t.Errorf("%s/%s violated on enumerated case: %v", e.Prop, e.Name, err)
			failed = true
			return false
		}
		return true
	})
	sr.WallS += time.Since(start).Seconds()
	sr.Passed = !failed
	sr.Requested += idx
}

// Fail reports a violation found outside Run/RunEnum (e.g. by a custom loop).
func Fail(t testing.TB, prop, sub string, c any, err error) {
	if strings.HasPrefix(err.Error(), "PRECONDITION") {
		p := writeReplay(prop, sub, c, err.Error())
		fmt.Printf("VERIF-INFRA property=%s sub=%s case outside the statement's domain (%s); case saved to %s\n", prop, sub, firstLine(err.Error()), p)
		t.Errorf("harness defect: %v", err)
		return
	}
	p := writeReplay(prop, sub, c, err.Error())
	rec.mu.Lock()
	rec.viol = append(rec.viol, violation{prop, sub, p, firstLine(err.Error())})
	rec.mu.Unlock()
	line := fmt.Sprintf("VERIF-FAIL property=%s sub=%s replay=%s error=%s", prop, sub, p, firstLine(err.Error()))
	fmt.Println(line)
	t.Errorf("%s\n%s/%s violated: %v", line, prop, sub, err)
}

// Custom registers a hand-driven sub-check; the returned function records one evaluation.
func Custom(name, rule string, require []string, exhaustive bool) func(info Info, c any) {
	sr := rec.sub(name, rule, require)
	sr.Exhaustive = exhaustive
	sr.Passed = true
	return func(info Info, c any) { rec.record(name, sr, info, c) }
}

func firstLine(s string) string {
	if i := strings.IndexByte(s, '\n'); i >= 0 {
		s = s[:i]
	}
	if len(s) > 300 {
		s = s[:300]
	}
	return s
}

func replayInto[C any](t *testing.T, prop, sub string, check func(C) (Info, error)) {
	b, err := os.ReadFile(*flagReplay)
	if err != nil {
		fmt.Printf("VERIF-INFRA cannot read replay file: %v\n", err)
		t.Fatalf("cannot read replay: %v", err)
	}
	var rf replayFile
	if err := json.Unmarshal(b, &rf); err != nil {
		fmt.Printf("VERIF-INFRA bad replay file: %v\n", err)
		t.Fatalf("bad replay: %v", err)
	}
	if rf.Prop != prop || rf.Sub != sub {
		return
	}
	var c C
	if err := json.Unmarshal(rf.Case, &c); err != nil {
		fmt.Printf("VERIF-INFRA bad replay case: %v\n", err)
		t.Fatalf("bad replay case: %v", err)
	}
	replayed = true
	_, cerr := safeCheck(check, c)
	if cerr != nil && strings.HasPrefix(cerr.Error(), "PRECONDITION") {
		fmt.Printf("VERIF-INFRA replay %s is outside the statement's domain: %s\n", *flagReplay, firstLine(cerr.Error()))
		t.Errorf("replay outside the domain: %v", cerr)
	} else if cerr != nil {
		fmt.Printf("VERIF-REPLAY-FAIL property=%s sub=%s replay=%s error=%s\n", prop, sub, *flagReplay, firstLine(cerr.Error()))
		t.Errorf("replay %s: %v", *flagReplay, cerr)
	} else {
		fmt.Printf("VERIF-REPLAY-PASS property=%s sub=%s replay=%s\n", prop, sub, *flagReplay)
	}
}

var replayed bool

// Main is called from TestMain of every property package.
func Main(m *testing.M) {
	flag.Parse()
	start := time.Now()
	code := m.Run()
	if *flagReplay != "" {
		if !replayed && code == 0 {
			fmt.Printf("VERIF-INFRA replay file not addressed to any sub-check of this binary\n")
			code = 3
		}
		os.Exit(code)
	}
	if *flagPart != "" {
		rec.compact()
		part := map[string]any{
			"subs":       rec.subs,
			"order":      rec.order,
			"notes":      rec.notes,
			"violations": rec.viol,
			"wall_s":     time.Since(start).Seconds(),
			"exit":       code,
			"hash_count": len(rec.hashes),
		}
		b, _ := json.MarshalIndent(part, "", " ")
		if err := os.WriteFile(*flagPart, b, 0o644); err != nil {
			fmt.Printf("VERIF-INFRA cannot write part: %v\n", err)
			os.Exit(3)
		}
		hb := make([]byte, 8*len(rec.hashes))
		for i, v := range rec.hashes {
			binary.LittleEndian.PutUint64(hb[8*i:], v)
		}
		if err := os.WriteFile(*flagPart+".h", hb, 0o644); err != nil {
			fmt.Printf("VERIF-INFRA cannot write hashes: %v\n", err)
			os.Exit(3)
		}
	}
	os.Exit(code)
}

// Bulk is a cheap recorder for hand-driven loops with millions of evaluations:
// no JSON per case, the caller supplies a 64-bit key identifying the case.
type Bulk struct {
	name string
	sr   *subRec
}

// NewBulk registers a bulk sub-check.
func NewBulk(name, rule string, require []string, exhaustive bool) *Bulk {
	sr := rec.sub(name, rule, require)
	sr.Exhaustive = exhaustive
	sr.Passed = true
	return &Bulk{name, sr}
}

// Add records one evaluation; key must identify the case within this sub-check.
func (b *Bulk) Add(class string, nt bool, key uint64) {
	rec.mu.Lock()
	defer rec.mu.Unlock()
	b.sr.Evaluations++
	b.sr.Requested++
	b.sr.Classes[class]++
	if nt {
		b.sr.NonTrivial++
		var kb [8]byte
		binary.LittleEndian.PutUint64(kb[:], key)
		rec.hashes = append(rec.hashes, hash64(b.name, kb[:]))
		if len(rec.hashes)-rec.sorted > 1<<20 && len(rec.hashes) > 2*rec.sorted {
			rec.compact()
		}
	}
}

// Sample stores an example case for the evidence file (at most 2 per class).
func (b *Bulk) Sample(class string, c any) {
	rec.mu.Lock()
	defer rec.mu.Unlock()
	if b.sr.samplePer[class] >= 2 || len(b.sr.Samples) >= 24 {
		return
	}
	b.sr.samplePer[class]++
	j, _ := json.Marshal(map[string]any{"class": class, "case": c})
	b.sr.Samples = append(b.sr.Samples, j)
}

// Failed marks the bulk sub-check as failed.
func (b *Bulk) Failed() { b.sr.Passed = false }

// Hash64 exposes the FNV-1a hash used for distinct counting.
func Hash64(b []byte) uint64 { return hash64("", b) }

// InfraAndExit ends the process as inconclusive (for example when the code under test hangs in a
// check whose property says nothing about termination).
func InfraAndExit(prop, sub string, c any, msg string) {
	p := writeReplay(prop, sub, c, "PRECONDITION/INFRA: "+msg)
	fmt.Printf("VERIF-INFRA property=%s sub=%s %s; case saved to %s\n", prop, sub, msg, p)
	flushPart(2, time.Now())
	os.Exit(2)
}

// FailAndExit reports a violation that cannot be shrunk or safely continued from (for example a
// hung call whose goroutines are still running), flushes the evidence part and exits the process.
func FailAndExit(prop, sub string, c any, err error) {
	p := writeReplay(prop, sub, c, err.Error())
	rec.mu.Lock()
	rec.viol = append(rec.viol, violation{prop, sub, p, firstLine(err.Error())})
	if s, ok := rec.subs[sub]; ok {
		s.Passed = false
	}
	rec.mu.Unlock()
	fmt.Printf("VERIF-FAIL property=%s sub=%s replay=%s error=%s\n", prop, sub, p, firstLine(err.Error()))
	flushPart(1, time.Now())
	os.Exit(1)
}

func flushPart(code int, start time.Time) {
	if *flagPart == "" {
		return
	}
	rec.mu.Lock()
	defer rec.mu.Unlock()
	rec.compact()
	part := map[string]any{
		"subs":       rec.subs,
		"order":      rec.order,
		"notes":      rec.notes,
		"violations": rec.viol,
		"wall_s":     time.Since(start).Seconds(),
		"exit":       code,
		"hash_count": len(rec.hashes),
	}
	b, _ := json.MarshalIndent(part, "", " ")
	_ = os.WriteFile(*flagPart, b, 0o644)
	hb := make([]byte, 8*len(rec.hashes))
	for i, v := range rec.hashes {
		binary.LittleEndian.PutUint64(hb[8*i:], v)
	}
	_ = os.WriteFile(*flagPart+".h", hb, 0o644)
}

// FuzzSub drives a sub-check's structured generator with Go's coverage-guided fuzzer: the fuzzer's
// bytes become rapid's bit stream (rapid.MakeFuzz), so coverage feedback steers the same generator
// and the same oracle. Thorough tier only; a failure is written as an ordinary replay file.
func FuzzSub[C any](f *testing.F, s Sub[C]) {
	f.Add([]byte{})
	f.Add([]byte{1, 2, 3, 4, 5, 6, 7, 8, 9, 10, 11, 12, 13, 14, 15, 16, 17, 18, 19, 20, 21, 22, 23, 24, 25, 26, 27, 28, 29, 30, 31, 32})
	f.Fuzz(rapid.MakeFuzz(func(t *rapid.T) {
		c := s.Gen(t)
		_, err := safeCheck(s.Check, c)
		if err == nil {
			return
		}
		p := writeReplay(s.Prop, s.Name, c, err.Error())
		if strings.HasPrefix(err.Error(), "PRECONDITION") {
			t.Fatalf("VERIF-INFRA property=%s sub=%s generated case outside the domain (%s); saved to %s", s.Prop, s.Name, firstLine(err.Error()), p)
		}
		t.Fatalf("VERIF-FAIL property=%s sub=%s replay=%s error=%s", s.Prop, s.Name, p, firstLine(err.Error()))
	}))
}
