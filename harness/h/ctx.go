package h

import (
	"context"
	"errors"
	"sync"
	"time"
)

// EndingCtx is a Context of the caller that ends with an error of its own (Context is an interface; what
// Err returns after Done is closed is the implementation's business as long as it is non-nil).
type EndingCtx struct {
	context.Context
	done chan struct{}
	once sync.Once
}

// ErrEnded is what an EndingCtx reports once ended, and the cause of the "cause" contexts.
var ErrEnded = errors.New("harness: request ended")

func (c *EndingCtx) Done() <-chan struct{} { return c.done }
func (c *EndingCtx) Err() error {
	select {
	case <-c.done:
		return ErrEnded
	default:
		return nil
	}
}
func (c *EndingCtx) end() { c.once.Do(func() { close(c.done) }) }

// ContextFor builds the context of a cancelled-call case: mode "" = context.WithCancel, "deadline" =
// context.WithTimeout of delayUs microseconds (already expired if negative; Err() = DeadlineExceeded),
// "cause" = WithCancelCause, "custom" = an EndingCtx. end ends it the way the mode prescribes (a no-op for
// "deadline", which ends by itself), release frees its resources.
func ContextFor(mode string, delayUs int) (ctx context.Context, end func(), release func()) {
	switch mode {
	case "deadline":
		d := time.Duration(delayUs) * time.Microsecond
		if delayUs < 0 {
			d = -time.Second
		}
		ctx, cancel := context.WithTimeout(context.Background(), d)
		return ctx, func() {}, cancel
	case "cause":
		ctx, cancel := context.WithCancelCause(context.Background())
		return ctx, func() { cancel(ErrEnded) }, func() { cancel(nil) }
	case "custom":
		c := &EndingCtx{Context: context.Background(), done: make(chan struct{})}
		return c, c.end, c.end
	}
	ctx, cancel := context.WithCancel(context.Background())
	return ctx, cancel, cancel
}
