package h

import (
	"fmt"
	"runtime"
	"runtime/debug"
	"sync"
	"sync/atomic"
)

// Parallel starts g goroutines, releases them together from a spin barrier and runs body(i) in each;
// it returns the first error in goroutine order (a recovered panic counts as an error).  It is the
// schedule-exploring part of the "concurrent callers" sub-checks: the oracle values are computed
// beforehand, sequentially, by the reference model, so the only shared state is the library's own.
func Parallel(g int, body func(i int) error) error {
	var ready, start int32
	errs := make([]error, g)
	var wg sync.WaitGroup
	for i := 0; i < g; i++ {
		wg.Add(1)
		go func(i int) {
			defer wg.Done()
			defer func() {
				if r := recover(); r != nil {
					errs[i] = fmt.Errorf("PANIC in goroutine %d: %v\n%s", i, r, debug.Stack())
				}
			}()
			atomic.AddInt32(&ready, 1)
			for atomic.LoadInt32(&start) == 0 {
				runtime.Gosched()
			}
			errs[i] = body(i)
		}(i)
	}
	for atomic.LoadInt32(&ready) < int32(g) {
		runtime.Gosched()
	}
	atomic.StoreInt32(&start, 1)
	wg.Wait()
	for _, e := range errs {
		if e != nil {
			return e
		}
	}
	return nil
}
