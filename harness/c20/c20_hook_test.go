//go:build verif && amd64

package c20

import (
	"context"
	"encoding/json"
	"fmt"
	"os"
	"os/exec"
	"runtime/debug"
	"strings"
	"sync/atomic"
	"syscall"
	"testing"
	"time"
	"unsafe"

	"github.com/wollac/iota-crypto-demo/pkg/curl"
	"pgregory.net/rapid"

	"verifharness/h"
	ref "verifharness/ref/curl"
)

const hooksCompiled = true

const (
	stateWords = curl.StateSize
	arrayBytes = stateWords * 8
	guardBytes = 1 << 20
	dataBytes  = 8192 // two pages hold the 5832-byte array
	canary     = 0xA5
)

// guarded is one buffer of 729 words inside an mmap'ed region with PROT_NONE guards on both sides.
type guarded struct {
	mem            []byte
	dataLo, dataHi int // accessible part of mem
	off            int
	arr            *[stateWords]uint
}

func newGuarded(flushEnd bool) (*guarded, error) {
	mem, err := syscall.Mmap(-1, 0, 2*guardBytes+dataBytes, syscall.PROT_READ|syscall.PROT_WRITE, syscall.MAP_ANON|syscall.MAP_PRIVATE)
	if err != nil {
		return nil, err
	}
	if err := syscall.Mprotect(mem[:guardBytes], syscall.PROT_NONE); err != nil {
		return nil, err
	}
	if err := syscall.Mprotect(mem[guardBytes+dataBytes:], syscall.PROT_NONE); err != nil {
		return nil, err
	}
	off := guardBytes
	if flushEnd {
		off = guardBytes + dataBytes - arrayBytes
	}
	g := &guarded{mem: mem, dataLo: guardBytes, dataHi: guardBytes + dataBytes, off: off}
	g.arr = (*[stateWords]uint)(unsafe.Pointer(&mem[off]))
	return g, nil
}

// newStraddling places a guarded buffer so that the 729-word array straddles the address boundary
// (an address whose low 32 bits are low32, i.e. 0x80000000 or 0): address arithmetic that is carried
// out in fewer than 64 bits goes wrong exactly there. The kernel is asked for a fixed address
// (MAP_FIXED_NOREPLACE); several high parts are tried.
func newStraddling(low32 uintptr, skew int) (*guarded, error) {
	const mapFixedNoReplace = 0x100000
	const page = 4096
	var lastErr error
	for k := uintptr(0x31); k < 0x71; k++ {
		b := k<<32 | low32
		start := b - 3*page
		p, _, e := syscall.Syscall6(syscall.SYS_MMAP, start, 6*page, syscall.PROT_READ|syscall.PROT_WRITE, syscall.MAP_ANON|syscall.MAP_PRIVATE|mapFixedNoReplace, ^uintptr(0), 0)
		if e != 0 {
			lastErr = e
			continue
		}
		if p != start {
			syscall.Syscall(syscall.SYS_MUNMAP, p, 6*page, 0)
			lastErr = fmt.Errorf("kernel placed the mapping at %#x instead of %#x", p, start)
			continue
		}
		mem := unsafe.Slice((*byte)(unsafe.Pointer(p)), 6*page)
		if err := syscall.Mprotect(mem[:page], syscall.PROT_NONE); err != nil {
			return nil, err
		}
		if err := syscall.Mprotect(mem[5*page:], syscall.PROT_NONE); err != nil {
			return nil, err
		}
		// the boundary is at mem[3*page]; skew moves the array so that the boundary falls early, in the
		// middle or late in the array (always 8-byte aligned)
		off := 3*page - skew
		g := &guarded{mem: mem, dataLo: page, dataHi: 5 * page, off: off}
		g.arr = (*[stateWords]uint)(unsafe.Pointer(&mem[off]))
		return g, nil
	}
	return nil, lastErr
}

func (g *guarded) fillCanary() {
	for i := g.dataLo; i < g.dataHi; i++ {
		if i < g.off || i >= g.off+arrayBytes {
			g.mem[i] = canary
		}
	}
}

func (g *guarded) canaryIntact() bool {
	for i := g.dataLo; i < g.dataHi; i++ {
		if (i < g.off || i >= g.off+arrayBytes) && g.mem[i] != canary {
			return false
		}
	}
	return true
}

// placements x four buffers, allocated once: 0 flush with the end of the accessible pages, 1 flush with
// their start, 2 straddling an address with low 32 bits 0x80000000, 3 straddling a multiple of 2^32
var placements [][4]*guarded

var placementNames = []string{"flush-end", "flush-start", "straddles-2^31", "straddles-2^32"}

func initGuards() error {
	if placements != nil {
		return nil
	}
	pl := make([][4]*guarded, 2)
	for p := 0; p < 2; p++ {
		for b := 0; b < 4; b++ {
			g, err := newGuarded(p == 0)
			if err != nil {
				return err
			}
			pl[p][b] = g
		}
	}
	for _, low := range []uintptr{0x80000000, 0} {
		var set [4]*guarded
		ok := true
		for b := 0; b < 4; b++ {
			g, err := newStraddling(low, []int{8, 2912, 5824, 1024}[b])
			if err != nil {
				h.Note("no buffer placement straddling low-32-bit address %#x available: %v", low, err)
				ok = false
				break
			}
			set[b] = g
		}
		if ok {
			pl = append(pl, set)
		}
	}
	placements = pl
	return nil
}

type stateCase struct {
	Kind string `json:"kind"` // "valid" (lanes from Seed/Mode) or "words" (L,H given) or "prng" (words from Seed)
	Seed uint64 `json:"seed"`
	Mode int    `json:"mode"`
	// for "valid": lanes >= Holes get no (0,0); positions listed in Holes are forced to the undefined pair in lane HoleLane
	Holes    []int    `json:"holes,omitempty"`
	HoleLane int      `json:"hole_lane,omitempty"`
	L        []uint64 `json:"l,omitempty"`
	H        []uint64 `json:"h,omitempty"`
	Place    int      `json:"place"`     // guard placement 0..3 (see placements)
	FlipLane int      `json:"flip_lane"` // lane whose input is changed for the independence check
}

func (c stateCase) build() (l, hh [stateWords]uint, lanes [][]int8, err error) {
	switch c.Kind {
	case "valid":
		lanes = make([][]int8, 64)
		for j := 0; j < 64; j++ {
			lanes[j] = laneTrits(c.Seed, c.Mode, j, stateWords)
			for i, t := range lanes[j] {
				// 0 -> (1,1), 1 -> (0,1), -1 -> (1,0)
				if t <= 0 {
					l[i] |= 1 << uint(j)
				}
				if t >= 0 {
					hh[i] |= 1 << uint(j)
				}
			}
		}
		for _, p := range c.Holes {
			if p >= 0 && p < stateWords {
				l[p] &^= 1 << uint(c.HoleLane&63)
				hh[p] &^= 1 << uint(c.HoleLane&63)
			}
		}
	case "words":
		if len(c.L) != stateWords || len(c.H) != stateWords {
			return l, hh, nil, fmt.Errorf("PRECONDITION: word count")
		}
		for i := range l {
			l[i], hh[i] = uint(c.L[i]), uint(c.H[i])
		}
	case "prng":
		s := c.Seed
		for i := range l {
			l[i], hh[i] = uint(splitmix(&s)), uint(splitmix(&s))
			switch c.Mode {
			case 1: // sparse ones
				l[i] &= uint(splitmix(&s)) & uint(splitmix(&s))
				hh[i] &= uint(splitmix(&s)) & uint(splitmix(&s))
			case 2: // dense ones
				l[i] |= uint(splitmix(&s)) | uint(splitmix(&s))
				hh[i] |= uint(splitmix(&s)) | uint(splitmix(&s))
			}
		}
	default:
		return l, hh, nil, fmt.Errorf("PRECONDITION: kind %q", c.Kind)
	}
	return l, hh, lanes, nil
}

// runGuarded runs f(lto,hto,lfrom,hfrom) with all four buffers in guarded memory.
func runGuarded(place int, l, hh *[stateWords]uint, f func(lto, hto, lfrom, hfrom *[stateWords]uint)) (outL, outH [stateWords]uint, err error) {
	if e := initGuards(); e != nil {
		return outL, outH, fmt.Errorf("VERIF-INFRA mmap: %v", e)
	}
	place = ((place % len(placements)) + len(placements)) % len(placements)
	g := placements[place]
	for _, b := range g {
		b.fillCanary()
	}
	*g[2].arr, *g[3].arr = *l, *hh
	for i := range g[0].arr {
		g[0].arr[i], g[1].arr[i] = 0x5555555555555555, 0x3333333333333333
	}
	old := debug.SetPanicOnFault(true)
	func() {
		defer debug.SetPanicOnFault(old)
		defer func() {
			if r := recover(); r != nil {
				err = fmt.Errorf("memory fault inside the permutation (access outside the four 729-word buffers, placement %s): %v", placementNames[place], r)
			}
		}()
		f(g[0].arr, g[1].arr, g[2].arr, g[3].arr)
	}()
	if err != nil {
		return
	}
	for i, b := range g {
		if !b.canaryIntact() {
			return outL, outH, fmt.Errorf("bytes next to buffer %d were overwritten (placement %s)", i, placementNames[place])
		}
	}
	return *g[0].arr, *g[1].arr, nil
}

func checkState(c stateCase) (h.Info, error) {
	l, hh, lanes, err := c.build()
	if err != nil {
		return h.Info{}, err
	}
	hasHole := false
	for i := range l {
		if ^(l[i] | hh[i]) != 0 {
			hasHole = true
			break
		}
	}
	info := h.Info{Class: c.Kind, NT: true}
	switch {
	case c.Kind == "valid" && len(c.Holes) == 0:
		info = h.Info{Class: fmt.Sprintf("valid/mode%d", c.Mode), NT: c.Mode != 0}
	case c.Kind == "valid":
		info = h.Info{Class: "valid+undefined-pairs", NT: true}
	case hasHole:
		info = h.Info{Class: c.Kind + "/with-undefined-pairs", NT: true}
	default:
		info = h.Info{Class: c.Kind + "/no-undefined-pairs", NT: true}
	}

	if e := initGuards(); e != nil {
		return info, fmt.Errorf("PRECONDITION: mmap: %v", e)
	}
	if pl := c.Place % len(placements); pl >= 2 {
		info.Class += "@" + placementNames[pl]
	}
	// (a) both routines in guarded memory
	inL, inH := l, hh
	aL, aH, err := runGuarded(c.Place, &inL, &inH, curl.VerifTransform)
	if err != nil {
		return info, fmt.Errorf("transform [%s build]: %w", buildVariant, err)
	}
	inL, inH = l, hh
	gL, gH, err := runGuarded(c.Place+1, &inL, &inH, curl.VerifTransformGeneric)
	if err != nil {
		return info, fmt.Errorf("transformGeneric: %w", err)
	}
	// (b) also in ordinary Go arrays
	var oL, oH [stateWords]uint
	inL, inH = l, hh
	curl.VerifTransform(&oL, &oH, &inL, &inH)
	if oL != aL || oH != aH {
		return info, fmt.Errorf("transform gives different results in guarded and ordinary memory")
	}
	// lanes whose input contains the unused pair (0,0) are outside Curl-P: for them only the agreement
	// of the two routines and lane independence are asserted
	var dirty uint
	for i := range l {
		dirty |= ^(l[i] | hh[i])
	}
	for i := range aL {
		if aL[i] != gL[i] || aH[i] != gH[i] {
			return info, fmt.Errorf("word %d: build-selected transform (%s) = (%016x,%016x), portable transformGeneric = (%016x,%016x)", i, buildVariant, aL[i], aH[i], gL[i], gH[i])
		}
		if z := ^(aL[i] | aH[i]) &^ dirty; z != 0 {
			return info, fmt.Errorf("output word %d contains the undefined pair (0,0) in lanes %064b", i, z)
		}
	}
	// (c) valid lanes: every lane = 81 rounds of Curl-P on that lane's 729 trits
	if c.Kind == "valid" {
		for j := 0; j < 64; j++ {
			if len(c.Holes) > 0 && j == c.HoleLane&63 {
				continue // Curl-P does not define lanes containing the unused pair
			}
			var s [ref.StateSize]int8
			copy(s[:], lanes[j])
			ref.Transform(&s)
			for i := 0; i < stateWords; i++ {
				got := int8(gH[i]>>uint(j)&1) - int8(gL[i]>>uint(j)&1)
				if got != s[i] {
					return info, fmt.Errorf("lane %d trit %d = %d after the permutation, Curl-P-81 reference %d", j, i, got, s[i])
				}
			}
		}
	}
	// (d) lane independence: changing lane FlipLane's input leaves the other 63 output lanes unchanged
	j := uint(c.FlipLane & 63)
	mL, mH := l, hh
	s := c.Seed ^ 0x1234
	for i := range mL {
		r := splitmix(&s)
		mL[i] = mL[i]&^(1<<j) | uint(r&1)<<j
		mH[i] = mH[i]&^(1<<j) | uint(r>>1&1)<<j
	}
	var iL, iH [stateWords]uint
	curl.VerifTransform(&iL, &iH, &mL, &mH)
	mask := ^(uint(1) << j)
	for i := range iL {
		if iL[i]&mask != aL[i]&mask || iH[i]&mask != aH[i]&mask {
			return info, fmt.Errorf("changing the input of lane %d changed output word %d in other lanes", j, i)
		}
	}
	return info, nil
}

func genState(t *rapid.T) stateCase {
	c := stateCase{Seed: rapid.Uint64().Draw(t, "seed"), Place: rapid.IntRange(0, 3).Draw(t, "place"), FlipLane: rapid.IntRange(0, 63).Draw(t, "flip")}
	switch h.Pick(t, "kind", 6, 2, 3, 2) {
	case 0:
		c.Kind, c.Mode = "valid", h.Pick(t, "mode", 1, 2, 4, 1, 2, 1)
	case 1:
		c.Kind, c.Mode = "valid", 2
		c.Holes = rapid.SliceOfN(rapid.IntRange(0, stateWords-1), 1, 5).Draw(t, "holes")
		c.HoleLane = rapid.IntRange(0, 63).Draw(t, "holelane")
	case 2:
		c.Kind, c.Mode = "prng", rapid.IntRange(0, 2).Draw(t, "pmode")
	default:
		c.Kind = "words"
		c.L, c.H = make([]uint64, stateWords), make([]uint64, stateWords)
		pat := h.Pick(t, "pattern", 1, 1, 1, 1, 2)
		period := rapid.IntRange(1, 7).Draw(t, "period")
		words := rapid.SliceOfN(rapid.Uint64(), 2*period, 2*period).Draw(t, "words")
		for i := 0; i < stateWords; i++ {
			switch pat {
			case 0: // all zero
			case 1:
				c.L[i], c.H[i] = ^uint64(0), ^uint64(0)
			case 2: // single walking bit
				c.L[i], c.H[i] = 1<<uint(i%64), 1<<uint((i+period)%64)
			case 3: // alternating
				c.L[i], c.H[i] = 0xaaaaaaaaaaaaaaaa>>uint(i&1), 0x5555555555555555<<uint(i&1)
			default:
				c.L[i], c.H[i] = words[2*(i%period)], words[2*(i%period)+1]
			}
		}
		// exceptions: a few words (first, second, middle, last, drawn) break the pattern
		for k := h.Pick(t, "nexc", 2, 2, 1); k > 0; k-- {
			p := h.OneOf(t, "excpos", 0, 0, 1, 364, stateWords-2, stateWords-1, rapid.IntRange(0, stateWords-1).Draw(t, "excany"))
			c.L[p], c.H[p] = rapid.Uint64().Draw(t, "excl"), rapid.Uint64().Draw(t, "exch")
			if rapid.Bool().Draw(t, "excvalid") {
				c.H[p] |= ^c.L[p] // no undefined pair in that word
			}
		}
	}
	return c
}

func TestStates(t *testing.T) {
	h.Run(t, h.Sub[stateCase]{
		Prop: "C20", Name: "states-" + buildVariant, N: 1200,
		Gen: genState, Check: checkState,
		Require: []string{"valid/mode2", "valid/mode1", "valid+undefined-pairs", "prng/with-undefined-pairs", "words/with-undefined-pairs", "words/no-undefined-pairs"},
		Rule:    "bit-sliced states: valid states (64 independent trit lanes: equal / single-trit differences / all different / sparse / all zero except one position or a short prefix), valid states with a few undefined (0,0) pairs, arbitrary words (pseudo-random with sparse/dense bias, all-zero, all-one, walking bit, alternating, short-period patterns, each optionally with a few exceptional words at the first, second, middle, last or a drawn position); the build-selected transform and transformGeneric run with all four buffers flush against PROT_NONE guard regions (two placements, SetPanicOnFault, canaries) and must agree bit for bit, never emit (0,0), equal 81 rounds of scalar Curl-P per valid lane, and keep lanes independent; non-trivial = >= 2 distinct valid lanes or arbitrary words; distinct by case",
	})
}

// Concurrent calls: the routine must be re-entrant (no state outside its four buffers). Several
// goroutines on several OS threads run the permutation on different states at the same time; every
// result must equal the one computed alone. The job runs in a child process (the test binary
// re-executes itself): a spinning assembly loop is not preemptible and would freeze this process
// (and its watchdog) at the next stop-the-world, so the parent owns the 60 s deadline.
type concCase struct {
	Seed    uint64 `json:"seed"`
	Workers int    `json:"workers"`
	Calls   int    `json:"calls"`
}

func init() { childHook = concurrentChild }

func concurrentChild(spec string) {
	var c concCase
	if err := json.Unmarshal([]byte(spec), &c); err != nil {
		fmt.Println("CHILD-BAD-SPEC", err)
		os.Exit(3)
	}
	// The concurrent phase comes FIRST: it is the very first use of both routines in this process
	// (lazily initialised tables must be safe too). The results are compared afterwards with calls
	// made one after the other.
	type job struct{ l, hh, gotL, gotH, genL, genH [stateWords]uint }
	jobs := make([]*job, c.Workers)
	for w := range jobs {
		j := &job{}
		s := c.Seed + uint64(w)*0x9e3779b97f4a7c15
		for i := range j.l {
			j.l[i], j.hh[i] = uint(splitmix(&s)), uint(splitmix(&s))
		}
		jobs[w] = j
	}
	fmt.Println("CHILD-STARTED")
	errs := make(chan string, c.Workers)
	var ready int32
	for w := range jobs {
		go func(j *job, w int) {
			// spin barrier: all goroutines leave it within nanoseconds of each other
			atomic.AddInt32(&ready, 1)
			for atomic.LoadInt32(&ready) < int32(c.Workers) {
			}
			for k := 0; k < c.Calls; k++ {
				var oL, oH, pL, pH [stateWords]uint
				inL, inH := j.l, j.hh
				if w%2 == 0 { // half of the goroutines touch the portable routine first, half the selected one
					curl.VerifTransformGeneric(&pL, &pH, &inL, &inH)
					inL, inH = j.l, j.hh
					curl.VerifTransform(&oL, &oH, &inL, &inH)
				} else {
					curl.VerifTransform(&oL, &oH, &inL, &inH)
					inL, inH = j.l, j.hh
					curl.VerifTransformGeneric(&pL, &pH, &inL, &inH)
				}
				if k == 0 {
					j.gotL, j.gotH, j.genL, j.genH = oL, oH, pL, pH
				} else if oL != j.gotL || oH != j.gotH || pL != j.genL || pH != j.genH {
					errs <- fmt.Sprintf("call %d differs from call 0 of the same goroutine", k)
					return
				}
			}
			errs <- ""
		}(jobs[w], w)
	}
	for range jobs {
		if e := <-errs; e != "" {
			fmt.Println("CHILD-MISMATCH " + e)
			os.Exit(0)
		}
	}
	for w, j := range jobs { // now one after the other
		var oL, oH, pL, pH [stateWords]uint
		inL, inH := j.l, j.hh
		curl.VerifTransform(&oL, &oH, &inL, &inH)
		inL, inH = j.l, j.hh
		curl.VerifTransformGeneric(&pL, &pH, &inL, &inH)
		if oL != j.gotL || oH != j.gotH {
			fmt.Printf("CHILD-MISMATCH goroutine %d: the build-selected transform gave a different result in the concurrent phase than alone\n", w)
			os.Exit(0)
		}
		if pL != j.genL || pH != j.genH {
			fmt.Printf("CHILD-MISMATCH goroutine %d: transformGeneric gave a different result in the concurrent phase than alone\n", w)
			os.Exit(0)
		}
	}
	fmt.Println("CHILD-OK")
	os.Exit(0)
}

func TestConcurrent(t *testing.T) {
	name := "concurrent-" + buildVariant
	h.Run(t, h.Sub[concCase]{
		Prop: "C20", Name: name, N: 12,
		Gen: func(t *rapid.T) concCase {
			return concCase{Seed: rapid.Uint64().Draw(t, "seed"), Workers: h.OneOf(t, "workers", 2, 4, 8, 16), Calls: rapid.IntRange(20, 200).Draw(t, "calls")}
		},
		Check: func(c concCase) (h.Info, error) {
			info := h.Info{Class: "concurrent", NT: true}
			spec, _ := json.Marshal(c)
			var text string
			var err error
			ctx, cancel := context.WithTimeout(context.Background(), 60*time.Second)
			defer cancel()
			// several fresh processes per case: a first-use race has one chance per process
			for rep := 0; rep < 6; rep++ {
				cmd := exec.CommandContext(ctx, os.Args[0], "-test.run", "^$")
				cmd.Env = append(os.Environ(), "VERIF_C20_CHILD="+string(spec))
				var out []byte
				out, err = cmd.CombinedOutput()
				text = string(out)
				if !strings.Contains(text, "CHILD-OK") {
					break
				}
			}
			switch {
			case strings.Contains(text, "CHILD-OK"):
				return info, nil
			case strings.Contains(text, "CHILD-MISMATCH"):
				return info, fmt.Errorf("transform [%s build] gives a different result when %d goroutines call it concurrently (%s): the routine keeps state outside its four buffers", buildVariant, c.Workers, strings.TrimSpace(text[strings.Index(text, "CHILD-MISMATCH"):]))
			case ctx.Err() != nil && strings.Contains(text, "CHILD-STARTED"):
				return info, fmt.Errorf("transform [%s build] did not finish within 60 s when called from %d goroutines concurrently (%d calls each, expected milliseconds): the routine is not re-entrant", buildVariant, c.Workers, c.Calls)
			}
			return info, fmt.Errorf("PRECONDITION: child process could not run (infrastructure): %v %.300s", err, text)
		},
		Rule: "2..16 goroutines call the build-selected transform concurrently on different pseudo-random states (20..200 calls each) as the very first use of both routines in a fresh child process: every result must equal the result computed alone afterwards, and the child must finish within 60 s; all non-trivial; distinct by case",
	})
}

// coverage-guided fuzzing over the structured state generator (thorough tier, hook build only)
func FuzzGenStates(f *testing.F) {
	h.FuzzSub(f, h.Sub[stateCase]{Prop: "C20", Name: "states-" + buildVariant, Gen: genState, Check: checkState})
}
