//go:build !purego

package c20

import "runtime"

// buildVariant names the build this binary exercises: the default build of the target (assembly on
// amd64), or the portable code of another target (GOARCH=386: 32-bit words, 32 lanes).
var buildVariant = func() string {
	if runtime.GOARCH == "amd64" {
		return "default"
	}
	return "portable-" + runtime.GOARCH
}()
