// C20 — assembly and portable Curl permutations both equal Curl-P-81.
// This file needs no hook: it drives one permutation through the public sponge API.
package c20

import (
	"fmt"
	"os"
	"testing"

	"github.com/iotaledger/iota.go/trinary"
	"github.com/wollac/iota-crypto-demo/pkg/curl"
	"pgregory.net/rapid"

	"verifharness/fc"
	"verifharness/h"
	ref "verifharness/ref/curl"
	"verifharness/ref/trit"
)

// childHook is set by the hook-dependent file: runs a job in a re-executed child process.
var childHook func(spec string)

func TestMain(m *testing.M) {
	h.FirstCallsChild(fc.Curl()) // never returns in a first-call child process
	if spec := os.Getenv("VERIF_C20_CHILD"); spec != "" && childHook != nil {
		childHook(spec) // never returns
	}
	if err := trit.SelfCheck(); err != nil {
		panic(err)
	}
	if err := ref.SelfCheck(); err != nil {
		fmt.Println("VERIF-INFRA reference self-check failed:", err)
		panic(err)
	}
	h.Note("build variant: %s; hooks compiled in: %v", buildVariant, hooksCompiled)
	h.Main(m)
}

// splitmix64: deterministic expansion of a drawn 64-bit value (a pure function of the case).
func splitmix(x *uint64) uint64 {
	*x += 0x9e3779b97f4a7c15
	z := *x
	z = (z ^ (z >> 30)) * 0xbf58476d1ce4e5b9
	z = (z ^ (z >> 27)) * 0x94d049bb133111eb
	return z ^ (z >> 31)
}

// laneTrits derives 729 (or n) trits for lane j from (seed, mode).
func laneTrits(seed uint64, mode, j, n int) []int8 {
	out := make([]int8, n)
	s := seed
	switch mode {
	case 0: // all lanes equal
	case 1: // lanes differ from lane 0 in one trit
	default: // all lanes different
		s = seed ^ (uint64(j+1) * 0xd1342543de82ef95)
	}
	for i := range out {
		out[i] = int8(splitmix(&s)%3) - 1
	}
	if mode == 1 && j > 0 {
		p := (j * 131) % n
		out[p] = int8((int(out[p])+2)%3) - 1
	}
	if mode == 4 || mode == 5 {
		// all-zero trits except one position (mode 4: position 0, 1, n-1 or a drawn one; the lanes get
		// different trits there) or except the first k positions (mode 5): states next to the all-zero
		// state, which is a fixed point of Curl-P and a tempting special case
		for i := range out {
			out[i] = 0
		}
		s2 := seed ^ 0x5bd1e995
		p := []int{0, 0, 1, n - 1, int(splitmix(&s2) % uint64(n))}[seed%5]
		if mode == 4 {
			out[p] = int8((uint64(j)+seed/5)%3) - 1
		} else {
			for i := 0; i <= int(seed%7); i++ {
				out[i] = int8((uint64(j+i)+seed/7)%3) - 1
			}
		}
		return out
	}
	if mode == 3 { // sparse: mostly zero
		for i := range out {
			if splitmix(&s)%16 != 0 {
				out[i] = 0
			}
		}
	}
	return out
}

type hashCase struct {
	Seed   uint64 `json:"seed"`
	Mode   int    `json:"mode"`
	N      int    `json:"n"`
	Blocks int    `json:"blocks"`
	// Squeezes: blocks taken by each successive Squeeze call (default: one call of two blocks)
	Squeezes []int `json:"squeezes,omitempty"`
}

func checkHash(c hashCase) (h.Info, error) {
	info := h.Info{Class: fmt.Sprintf("sponge/mode%d", c.Mode), NT: c.N >= 2 && c.Mode != 0}
	src := make([]trinary.Trits, c.N)
	for j := range src {
		src[j] = laneTrits(c.Seed, c.Mode, j, c.Blocks*ref.Rate)
	}
	cu := curl.NewCurlP81()
	if err := cu.Absorb(src, c.Blocks*ref.Rate); err != nil {
		return info, err
	}
	clone := cu.Clone() // taken after 1 or 2 permutations: continues like the original
	calls := c.Squeezes
	if len(calls) == 0 {
		calls = []int{2}
	}
	sps := make([]ref.Sponge, c.N)
	for j := range src {
		sps[j].Absorb(src[j])
	}
	// the state as CopyState shows it right after absorbing = the permuted state of every lane's own sponge
	{
		var l, hh [curl.StateSize]uint
		cu.CopyState(l[:], hh[:])
		for j := range src {
			for i := 0; i < curl.StateSize; i++ {
				if got := int8(hh[i]>>uint(j)&1) - int8(l[i]>>uint(j)&1); got != sps[j].S[i] {
					return info, fmt.Errorf("[%s build] CopyState right after absorbing %d block(s): lane %d/%d state[%d] = %d, Curl-P-81 reference %d", buildVariant, c.Blocks, j, c.N, i, got, sps[j].S[i])
				}
			}
		}
	}
	// a squeeze of zero trits (a multiple of 243) produces nothing and must not count as a squeezed block
	if c.Seed%3 == 0 {
		d0 := make([]trinary.Trits, c.N)
		if err := cu.Squeeze(d0, 0); err != nil {
			return info, fmt.Errorf("[%s build] Squeeze of 0 trits after absorbing: %v", buildVariant, err)
		}
	}
	for ci, blocks := range calls {
		if blocks < 1 || blocks > 4 {
			return info, fmt.Errorf("PRECONDITION: squeeze length")
		}
		dst := make([]trinary.Trits, c.N)
		if err := cu.Squeeze(dst, blocks*ref.Rate); err != nil {
			return info, err
		}
		cdst := make([]trinary.Trits, c.N)
		if err := clone.Squeeze(cdst, blocks*ref.Rate); err != nil {
			return info, err
		}
		for j := range dst {
			for i := range dst[j] {
				if cdst[j][i] != dst[j][i] {
					return info, fmt.Errorf("[%s build] a clone taken after absorbing %d block(s) squeezes (call %d of %v blocks) lane %d trit %d = %d, the original %d", buildVariant, c.Blocks, ci+1, calls, j, i, cdst[j][i], dst[j][i])
				}
			}
		}
		for j := range src {
			want := sps[j].Squeeze(blocks * ref.Rate)
			for i := range want {
				if dst[j][i] != want[i] {
					return info, fmt.Errorf("[%s build] squeeze call %d of %v blocks: lane %d/%d trit %d = %d, Curl-P-81 reference %d", buildVariant, ci+1, calls, j, c.N, i, dst[j][i], want[i])
				}
			}
		}
		if ci == 0 && len(calls) > 1 {
			clone = cu.Clone() // and a clone taken between two squeeze calls
		}
	}
	return info, nil
}

func TestSpongeLevel(t *testing.T) {
	h.Run(t, h.Sub[hashCase]{
		Prop: "C20", Name: "sponge-level-" + buildVariant, N: 150,
		Gen: func(t *rapid.T) hashCase {
			return hashCase{Seed: rapid.Uint64().Draw(t, "seed"), Mode: rapid.IntRange(0, 5).Draw(t, "mode"),
				N: h.OneOf(t, "n", 1, 2, 7, curl.MaxBatchSize-1, curl.MaxBatchSize, curl.MaxBatchSize), Blocks: rapid.IntRange(1, 3).Draw(t, "blocks"),
				Squeezes: rapid.SliceOfN(rapid.IntRange(1, 3), 1, 4).Draw(t, "squeezes")}
		},
		Check: checkHash, Require: []string{"sponge/mode2", "sponge/mode4"},
		Rule: "public-API part (no hook): 1..W lanes (W = bits per machine word of the build target) absorbed (1..3 blocks) and squeezed in 1..4 successive calls of 1..3 blocks through the build-selected permutation, from the instance and from clones taken before squeezing and between two calls, = scalar Curl-P-81 per lane; run on the default build, the purego build and the GOARCH=386 build (32-bit words), so hashes are independent of build target and tag; non-trivial = >= 2 distinct lanes; distinct by case",
	})
}

// which public entry point is called first in a process (and by how many goroutines at once)
func TestFirstCalls(t *testing.T) { h.FirstCallsSub(t, "C20", fc.Curl(), 6) }
