//go:build !verif

package c20

const hooksCompiled = false
