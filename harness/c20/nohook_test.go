//go:build !verif || !amd64

package c20

// the guarded-memory part of the hook-based check needs amd64 Linux (mmap placement, 64-bit words)
const hooksCompiled = false
