//go:build purego

package c20

const buildVariant = "purego"
