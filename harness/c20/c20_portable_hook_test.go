//go:build verif

package c20

import (
	"fmt"
	"math/bits"
	"testing"

	"github.com/wollac/iota-crypto-demo/pkg/curl"
	"pgregory.net/rapid"

	"verifharness/h"
	ref "verifharness/ref/curl"
)

// Word-size independent part of the hook-based check (runs on every build target, in ordinary memory):
// both permutation entry points on states of bits.UintSize valid lanes against the scalar reference,
// with canary words on both sides of every buffer.

type portCase struct {
	Seed uint64 `json:"seed"`
	Mode int    `json:"mode"`
}

type fenced struct {
	pre  [64]uint
	arr  [curl.StateSize]uint
	post [64]uint
}

const fence = ^uint(0) / 255 * 0xA5

func (f *fenced) arm() {
	for i := range f.pre {
		f.pre[i], f.post[i] = fence, fence
	}
}

func (f *fenced) intact() bool {
	for i := range f.pre {
		if f.pre[i] != fence || f.post[i] != fence {
			return false
		}
	}
	return true
}

func checkPortable(c portCase) (h.Info, error) {
	info := h.Info{Class: fmt.Sprintf("portable/mode%d", c.Mode), NT: c.Mode != 0}
	lanes := make([][]int8, bits.UintSize)
	var l, hh [curl.StateSize]uint
	for j := range lanes {
		lanes[j] = laneTrits(c.Seed, c.Mode, j, curl.StateSize)
		for i, t := range lanes[j] {
			if t <= 0 {
				l[i] |= 1 << uint(j)
			}
			if t >= 0 {
				hh[i] |= 1 << uint(j)
			}
		}
	}
	want := make([][ref.StateSize]int8, len(lanes))
	for j := range lanes {
		copy(want[j][:], lanes[j])
		ref.Transform(&want[j])
	}
	for name, f := range map[string]func(lto, hto, lfrom, hfrom *[curl.StateSize]uint){"build-selected transform": curl.VerifTransform, "transformGeneric": curl.VerifTransformGeneric} {
		var bufs [4]fenced
		for i := range bufs {
			bufs[i].arm()
		}
		bufs[2].arr, bufs[3].arr = l, hh
		f(&bufs[0].arr, &bufs[1].arr, &bufs[2].arr, &bufs[3].arr)
		for i := range bufs {
			if !bufs[i].intact() {
				return info, fmt.Errorf("%s [%s build]: words next to buffer %d were overwritten", name, buildVariant, i)
			}
		}
		for j := range lanes {
			for i := 0; i < curl.StateSize; i++ {
				got := int8(bufs[1].arr[i]>>uint(j)&1) - int8(bufs[0].arr[i]>>uint(j)&1)
				if got != want[j][i] {
					return info, fmt.Errorf("%s [%s build, %d-bit words]: lane %d trit %d = %d after the permutation, Curl-P-81 reference %d", name, buildVariant, bits.UintSize, j, i, got, want[j][i])
				}
			}
		}
	}
	// buffers that are exactly adjacent in memory (disjoint, but one starts where another ends), in
	// every order: the routines may not care how their four buffers are laid out
	var blk [6][curl.StateSize]uint
	for name, f := range map[string]func(lto, hto, lfrom, hfrom *[curl.StateSize]uint){"build-selected transform": curl.VerifTransform, "transformGeneric": curl.VerifTransformGeneric} {
		for li, lay := range [][4]int{{1, 2, 3, 4}, {4, 3, 2, 1}, {2, 4, 1, 3}, {3, 1, 4, 2}, {1, 3, 2, 4}} {
			for i := range blk {
				for w := range blk[i] {
					blk[i][w] = fence
				}
			}
			blk[lay[2]], blk[lay[3]] = l, hh
			f(&blk[lay[0]], &blk[lay[1]], &blk[lay[2]], &blk[lay[3]])
			for w := range blk[0] {
				if blk[0][w] != fence || blk[5][w] != fence {
					return info, fmt.Errorf("%s [%s build]: adjacent-buffer layout %v: memory next to the buffers was overwritten", name, buildVariant, lay)
				}
			}
			for j := range lanes {
				for i := 0; i < curl.StateSize; i++ {
					got := int8(blk[lay[1]][i]>>uint(j)&1) - int8(blk[lay[0]][i]>>uint(j)&1)
					if got != want[j][i] {
						return info, fmt.Errorf("%s [%s build] with its four buffers adjacent in memory (layout #%d: lto, hto, lfrom, hfrom = blocks %v of one array): lane %d trit %d = %d, Curl-P-81 reference %d", name, buildVariant, li, lay, j, i, got, want[j][i])
					}
				}
			}
		}
	}
	return info, nil
}

func TestPortableStates(t *testing.T) {
	h.Run(t, h.Sub[portCase]{
		Prop: "C20", Name: "word-size-generic-states-" + buildVariant, N: 200,
		Gen: func(t *rapid.T) portCase {
			return portCase{Seed: rapid.Uint64().Draw(t, "seed"), Mode: rapid.IntRange(0, 5).Draw(t, "mode")}
		},
		Check: checkPortable, Require: []string{"portable/mode2", "portable/mode4"},
		Rule: "hook, every build target (amd64 default and purego, GOARCH=386 with 32-bit words): valid states of W = bits-per-word lanes (equal / single-trit differences / all different / sparse / all zero except one position or a short prefix) through the build-selected transform and transformGeneric in ordinary memory with canary words around all four buffers, and with the four buffers exactly adjacent in five orders; every lane = 81 rounds of scalar Curl-P; non-trivial = lanes differ; distinct by case",
	})
}

// ---- many successive calls in one process ----

type manyCase struct {
	Slot  int `json:"slot"` // 0, 1, 2: handled by shards 0, 1, 2 (one per build variant)
	Calls int `json:"calls"`
}

func TestManyCalls(t *testing.T) {
	calls := 1<<16 + 64
	if bits.UintSize == 32 {
		calls = 1<<12 + 64 // (the portable code on a 32-bit target is an order of magnitude slower)
	}
	h.RunEnum(t, h.Enum[manyCase]{
		Prop: "C20", Name: "many-successive-calls-" + buildVariant,
		Rule: "2^16+64 successive calls (2^12+64 on 32-bit targets) of the build-selected transform in one process on one valid state, each result compared word for word with the first one, which is checked against the scalar reference: nothing may depend on how often the routine was called before",
		Each: func(yield func(manyCase) bool) {
			for slot := 0; slot < 3; slot++ {
				if !yield(manyCase{slot, calls}) {
					return
				}
			}
		},
		Check: func(c manyCase) (h.Info, error) {
			info := h.Info{Class: "many-calls", NT: true}
			if _, err := checkPortable(portCase{Seed: 20, Mode: 2}); err != nil {
				return info, err
			}
			var l, hh [curl.StateSize]uint
			for j := 0; j < bits.UintSize; j++ {
				for i, tr := range laneTrits(20, 2, j, curl.StateSize) {
					if tr <= 0 {
						l[i] |= 1 << uint(j)
					}
					if tr >= 0 {
						hh[i] |= 1 << uint(j)
					}
				}
			}
			var firstL, firstH [curl.StateSize]uint
			for n := 0; n < c.Calls; n++ {
				inL, inH := l, hh
				var outL, outH [curl.StateSize]uint
				curl.VerifTransform(&outL, &outH, &inL, &inH)
				if n == 0 {
					firstL, firstH = outL, outH
				} else if outL != firstL || outH != firstH {
					return info, fmt.Errorf("call number %d of the build-selected transform [%s build] in this process gives a different result for the same state than the first call", n+1, buildVariant)
				}
			}
			return info, nil
		},
	})
}
