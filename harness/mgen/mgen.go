// Package mgen holds rapid generators for BIP-39 word sequences shared by C03 and C09.
package mgen

import (
	"sort"
	"strings"
	"sync"

	"golang.org/x/text/unicode/norm"
	"pgregory.net/rapid"

	"verifharness/h"
	"verifharness/hostile"
	ref "verifharness/ref/bip39"
)

// EntropyBytes draws n entropy bytes with emphasis on leading/trailing zeros, all-zero, all-ones, single bits.
func EntropyBytes(t *rapid.T, n int) []byte {
	e := rapid.SliceOfN(rapid.Byte(), n, n).Draw(t, "e")
	switch h.Pick(t, "shape", 6, 4, 2, 1, 1, 1) {
	case 1: // leading zero bytes
		z := rapid.IntRange(1, 8).Draw(t, "lz")
		for i := 0; i < z && i < n; i++ {
			e[i] = 0
		}
	case 2: // trailing zeros
		z := rapid.IntRange(1, 8).Draw(t, "tz")
		for i := 0; i < z && i < n; i++ {
			e[n-1-i] = 0
		}
	case 3:
		for i := range e {
			e[i] = 0
		}
	case 4:
		for i := range e {
			e[i] = 0xff
		}
	case 5: // single set bit
		for i := range e {
			e[i] = 0
		}
		bit := rapid.IntRange(0, 8*n-1).Draw(t, "bit")
		e[bit/8] = 0x80 >> uint(bit%8)
	}
	return e
}

// ValidSentence draws a valid sentence of a random (weighted to long) size.
func ValidSentence(t *rapid.T, l *ref.List) []string {
	n := 16 + 4*rapid.IntRange(0, 12).Draw(t, "n")
	return ref.Encode(l, EntropyBytes(t, n))
}

// Mutate applies one mutation to words (l = the active list, other = the other list) and names it.
func Mutate(t *rapid.T, words []string, l, other *ref.List) ([]string, string) {
	if len(words) == 0 {
		return words, "none"
	}
	p := rapid.IntRange(0, len(words)-1).Draw(t, "p")
	switch h.Pick(t, "mk", 5, 2, 4, 3, 1, 1, 1, 1, 1, 1, 2) {
	case 10: // a list word with something appended (an index keyed by a fixed-size prefix of the word
		// cannot tell the two apart), or a proper prefix of a list word that is not a word itself
		w := words[p]
		if h.Pick(t, "longest", 2, 1) == 1 { // one of the longest words of the list
			var longest []int // all words of maximal byte length
			for i, x := range l.Words {
				switch {
				case len(longest) == 0 || len(x) > len(l.Words[longest[0]]):
					longest = []int{i}
				case len(x) == len(l.Words[longest[0]]):
					longest = append(longest, i)
				}
			}
			w = l.Words[longest[rapid.IntRange(0, len(longest)-1).Draw(t, "longw")]]
		}
		alt := w + h.OneOf(t, "suffix", "s", "a", "x", "\u3093", "\u30fc", "\u3099", "0", "zz")
		if rapid.Bool().Draw(t, "cut") {
			r := []rune(w)
			alt = string(r[:len(r)-1])
		}
		if _, isWord := l.Index[alt]; isWord || alt == "" {
			alt = w + "qq"
		}
		words[p] = alt
		return words, "extended-or-cut-word"
	case 9: // a Unicode-equivalent spelling that is not the list's own (composed kana, full-width letters)
		alt := norm.NFC.String(words[p])
		if alt == words[p] {
			var b strings.Builder
			for _, r := range words[p] {
				if r >= 0x21 && r <= 0x7e {
					b.WriteRune(r - 0x21 + 0xff01)
				} else {
					b.WriteRune(r)
				}
			}
			alt = b.String()
		}
		words[p] = alt
		return words, "denormalized-word"
	case 0: // another word of the list (checksum decides)
		words[p] = l.Words[rapid.IntRange(0, 2047).Draw(t, "w")]
		return words, "other-word"
	case 1: // last word changed: checksum bits only
		words[len(words)-1] = l.Words[rapid.IntRange(0, 2047).Draw(t, "w")]
		return words, "last-word"
	case 2: // flip exactly one checksum bit (the last len/3 bits of the bit string)
		cs := len(words) / 3
		if cs < 1 {
			cs = 1
		}
		bit := rapid.IntRange(0, cs-1).Draw(t, "csbit") // 0 = last bit of the sentence
		wi := len(words) - 1 - bit/11
		if wi < 0 {
			wi = 0
		}
		if idx, ok := l.Index[words[wi]]; ok {
			words[wi] = l.Words[idx^(1<<uint(bit%11))]
		}
		return words, "checksum-bit-flip"
	case 3: // flip one bit anywhere
		wi := p
		if idx, ok := l.Index[words[wi]]; ok {
			words[wi] = l.Words[idx^(1<<uint(rapid.IntRange(0, 10).Draw(t, "bit")))]
		}
		return words, "bit-flip"
	case 4: // word of the other list
		words[p] = other.Words[rapid.IntRange(0, 2047).Draw(t, "w")]
		return words, "foreign-word"
	case 5: // malformed word
		w := words[p]
		bad := []string{strings.ToUpper(w), w + " ", " " + w, "", w + w, "abandonn", strings.Title(w)}
		if len(w) > 1 {
			bad = append(bad, w[:len(w)-1])
		}
		words[p] = bad[rapid.IntRange(0, len(bad)-1).Draw(t, "bad")]
		return words, "malformed-word"
	case 6: // drop a word
		return append(words[:p], words[p+1:]...), "drop"
	case 7: // duplicate a word
		return append(words[:p+1], words[p:]...), "duplicate"
	default: // swap two words
		q := rapid.IntRange(0, len(words)-1).Draw(t, "q")
		words[p], words[q] = words[q], words[p]
		return words, "swap"
	}
}

// ---- impostor words: strings outside the list that collide with a list word under a short hash ----

var (
	impOnce sync.Map // lang -> *[][2]string
)

// Impostors returns pairs (impostor, word): impostor is not in the list but has the same 32-bit FNV-1a
// or FNV-1 hash as word. Found by exhaustive search over short strings of the list's own characters
// (6 letters for English, 4 kana for Japanese; the search stops at six finds per hash variant); computed once per process and list.
func Impostors(l *ref.List, lang string) [][2]string {
	if v, ok := impOnce.Load(lang); ok {
		return *(v.(*[][2]string))
	}
	seen := map[rune]bool{}
	var units []string
	for _, w := range l.Words {
		for _, r := range w {
			if !seen[r] {
				seen[r] = true
				units = append(units, string(r))
			}
		}
	}
	sort.Strings(units)
	k := 6
	if len(units) > 40 {
		k = 4
	}
	var out [][2]string
	for _, a := range []bool{true, false} {
		out = append(out, hostile.FNVCollisions(l.Words[:], units, k, a, 6)...)
	}
	impOnce.Store(lang, &out)
	return out
}

// ImpostorSentence draws a sentence that would be valid if the impostor at one position were the list
// word it collides with (checksum computed for that word); it is invalid: the impostor is not a word.
func ImpostorSentence(t *rapid.T, l *ref.List, lang string) ([]string, bool) {
	imps := Impostors(l, lang)
	if len(imps) == 0 {
		return nil, false
	}
	pair := imps[rapid.IntRange(0, len(imps)-1).Draw(t, "imp")]
	n := 16 + 4*rapid.IntRange(0, 12).Draw(t, "n")
	e := EntropyBytes(t, n)
	p := rapid.IntRange(0, n*8/11-1).Draw(t, "ip") // a word whose 11 bits are all entropy bits
	idx := l.Index[pair[1]]
	for b := 0; b < 11; b++ { // write the word's index into entropy bits [11p, 11p+11)
		bit := p*11 + b
		if idx>>(10-b)&1 == 1 {
			e[bit/8] |= 0x80 >> uint(bit%8)
		} else {
			e[bit/8] &^= 0x80 >> uint(bit%8)
		}
	}
	words := ref.Encode(l, e)
	if words[p] != pair[1] {
		panic("ImpostorSentence: construction failed")
	}
	words[p] = pair[0]
	return words, true
}

// KnownImpostors returns the impostor pairs already computed for lang (nil if none were needed yet).
func KnownImpostors(lang string) [][2]string {
	if v, ok := impOnce.Load(lang); ok {
		return *(v.(*[][2]string))
	}
	return nil
}
