package mgen

import (
	"testing"
	"time"

	ref "verifharness/ref/bip39"
)

func TestImpostors(t *testing.T) {
	for _, lang := range []string{"english", "japanese"} {
		l, err := ref.Load(lang)
		if err != nil {
			t.Fatal(err)
		}
		st := time.Now()
		imps := Impostors(l, lang)
		t.Logf("%s: %d impostors in %v: %v", lang, len(imps), time.Since(st), imps)
		if len(imps) < 4 {
			t.Fatalf("too few impostors for %s", lang)
		}
	}
}
