// C05 — Bech32 Encode is BIP-173 conformant and Decode inverts it.
package c05

import (
	"bytes"
	"fmt"
	"testing"

	"github.com/wollac/iota-crypto-demo/pkg/bech32"
	"pgregory.net/rapid"

	"verifharness/bgen"
	"verifharness/fc"
	"verifharness/h"
	ref "verifharness/ref/bech32"
)

func TestMain(m *testing.M) {
	h.FirstCallsChild(fc.Bech32()) // never returns in a first-call child process
	if err := ref.SelfCheck(); err != nil {
		fmt.Println("VERIF-INFRA reference self-check failed:", err)
		panic(err)
	}
	h.Main(m)
}

type encCase struct {
	HRP  h.S `json:"hrp"`
	Data h.B `json:"data"`
}

// validHRP: printable ASCII 33..126 in a single case, at least one byte.
func hrpStatus(hrp string) (valid bool, why string, upper bool) {
	if len(hrp) == 0 {
		return false, "empty", false
	}
	lo, up := false, false
	for i := 0; i < len(hrp); i++ {
		c := hrp[i]
		if c < 33 || c > 126 {
			return false, "charrange", false
		}
		if c >= 'a' && c <= 'z' {
			lo = true
		}
		if c >= 'A' && c <= 'Z' {
			up = true
		}
	}
	if lo && up {
		return false, "mixed", false
	}
	return true, "", up
}

func checkEncode(c encCase) (h.Info, error) {
	hrp, data := string(c.HRP), []byte(c.Data)
	valid, why, upper := hrpStatus(hrp)
	nsym := (len(data)*8 + 4) / 5
	total := len(hrp) + 1 + nsym + 6
	fits := valid && total <= 90
	info := h.Info{}
	switch {
	case !valid:
		info = h.Info{Class: "reject/" + why}
	case !fits:
		info = h.Info{Class: "reject/too-long", NT: total <= 92}
	case total >= 89:
		info = h.Info{Class: "fits/at-limit", NT: true}
	default:
		info = h.Info{Class: fmt.Sprintf("fits/len%%5=%d", len(data)%5), NT: len(data) >= 1}
	}
	dataCopy := append([]byte{}, data...)
	got, err := bech32.Encode(hrp, data)
	// the same call again (and once more) gives the same answer: a verdict must not depend on what
	// the previous call with the same prefix left behind
	for rep := 0; rep < 2; rep++ {
		if g2, e2 := bech32.Encode(hrp, data); g2 != got || (e2 == nil) != (err == nil) {
			return info, fmt.Errorf("Encode(%q, %x) returned (%q, %v) and, called again with the same arguments (repetition %d), (%q, %v)", hrp, data, got, err, rep+1, g2, e2)
		}
	}
	if !bytes.Equal(data, dataCopy) {
		return info, fmt.Errorf("Encode modified its input data")
	}
	if !fits {
		if err == nil || got != "" {
			return info, fmt.Errorf("Encode(%q, %x) must fail (%s, total length %d) but returned %q, %v", hrp, data, info.Class, total, got, err)
		}
		return info, nil
	}
	if err != nil {
		return info, fmt.Errorf("Encode(%q, %x) failed: %v (total length %d fits)", hrp, data, err, total)
	}
	want := ref.EncodeSymbols(ref.AsciiLower(hrp), ref.ToSymbols(data))
	if upper {
		want = ref.AsciiUpper(want)
	}
	if got != want {
		return info, fmt.Errorf("Encode(%q, %x) = %q, BIP-173 reference %q", hrp, data, got, want)
	}
	// the result must not depend on what follows the slice in memory (spare capacity with garbage)
	big := append(append(make([]byte, 0, len(data)+40), data...), bytes.Repeat([]byte{0xff}, 40)...)
	if got2, err2 := bech32.Encode(hrp, big[:len(data)]); err2 != nil || got2 != got {
		return info, fmt.Errorf("Encode(%q, %x) gives %q, %v when the data slice has spare capacity holding other bytes", hrp, data, got2, err2)
	}
	if !bytes.Equal(big[:len(data)], data) || !bytes.Equal(big[len(data):], bytes.Repeat([]byte{0xff}, 40)) {
		return info, fmt.Errorf("Encode wrote into its input slice or beyond it")
	}
	dh, dd, err := bech32.Decode(got)
	if err != nil || dh != ref.AsciiLower(hrp) || !bytes.Equal(dd, data) {
		return info, fmt.Errorf("Decode(Encode(%q, %x)) = (%q, %x, %v)", hrp, data, dh, dd, err)
	}
	// decoding twice gives independent results (no shared buffers between calls)
	for i := range dd {
		dd[i] ^= 0xff
	}
	if _, dd2, err := bech32.Decode(got); err != nil || !bytes.Equal(dd2, data) {
		return info, fmt.Errorf("second Decode(%q) = %x, %v after the first result was overwritten", got, dd2, err)
	}
	// independent reading of the produced string
	if r := ref.Decode(got); !r.OK || r.HRP != ref.AsciiLower(hrp) || !bytes.Equal(r.Data, data) {
		return info, fmt.Errorf("reference decoder on Encode(%q, %x) = %q: %+v", hrp, data, got, r)
	}
	return info, nil
}

func genEncode(t *rapid.T) encCase {
	var hl int
	switch h.Pick(t, "hlk", 5, 3, 2, 1) {
	case 0:
		hl = rapid.IntRange(1, 6).Draw(t, "hl")
	case 1:
		hl = rapid.IntRange(1, 83).Draw(t, "hl")
	case 2:
		hl = rapid.IntRange(75, 86).Draw(t, "hl")
	default:
		hl = 0
	}
	hrp := bgen.HRP(t, hl)
	if h.Pick(t, "knownhrp", 7, 1) == 1 { // prefixes in actual use (a table of precomputed prefix states would name these)
		hrp = h.OneOf(t, "khrp", bgen.KnownHRPs...)
		hl = len(hrp)
	}
	// data length: either free or aimed at the 90-character boundary
	room := 90 - hl - 7
	var dl int
	if room > 0 && rapid.Bool().Draw(t, "atlimit") {
		dl = room*5/8 + rapid.IntRange(-1, 1).Draw(t, "off")
		if dl < 0 {
			dl = 0
		}
	} else {
		dl = rapid.IntRange(0, 56).Draw(t, "dl")
	}
	data := rapid.SliceOfN(rapid.Byte(), dl, dl).Draw(t, "data")
	switch h.Pick(t, "hk", 8, 4, 1, 1, 1) {
	case 1:
		hrp = bgen.Upper(hrp)
	case 2:
		hrp = bgen.FlipCase(t, hrp)
		if rapid.Bool().Draw(t, "alsoUp") {
			hrp = bgen.FlipCase(t, bgen.Upper(hrp))
		}
	case 3: // byte outside 33..126
		if len(hrp) > 0 {
			p := rapid.IntRange(0, len(hrp)-1).Draw(t, "p")
			hrp = hrp[:p] + string([]byte{h.OneOf(t, "bad", byte(32), 127, 0, 31, 128, 255, 9)}) + hrp[p+1:]
		}
	case 4: // non-ASCII rune / folding trap
		if len(hrp) > 0 {
			p := rapid.IntRange(0, len(hrp)-1).Draw(t, "p")
			hrp = hrp[:p] + h.OneOf(t, "rune", "K", "İ", "ſ", "é", "ｑ") + hrp[p+1:]
		}
	}
	return encCase{HRP: h.S(hrp), Data: h.B(data)}
}

func TestEncode(t *testing.T) {
	h.Run(t, h.Sub[encCase]{
		Prop: "C05", Name: "encode", N: 120000,
		Gen: genEncode, Check: checkEncode,
		Require: []string{"fits/at-limit", "reject/too-long", "reject/mixed", "reject/charrange", "reject/empty",
			"fits/len%5=0", "fits/len%5=1", "fits/len%5=2", "fits/len%5=3", "fits/len%5=4"},
		Rule: "(hrp, data) with hrp length 0..86 (lower / upper / mixed / bad byte / non-ASCII rune) and data length 0..56 incl. lengths aimed at the 90-character limit; non-trivial = fits with >= 1 data byte, or within 2 characters above the limit; distinct by (hrp, data)",
	})
}

// Complete sweep of all (len(hrp), len(data)) pairs on both sides of every limit.
type pairCase struct {
	HL, DL  int
	Content int // 0 zeros, 1 ones, 2 counting pattern, 3 upper-case hrp + pattern
}

// ---- concurrent first use of a prefix ----

type concCase struct {
	Base   h.S   `json:"base"`   // trial j uses the prefix Base + decimal(j): never seen before by the process
	Data   []h.B `json:"data"`   // one data string per goroutine
	Trials int   `json:"trials"` // fresh prefixes per case
}

var concSerial int // makes every prefix of every case new to this process

func checkConcurrent(c concCase) (h.Info, error) {
	info := h.Info{Class: fmt.Sprintf("goroutines=%d", len(c.Data)), NT: true}
	if ok, _, _ := hrpStatus(string(c.Base)); !ok {
		return info, fmt.Errorf("PRECONDITION: invalid base prefix")
	}
	for j := 0; j < c.Trials; j++ {
		concSerial++
		hrp := fmt.Sprintf("%s%d", string(c.Base), concSerial)
		want := make([]string, len(c.Data))
		for g, d := range c.Data {
			want[g] = ref.EncodeSymbols(ref.AsciiLower(hrp), ref.ToSymbols(d))
			if _, _, up := hrpStatus(hrp); up {
				want[g] = ref.AsciiUpper(want[g])
			}
			if len(want[g]) > 90 {
				return info, fmt.Errorf("PRECONDITION: case too long")
			}
		}
		err := h.Parallel(len(c.Data), func(g int) error {
			for it := 0; it < 3; it++ {
				got, err := bech32.Encode(hrp, c.Data[g])
				if err != nil || got != want[g] {
					return fmt.Errorf("goroutine %d of %d encoding with the prefix %q for the first time in this process (call %d): Encode(%q, %x) = %q, %v; BIP-173 reference %q", g, len(c.Data), hrp, it, hrp, []byte(c.Data[g]), got, err, want[g])
				}
				if dh, dd, err := bech32.Decode(got); err != nil || dh != ref.AsciiLower(hrp) || !bytes.Equal(dd, c.Data[g]) {
					return fmt.Errorf("goroutine %d of %d (prefix %q new to the process): Decode(%q) = (%q, %x, %v)", g, len(c.Data), hrp, got, dh, dd, err)
				}
			}
			return nil
		})
		if err != nil {
			return info, err
		}
	}
	return info, nil
}

func TestConcurrentFirstUse(t *testing.T) {
	h.Run(t, h.Sub[concCase]{
		Prop: "C05", Name: "concurrent-first-use", N: 100,
		Gen: func(t *rapid.T) concCase {
			c := concCase{Trials: 25}
			hl := h.OneOf(t, "hl", 1, 4, 20, 60, 70)
			base := bgen.HRP(t, hl)
			if rapid.Bool().Draw(t, "upper") {
				base = ref.AsciiUpper(base)
			}
			c.Base = h.S(base)
			for i := h.OneOf(t, "g", 2, 4, 8); i > 0; i-- {
				c.Data = append(c.Data, h.Bytes(t, "d", 0, 3))
			}
			return c
		},
		Check:   checkConcurrent,
		Require: []string{"goroutines=2", "goroutines=4", "goroutines=8"},
		Rule:    "schedules: 25 trials per case, each with a prefix (1..80 characters, either case) that this process has never encoded before; 2..8 goroutines released together encode their own data with that prefix (three calls each) and decode the result; every string = BIP-173 reference; all non-trivial",
	})
}

func (p pairCase) build() encCase {
	hrp := make([]byte, p.HL)
	for i := range hrp {
		hrp[i] = "abcdefghijklmnopqrstuvwxyz0123456789!~"[(i*7+p.DL)%38]
	}
	data := make([]byte, p.DL)
	for i := range data {
		switch p.Content {
		case 0:
			data[i] = 0
		case 1:
			data[i] = 0xff
		default:
			data[i] = byte(i*37 + p.HL)
		}
	}
	s := string(hrp)
	if p.Content == 3 {
		s = ref.AsciiUpper(s)
	}
	return encCase{HRP: h.S(s), Data: h.B(data)}
}

func TestPairSweep(t *testing.T) {
	h.RunEnum(t, h.Enum[pairCase]{
		Prop: "C05", Name: "length-pair-sweep",
		Rule: "complete enumeration of (len(hrp) 0..86) x (len(data) 0..56) x 4 contents (zeros, ones, pattern, upper-case hrp); all distinct by construction, all counted non-trivial (the length rule decides)",
		Each: func(yield func(pairCase) bool) {
			for hl := 0; hl <= 86; hl++ {
				for dl := 0; dl <= 56; dl++ {
					for c := 0; c < 4; c++ {
						if !yield(pairCase{hl, dl, c}) {
							return
						}
					}
				}
			}
		},
		Check: func(p pairCase) (h.Info, error) {
			info, err := checkEncode(p.build())
			info.NT = true
			return info, err
		},
		Require: []string{"fits/at-limit", "reject/too-long", "reject/empty"},
	})
}

// FuzzGenEncode: the structured generator driven by Go's coverage-guided fuzzer (thorough tier).
func FuzzGenEncode(f *testing.F) {
	h.FuzzSub(f, h.Sub[encCase]{Prop: "C05", Name: "encode", Gen: genEncode, Check: checkEncode})
}

// which public entry point is called first in a process (and by how many goroutines at once)
func TestFirstCalls(t *testing.T) { h.FirstCallsSub(t, "C05", fc.Bech32(), 6) }
