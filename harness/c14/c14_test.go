// C14 — b1t6 and b1t8 are exact, strict byte/trit codecs.
package c14

import (
	"bytes"
	"encoding/json"
	"errors"
	"fmt"
	"os"
	"runtime"
	"strings"
	"testing"
	"time"

	"github.com/iotaledger/iota.go/trinary"
	"github.com/wollac/iota-crypto-demo/pkg/encoding/b1t6"
	"github.com/wollac/iota-crypto-demo/pkg/encoding/b1t8"
	"pgregory.net/rapid"

	"verifharness/h"
	ref "verifharness/ref/trit"
)

func TestMain(m *testing.M) {
	if spec, ok := h.ChildSpec("VERIF_C14_CHILD"); ok {
		firstUseChild(spec) // never returns
	}
	if err := ref.SelfCheck(); err != nil {
		fmt.Println("VERIF-INFRA reference self-check failed:", err)
		panic(err)
	}
	h.Main(m)
}

func eqTrits(a trinary.Trits, b []int8) bool {
	if len(a) != len(b) {
		return false
	}
	for i := range a {
		if a[i] != b[i] {
			return false
		}
	}
	return true
}

// ---- first use of the codecs, by several goroutines at once, in a fresh process ----

type firstUse struct {
	Inputs []h.B `json:"inputs"` // one byte string per goroutine
	Entry  []int `json:"entry"`  // which entry point each goroutine calls first (index into entryNames)
}

var entryNames = []string{"b1t6.DecodeTrytes", "b1t6.Decode", "b1t6.EncodeToTrytes", "b1t6.Encode", "b1t8.Decode", "b1t8.Encode"}

// firstUseChild runs in the re-executed child: the goroutines' calls below are the first calls into the
// two codec packages in this process.
func firstUseChild(spec string) {
	var c firstUse
	if err := json.Unmarshal([]byte(spec), &c); err != nil {
		fmt.Println("CHILD-BAD-SPEC", err)
		os.Exit(3)
	}
	type prep struct {
		trits6, trits8 []int8
		trytes         string
	}
	preps := make([]prep, len(c.Inputs))
	for g, in := range c.Inputs { // reference only: no library call before the barrier
		preps[g] = prep{ref.B1T6Encode(in), ref.B1T8Encode(in), ref.TritsToTrytes(ref.B1T6Encode(in))}
	}
	err := h.Parallel(len(c.Inputs), func(g int) error {
		in, p := []byte(c.Inputs[g]), preps[g]
		for round := 0; round < 2; round++ {
			switch c.Entry[g] {
			case 0:
				got, err := b1t6.DecodeTrytes(p.trytes)
				if err != nil || !bytes.Equal(got, in) {
					return fmt.Errorf("b1t6.DecodeTrytes(%q) = %x, %v; want %x", p.trytes, got, err, in)
				}
			case 1:
				dst := make([]byte, len(in)+1)
				n, err := b1t6.Decode(dst, trinary.Trits(p.trits6))
				if err != nil || n != len(in) || !bytes.Equal(dst[:n], in) {
					return fmt.Errorf("b1t6.Decode(%v) = %x (n=%d), %v; want %x", p.trits6, dst, n, err, in)
				}
			case 2:
				if got := b1t6.EncodeToTrytes(in); got != p.trytes {
					return fmt.Errorf("b1t6.EncodeToTrytes(%x) = %q; want %q", in, got, p.trytes)
				}
			case 3:
				dst := make(trinary.Trits, len(p.trits6))
				if n := b1t6.Encode(dst, in); n != len(p.trits6) || !eqTrits(dst, p.trits6) {
					return fmt.Errorf("b1t6.Encode(%x) = %v; want %v", in, dst, p.trits6)
				}
			case 4:
				dst := make([]byte, len(in)+1)
				n, err := b1t8.Decode(dst, trinary.Trits(p.trits8))
				if err != nil || n != len(in) || !bytes.Equal(dst[:n], in) {
					return fmt.Errorf("b1t8.Decode(%v) = %x (n=%d), %v; want %x", p.trits8, dst, n, err, in)
				}
			default:
				dst := make(trinary.Trits, len(p.trits8))
				if n := b1t8.Encode(dst, in); n != len(p.trits8) || !eqTrits(dst, p.trits8) {
					return fmt.Errorf("b1t8.Encode(%x) = %v; want %v", in, dst, p.trits8)
				}
			}
		}
		return nil
	})
	if err != nil {
		fmt.Println("CHILD-MISMATCH", err)
		os.Exit(1)
	}
	fmt.Println("CHILD-OK")
	os.Exit(0)
}

func checkFirstUse(c firstUse) (h.Info, error) {
	info := h.Info{Class: fmt.Sprintf("goroutines=%d", len(c.Inputs)), NT: true}
	if len(c.Entry) != len(c.Inputs) {
		return info, fmt.Errorf("PRECONDITION: entry list")
	}
	spec, _ := json.Marshal(c)
	for rep := 0; rep < 8; rep++ { // a first-use race has one chance per process
		out, timedOut, err := h.RunChild("VERIF_C14_CHILD", string(spec), 60*time.Second)
		switch {
		case strings.Contains(out, "CHILD-OK"):
			continue
		case strings.Contains(out, "CHILD-MISMATCH"):
			return info, fmt.Errorf("first calls into the codecs in a fresh process (attempt %d), %d goroutines at once (entry points %v): %s", rep, len(c.Inputs), c.Entry, strings.TrimSpace(out[strings.Index(out, "CHILD-MISMATCH")+15:]))
		case timedOut:
			return info, fmt.Errorf("PRECONDITION: child process timed out (infrastructure)")
		case strings.Contains(out, "panic:") || strings.Contains(out, "fatal error:"):
			return info, fmt.Errorf("first calls into the codecs in a fresh process (attempt %d), %d goroutines at once (entry points %v): the process crashed: %.600s", rep, len(c.Inputs), c.Entry, out)
		default:
			return info, fmt.Errorf("PRECONDITION: child process could not run (infrastructure): %v %.300s", err, out)
		}
	}
	return info, nil
}

func TestFirstUse(t *testing.T) {
	h.Run(t, h.Sub[firstUse]{
		Prop: "C14", Name: "concurrent-first-use-child-process", N: 48, MaxN: 4000,
		Gen: func(t *rapid.T) firstUse {
			var c firstUse
			same := h.Pick(t, "same", 1, 1) == 1
			e0 := rapid.IntRange(0, len(entryNames)-1).Draw(t, "e0")
			for i := h.OneOf(t, "g", 2, 4, 8); i > 0; i-- {
				c.Inputs = append(c.Inputs, h.Bytes(t, "in", 1, 40))
				if same {
					c.Entry = append(c.Entry, e0)
				} else {
					c.Entry = append(c.Entry, rapid.IntRange(0, len(entryNames)-1).Draw(t, "e"))
				}
			}
			return c
		},
		Check:   checkFirstUse,
		Require: []string{"goroutines=2", "goroutines=8"},
		Rule:    "schedules: the test binary re-executes itself 8 times per case; in each fresh process 2..8 goroutines released together make the process's first calls into b1t6/b1t8 (DecodeTrytes, Decode, EncodeToTrytes, Encode; all the same entry point or mixed) on their own valid inputs, twice; every result = reference; all non-trivial",
	})
}

// ---- encode direction ----

type bytesCase struct {
	Data h.B `json:"data"`
}

func checkEncode(c bytesCase) (h.Info, error) {
	data := []byte(c.Data)
	info := h.Info{Class: "bytes", NT: len(data) >= 2}
	if len(data) == 1 {
		info.Class = "single-byte"
		info.NT = true
	}
	if len(data) == 0 {
		info.Class = "empty"
	}
	orig := append([]byte{}, data...)
	// b1t6
	want6 := ref.B1T6Encode(data)
	if b1t6.EncodedLen(len(data)) != len(want6) {
		return info, fmt.Errorf("b1t6.EncodedLen(%d) = %d, want %d", len(data), b1t6.EncodedLen(len(data)), len(want6))
	}
	dst := make(trinary.Trits, len(want6)+3)
	for i := range dst {
		dst[i] = 7
	}
	n := b1t6.Encode(dst, data)
	if n != len(want6) || !eqTrits(dst[:len(want6)], want6) {
		return info, fmt.Errorf("b1t6.Encode(%x) = %v (n=%d), reference %v", data, dst[:len(want6)], n, want6)
	}
	for _, x := range dst[len(want6):] {
		if x != 7 {
			return info, fmt.Errorf("b1t6.Encode(%x) wrote past EncodedLen", data)
		}
	}
	try := b1t6.EncodeToTrytes(data)
	// the earlier result must stay what it was after further calls (no shared scratch buffers)
	other := make([]byte, len(data))
	for i := range other {
		other[i] = ^data[i]
	}
	_ = b1t6.EncodeToTrytes(other)
	_ = b1t6.EncodeToTrytes(append(other, 0x55, 0xaa))
	if try != ref.TritsToTrytes(want6) {
		return info, fmt.Errorf("b1t6.EncodeToTrytes(%x) = %q, tryte form of the trit encoding is %q", data, try, ref.TritsToTrytes(want6))
	}
	back := bytes.Repeat([]byte{0xff}, b1t6.DecodedLen(len(want6))) // a reused, dirty destination
	k, err := b1t6.Decode(back, dst[:len(want6)])
	if err != nil || k != len(data) || !bytes.Equal(back[:k], data) {
		return info, fmt.Errorf("b1t6.Decode(Encode(%x)) = %x (n=%d), %v", data, back, k, err)
	}
	tb, err := b1t6.DecodeTrytes(try)
	if err != nil || !bytes.Equal(tb, data) {
		return info, fmt.Errorf("b1t6.DecodeTrytes(EncodeToTrytes(%x)) = %x, %v", data, tb, err)
	}
	// b1t8
	want8 := ref.B1T8Encode(data)
	if b1t8.EncodedLen(len(data)) != len(want8) {
		return info, fmt.Errorf("b1t8.EncodedLen(%d) = %d", len(data), b1t8.EncodedLen(len(data)))
	}
	dst8 := make(trinary.Trits, len(want8)+3)
	for i := range dst8 {
		dst8[i] = 7
	}
	n = b1t8.Encode(dst8, data)
	if n != len(want8) || !eqTrits(dst8[:len(want8)], want8) {
		return info, fmt.Errorf("b1t8.Encode(%x) = %v (n=%d), reference %v", data, dst8[:len(want8)], n, want8)
	}
	for _, x := range dst8[len(want8):] {
		if x != 7 {
			return info, fmt.Errorf("b1t8.Encode(%x) wrote past EncodedLen", data)
		}
	}
	back8 := bytes.Repeat([]byte{0xff}, b1t8.DecodedLen(len(want8))) // a reused, dirty destination
	k, err = b1t8.Decode(back8, dst8[:len(want8)])
	if err != nil || k != len(data) || !bytes.Equal(back8[:k], data) {
		return info, fmt.Errorf("b1t8.Decode(Encode(%x)) = %x (n=%d), %v", data, back8, k, err)
	}
	if !bytes.Equal(data, orig) {
		return info, fmt.Errorf("input modified")
	}
	return info, nil
}

func TestAllBytes(t *testing.T) {
	h.RunEnum(t, h.Enum[bytesCase]{
		Prop: "C14", Name: "all-256-bytes",
		Rule: "complete enumeration of the 256 single-byte inputs for both codecs and the tryte form; all non-trivial, distinct by construction",
		Each: func(yield func(bytesCase) bool) {
			for b := 0; b < 256; b++ {
				if !yield(bytesCase{Data: h.B{byte(b)}}) {
					return
				}
			}
		},
		Check: checkEncode, Require: []string{"single-byte"},
	})
}

func TestEncodeRoundTrip(t *testing.T) {
	h.Run(t, h.Sub[bytesCase]{
		Prop: "C14", Name: "encode-roundtrip", N: 20000,
		Gen: func(t *rapid.T) bytesCase {
			switch h.Pick(t, "k", 6, 1, 1, 1) {
			case 3: // long inputs
				return bytesCase{Data: h.BytesN(t, "long", h.OneOf(t, "ll", 255, 256, 257, 1000, 4096, 5000))}
			case 1:
				n := rapid.IntRange(0, 200).Draw(t, "n")
				return bytesCase{Data: bytes.Repeat([]byte{h.OneOf(t, "b", byte(0), 0x7f, 0x80, 0xff, 0x01)}, n)}
			case 2:
				return bytesCase{Data: h.Bytes(t, "d", 0, 3)}
			}
			return bytesCase{Data: h.Bytes(t, "d", 0, 200)}
		},
		Check: checkEncode, Require: []string{"bytes", "empty"},
		Rule: "byte strings of length 0..200: encode (both codecs, trit and tryte form) = reference, decode returns the input; non-trivial = >= 2 bytes; distinct by content",
	})
}

// large inputs under several scheduler widths (anything that splits work by GOMAXPROCS or by chunks)
type largeCase struct {
	Len   int    `json:"len"`
	Procs int    `json:"gomaxprocs"`
	Seed  uint64 `json:"seed"`
}

func TestLargeInputs(t *testing.T) {
	h.Run(t, h.Sub[largeCase]{
		Prop: "C14", Name: "large-inputs-x-gomaxprocs", N: 40,
		Gen: func(t *rapid.T) largeCase {
			return largeCase{Len: h.OneOf(t, "len", 65535, 65536, 65537, 65539, 70001, 100003, 131072, 131075), Procs: h.OneOf(t, "procs", 1, 2, 3, 5, 7, 12, 16), Seed: rapid.Uint64().Draw(t, "seed")}
		},
		Check: func(c largeCase) (h.Info, error) {
			if c.Len < 0 || c.Len > 1<<20 || c.Procs < 1 || c.Procs > 64 {
				return h.Info{}, fmt.Errorf("PRECONDITION: large case")
			}
			old := runtime.GOMAXPROCS(c.Procs)
			defer runtime.GOMAXPROCS(old)
			data := make([]byte, c.Len)
			s := c.Seed
			for i := range data {
				s = s*6364136223846793005 + 1442695040888963407
				data[i] = byte(s >> 56)
			}
			data[len(data)-1] |= 1 // the last bytes are never all zero
			info, err := checkEncode(bytesCase{Data: data})
			info.Class, info.NT = "large", true
			if err != nil {
				msg := err.Error()
				if len(msg) > 600 {
					msg = msg[:300] + " ... " + msg[len(msg)-200:]
				}
				return info, fmt.Errorf("GOMAXPROCS=%d, %d bytes (seed %d): %s", c.Procs, c.Len, c.Seed, msg)
			}
			return info, nil
		},
		Rule: "configurations: inputs of 64 KiB..128 KiB (at, just below and just above 65536 and 131072, and lengths not divisible by small numbers) under GOMAXPROCS 1, 2, 3, 5, 7, 12, 16: the full encode/decode check of both codecs; all non-trivial",
	})
}

// ---- decode direction ----

type tritsCase struct {
	Codec string `json:"codec"` // "b1t6", "b1t6-trytes", "b1t8"
	Trits []int8 `json:"trits"`
}

func checkDecode(c tritsCase) (h.Info, error) {
	for _, x := range c.Trits {
		if x < -1 || x > 1 {
			return h.Info{Class: "bad-case"}, fmt.Errorf("PRECONDITION: non-trit %d in case", x)
		}
	}
	src := trinary.Trits(append([]int8{}, c.Trits...))
	switch c.Codec {
	case "b1t6":
		want, werr := ref.B1T6Decode(c.Trits)
		info := classify(c.Codec, len(c.Trits), 6, werr)
		// a destination of exactly DecodedLen(len(src)) bytes (what the documentation asks for), then one
		// with a spare byte
		exact := bytes.Repeat([]byte{0xa5}, b1t6.DecodedLen(len(src)))
		n0, err0 := b1t6.Decode(exact, src)
		if e := compare("b1t6.Decode [dst of exactly DecodedLen bytes]", c.Trits, n0, exact, err0, want, werr, b1t6.ErrInvalidTrits, b1t6.ErrInvalidLength); e != nil {
			return info, e
		}
		dst := bytes.Repeat([]byte{0xa5}, b1t6.DecodedLen(len(src))+1)
		n, err := b1t6.Decode(dst, src)
		if e := compare("b1t6.Decode", c.Trits, n, dst, err, want, werr, b1t6.ErrInvalidTrits, b1t6.ErrInvalidLength); e != nil {
			return info, e
		}
		if werr == nil {
			re := make(trinary.Trits, len(src))
			b1t6.Encode(re, dst[:n])
			if !eqTrits(re, c.Trits) {
				return info, fmt.Errorf("b1t6: accepted %v re-encodes to %v", c.Trits, re)
			}
		}
		if !eqTrits(src, c.Trits) {
			return info, fmt.Errorf("b1t6.Decode modified its input")
		}
		return info, nil
	case "b1t6-trytes":
		if len(c.Trits)%3 != 0 {
			return h.Info{Class: "bad-case"}, fmt.Errorf("PRECONDITION: trit count %d not a tryte multiple", len(c.Trits))
		}
		want, werr := ref.B1T6Decode(c.Trits)
		info := classify(c.Codec, len(c.Trits), 6, werr)
		trytes := ref.TritsToTrytes(c.Trits)
		got, err := b1t6.DecodeTrytes(trytes)
		switch {
		case werr == nil:
			if err != nil || !bytes.Equal(got, want) {
				return info, fmt.Errorf("b1t6.DecodeTrytes(%q) = %x, %v; reference %x", trytes, got, err, want)
			}
			if re := b1t6.EncodeToTrytes(got); re != trytes {
				return info, fmt.Errorf("b1t6: accepted %q re-encodes to %q", trytes, re)
			}
		case werr == ref.ErrTrits:
			if !errors.Is(err, b1t6.ErrInvalidTrits) { // (what accompanies the error is not prescribed for the tryte form)
				return info, fmt.Errorf("b1t6.DecodeTrytes(%q) = %x, %v; want the invalid-trits error", trytes, got, err)
			}
		default:
			if !errors.Is(err, b1t6.ErrInvalidLength) {
				return info, fmt.Errorf("b1t6.DecodeTrytes(%q) = %x, %v; want the invalid-length error", trytes, got, err)
			}
		}
		return info, nil
	case "b1t8":
		want, werr := ref.B1T8Decode(c.Trits)
		info := classify(c.Codec, len(c.Trits), 8, werr)
		exact := bytes.Repeat([]byte{0xa5}, b1t8.DecodedLen(len(src)))
		n0, err0 := b1t8.Decode(exact, src)
		if e := compare("b1t8.Decode [dst of exactly DecodedLen bytes]", c.Trits, n0, exact, err0, want, werr, b1t8.ErrInvalidTrit, b1t8.ErrInvalidLength); e != nil {
			return info, e
		}
		dst := bytes.Repeat([]byte{0xa5}, b1t8.DecodedLen(len(src))+1)
		n, err := b1t8.Decode(dst, src)
		if e := compare("b1t8.Decode", c.Trits, n, dst, err, want, werr, b1t8.ErrInvalidTrit, b1t8.ErrInvalidLength); e != nil {
			return info, e
		}
		if werr == nil {
			re := make(trinary.Trits, len(src))
			b1t8.Encode(re, dst[:n])
			if !eqTrits(re, c.Trits) {
				return info, fmt.Errorf("b1t8: accepted %v re-encodes to %v", c.Trits, re)
			}
		}
		return info, nil
	}
	return h.Info{Class: "bad-case"}, fmt.Errorf("PRECONDITION: unknown codec %q", c.Codec)
}

func classify(codec string, n, group int, werr error) h.Info {
	groups := n / group
	switch {
	case werr == nil:
		return h.Info{Class: codec + "/accept", NT: groups >= 2}
	case werr == ref.ErrTrits:
		return h.Info{Class: codec + "/invalid-trits", NT: groups >= 2 || n%group != 0}
	default:
		return h.Info{Class: codec + "/invalid-length", NT: true}
	}
}

func compare(fn string, in []int8, n int, dst []byte, err error, want []byte, werr error, errTrits, errLen error) error {
	switch {
	case werr == nil:
		if err != nil || n != len(want) || !bytes.Equal(dst[:n], want) {
			return fmt.Errorf("%s(%v) = %x (n=%d), %v; reference accepts with %x", fn, in, dst[:min(n, len(dst))], n, err, want)
		}
	case werr == ref.ErrTrits:
		if !errors.Is(err, errTrits) || errors.Is(err, errLen) && errTrits != errLen {
			return fmt.Errorf("%s(%v): err = %v, want the invalid-trits error", fn, in, err)
		}
		if n != len(want) || !bytes.Equal(dst[:n], want) {
			return fmt.Errorf("%s(%v): %d bytes %x decoded before the fault, reference %d bytes %x", fn, in, n, dst[:min(n, len(dst))], len(want), want)
		}
	default:
		if !errors.Is(err, errLen) {
			return fmt.Errorf("%s(%v): err = %v, want the invalid-length error", fn, in, err)
		}
		if n != len(want) || !bytes.Equal(dst[:n], want) {
			return fmt.Errorf("%s(%v): %d bytes %x decoded before the fault, reference %d bytes %x", fn, in, n, dst[:min(n, len(dst))], len(want), want)
		}
	}
	return nil
}

func TestAllGroups(t *testing.T) {
	h.RunEnum(t, h.Enum[tritsCase]{
		Prop: "C14", Name: "all-groups",
		Rule: "complete enumeration: all 729 six-trit groups (b1t6 trits and tryte pairs) and all 6561 eight-trit groups over {-1,0,1} (b1t8); all non-trivial, distinct by construction",
		Each: func(yield func(tritsCase) bool) {
			for v := 0; v < 729; v++ {
				g := make([]int8, 6)
				x := v
				for i := range g {
					g[i] = int8(x%3) - 1
					x /= 3
				}
				if !yield(tritsCase{"b1t6", g}) || !yield(tritsCase{"b1t6-trytes", g}) {
					return
				}
			}
			for v := 0; v < 6561; v++ {
				g := make([]int8, 8)
				x := v
				for i := range g {
					g[i] = int8(x%3) - 1
					x /= 3
				}
				if !yield(tritsCase{"b1t8", g}) {
					return
				}
			}
		},
		Check: func(c tritsCase) (h.Info, error) {
			info, err := checkDecode(c)
			info.NT = true
			return info, err
		},
		Require: []string{"b1t6/accept", "b1t6/invalid-trits", "b1t8/accept", "b1t8/invalid-trits", "b1t6-trytes/accept", "b1t6-trytes/invalid-trits"},
	})
}

// all ordered pairs of six-trit groups: first fault wins, count of decoded bytes
func TestAllGroupPairs(t *testing.T) {
	stride := 7
	if h.Thorough() {
		stride = 1
	}
	h.RunEnum(t, h.Enum[tritsCase]{
		Prop: "C14", Name: "b1t6-group-pairs",
		Rule: fmt.Sprintf("enumeration of ordered pairs of six-trit groups (729 x 729, every %d-th pair; thorough: all 531 441) through b1t6.Decode and DecodeTrytes: verdict, error kind and decoded count = reference", stride),
		Each: func(yield func(tritsCase) bool) {
			n := 0
			for a := 0; a < 729; a++ {
				for b := 0; b < 729; b++ {
					n++
					if n%stride != 0 {
						continue
					}
					g := make([]int8, 12)
					x, y := a, b
					for i := 0; i < 6; i++ {
						g[i] = int8(x%3) - 1
						x /= 3
						g[6+i] = int8(y%3) - 1
						y /= 3
					}
					codec := "b1t6"
					if n%2 == 0 {
						codec = "b1t6-trytes"
					}
					if !yield(tritsCase{codec, g}) {
						return
					}
				}
			}
		},
		Check: func(c tritsCase) (h.Info, error) {
			info, err := checkDecode(c)
			info.NT = true
			return info, err
		},
	})
}

func genTrits(t *rapid.T) tritsCase {
	codec := h.OneOf(t, "codec", "b1t6", "b1t6-trytes", "b1t8")
	group := 6
	if codec == "b1t8" {
		group = 8
	}
	ng := rapid.IntRange(0, 12).Draw(t, "groups")
	longInput := h.Pick(t, "long", 30, 1) == 1
	if longInput { // hundreds or thousands of groups: an invalid group may sit at index 255, 256, 511, 65535, ...
		ng = h.OneOf(t, "lgroups", 256, 257, 300, 512, 513, 600, 65536, 65537) + rapid.IntRange(0, 3).Draw(t, "lextra")
	}
	data := h.BytesN(t, "bytes", ng)
	var tr []int8
	if group == 6 {
		tr = ref.B1T6Encode(data)
	} else {
		tr = ref.B1T8Encode(data)
	}
	// optionally corrupt one or two groups
	nbad := h.Pick(t, "nbad", 5, 4, 1)
	for b := 0; b < nbad && ng > 0; b++ {
		gi := rapid.IntRange(0, ng-1).Draw(t, "badgroup")
		if longInput {
			gi = h.OneOf(t, "lbad", 254, 255, 256, 257, 510, 511, 512, 65534, 65535, 65536, ng-1) % ng
		}
		if group == 6 {
			// a value outside -128..127: 128..364 or -364..-129
			v := rapid.IntRange(128, 364).Draw(t, "badv")
			if rapid.Bool().Draw(t, "neg") {
				v = -v - 1
			}
			copy(tr[gi*6:], ref.FromValue(v, 6))
		} else {
			tr[gi*8+rapid.IntRange(0, 7).Draw(t, "badpos")] = -1
		}
	}
	// remainder
	rem := 0
	if h.Pick(t, "remk", 3, 2) == 1 {
		rem = rapid.IntRange(1, group-1).Draw(t, "rem")
		if codec == "b1t6-trytes" {
			rem = 3
		}
	}
	for i := 0; i < rem; i++ {
		lo := -1
		if group == 8 && h.Pick(t, "remvalid", 3, 1) == 0 {
			lo = 0
		}
		tr = append(tr, int8(rapid.IntRange(lo, 1).Draw(t, "rt")))
	}
	return tritsCase{Codec: codec, Trits: tr}
}

func TestDecode(t *testing.T) {
	var req []string
	for _, c := range []string{"b1t6", "b1t6-trytes", "b1t8"} {
		for _, k := range []string{"accept", "invalid-trits", "invalid-length"} {
			req = append(req, c+"/"+k)
		}
	}
	h.Run(t, h.Sub[tritsCase]{
		Prop: "C14", Name: "decode", N: 60000,
		Gen: genTrits, Check: checkDecode, Require: req,
		Rule: "0..12 valid groups with 0..2 groups replaced by non-code-words and an optional remainder of 1..group-1 trits (b1t8: possibly containing an invalid trit): expected (count, error kind) from the reference; accepted inputs must re-encode to themselves; non-trivial = >= 2 groups or a remainder; distinct by (codec, trits)",
	})
}

// FuzzGenDecode: the structured generator driven by Go's coverage-guided fuzzer (thorough tier).
func FuzzGenDecode(f *testing.F) {
	h.FuzzSub(f, h.Sub[tritsCase]{Prop: "C14", Name: "decode", Gen: genTrits, Check: checkDecode})
}
