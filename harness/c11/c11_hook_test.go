//go:build verif

package c11

import (
	"fmt"
	"math/bits"
	"testing"

	"github.com/wollac/iota-crypto-demo/pkg/pow"
	"golang.org/x/crypto/blake2b"
	"pgregory.net/rapid"

	"verifharness/h"
	ref "verifharness/ref/pow"
)

// bit-plane test of checkStateTrits (hook): index of the first lane whose last n trits are zero.
// W: lanes per bit plane = bits per machine word of the build target.
const W = bits.UintSize

type planeCase struct {
	Seed  uint64 `json:"seed"`
	N     int    `json:"n"`     // required trailing zeros
	Zeros []int  `json:"zeros"` // per-lane number of trailing zeros forced (64 entries, -1 = leave random)
}

func splitmix(x *uint64) uint64 {
	*x += 0x9e3779b97f4a7c15
	z := *x
	z = (z ^ (z >> 30)) * 0xbf58476d1ce4e5b9
	z = (z ^ (z >> 27)) * 0x94d049bb133111eb
	return z ^ (z >> 31)
}

func checkPlane(c planeCase) (h.Info, error) {
	if len(c.Zeros) != 64 || c.N < 0 || c.N > 243 {
		return h.Info{}, fmt.Errorf("PRECONDITION: plane case")
	}
	var l, hh [243]uint
	s := c.Seed
	want := W
	for j := 0; j < W; j++ {
		tr := make([]int8, 243)
		for i := range tr {
			tr[i] = int8(splitmix(&s)%3) - 1
		}
		if z := c.Zeros[j]; z >= 0 {
			for i := 243 - z; i < 243; i++ {
				tr[i] = 0
			}
			if z < 243 && tr[243-z-1] == 0 {
				tr[243-z-1] = 1 // exactly z trailing zeros
			}
		}
		if ref.TrailingZeros(tr) >= c.N && want == W {
			want = j
		}
		for i, t := range tr {
			if t <= 0 {
				l[i] |= 1 << uint(j)
			}
			if t >= 0 {
				hh[i] |= 1 << uint(j)
			}
		}
	}
	cls := "plane/none-qualifies"
	switch {
	case want == 0:
		cls = "plane/lane0"
	case want == W-1:
		cls = "plane/last-lane"
	case want < W:
		cls = "plane/middle-lane"
	}
	info := h.Info{Class: cls, NT: true}
	got := pow.VerifCheckStateTrits(&l, &hh, uint(c.N))
	if got != want && !(want == W && got >= W) {
		return info, fmt.Errorf("checkStateTrits(n=%d) = %d, first lane with >= %d trailing zero trits is %d", c.N, got, c.N, want)
	}
	return info, nil
}

func TestPlanes(t *testing.T) {
	h.Run(t, h.Sub[planeCase]{
		Prop: "C11", Name: "bit-plane-check(hook)", N: 6000,
		Gen: func(t *rapid.T) planeCase {
			c := planeCase{Seed: rapid.Uint64().Draw(t, "seed"), N: rapid.IntRange(0, 12).Draw(t, "n"), Zeros: make([]int, 64)}
			if h.Pick(t, "big", 8, 1) == 1 {
				c.N = h.OneOf(t, "nb", 40, 81, 242, 243)
			}
			for j := range c.Zeros {
				c.Zeros[j] = -1
			}
			k := rapid.IntRange(0, 4).Draw(t, "forced")
			for i := 0; i < k; i++ {
				lane := h.OneOf(t, "lane", 0, W-1, rapid.IntRange(0, W-1).Draw(t, "anylane"))
				c.Zeros[lane] = c.N + rapid.IntRange(-1, 1).Draw(t, "dz")
				if c.Zeros[lane] < 0 {
					c.Zeros[lane] = 0
				}
				if c.Zeros[lane] > 243 {
					c.Zeros[lane] = 243
				}
			}
			return c
		},
		Check: checkPlane, Require: []string{"plane/lane0", "plane/last-lane", "plane/middle-lane", "plane/none-qualifies"},
		Rule: "hook: W-lane bit planes (W = bits per machine word: 64, or 32 in the GOARCH=386 variant) with random hashes and lanes forced to exactly n-1 / n / n+1 trailing zeros at lane 0, W-1 or random; checkStateTrits must return the first lane with >= n trailing zero trits (or >= W when none); all non-trivial; distinct by case",
	})
}

// trailingZeros (hook) = reference chain
type tzCase struct {
	Data  h.B    `json:"data"`
	Nonce uint64 `json:"nonce"`
}

func TestTrailingZeros(t *testing.T) {
	h.Run(t, h.Sub[tzCase]{
		Prop: "C11", Name: "trailing-zeros(hook)", N: 1500,
		Gen: func(t *rapid.T) tzCase {
			return tzCase{h.Bytes(t, "data", 0, 64), rapid.Uint64().Draw(t, "nonce")}
		},
		Check: func(c tzCase) (h.Info, error) {
			d := blake2b.Sum256(c.Data)
			want := ref.TrailingZeros(ref.HashFor(d, c.Nonce))
			info := h.Info{Class: fmt.Sprintf("tz/%d", min(want, 2)), NT: want >= 1}
			if got := pow.VerifTrailingZeros(d[:], c.Nonce); got != want {
				return info, fmt.Errorf("trailingZeros(digest of %x, nonce %d) = %d, reference %d", []byte(c.Data), c.Nonce, got, want)
			}
			return info, nil
		},
		Require: []string{"tz/0", "tz/1"},
		Rule:    "hook: trailingZeros(BLAKE2b digest, nonce) = trailing zeros of the reference Curl-P-81 hash of the b1t6-encoded block; non-trivial = >= 1 zero",
	})
}
