package c11

// The child-process sub-checks live in this file so that they run first (go test runs tests in file
// order): a defect that makes Mine hang in-process must not keep the crash detection from running.

import (
	"testing"

	"verifharness/h"
)

func TestMineLowTargets(t *testing.T) {
	h.Run(t, h.Sub[mineCase]{
		Prop: "C11", Name: "mine-low-targets-child-process", N: 64,
		Gen: genLow, Check: checkMineChild,
		Rule: "trivially low targets (1/len, 1/(3 len), 1/(9 len), 1/(10 len), just below those, 1e-300, smallest subnormal, 0, -0, -1, -1e300) x data x workers {1,2,4,16}: Mine runs in a child process (the test binary re-executes itself) which must exit 0 and print a nonce whose Score >= target; a crash of the child is the violation; all non-trivial; distinct by case",
	})
}

// every low target x workers {1, 16} x two data lengths, complete
func TestLowTargetGrid(t *testing.T) {
	h.RunEnum(t, h.Enum[mineCase]{
		Prop: "C11", Name: "low-target-grid-child-process",
		Rule: "complete grid: 13 trivially low targets x workers {1, 16} x data lengths {0, 19}, each in a child process",
		Each: func(yield func(mineCase) bool) {
			for _, dl := range []int{0, 19} {
				data := make([]byte, dl)
				for i := range data {
					data[i] = byte(i + 1)
				}
				for _, w := range []int{1, 16} {
					for _, o := range lowTargets(float64(dl + 8)) {
						if !yield(mineCase{Data: data, Workers: w, Target: bitsOf(o.f), Class: o.name}) {
							return
						}
					}
				}
			}
		},
		Check:   checkMineChild,
		Require: []string{"child/zero", "child/negative", "child/1/(3len)", "child/subnormal", "child/1e-300"},
	})
}
