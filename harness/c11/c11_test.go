// C11 — PoW (v1) nonces returned by Mine meet the requested score; Score is the stated function.
package c11

import (
	"bytes"
	"context"
	"crypto"
	_ "crypto/md5"
	_ "crypto/sha1"
	_ "crypto/sha256"
	"encoding/binary"
	"encoding/json"
	"fmt"
	"math"
	"math/big"
	"os"
	"os/exec"
	"strconv"
	"strings"
	"testing"
	"time"

	"github.com/wollac/iota-crypto-demo/pkg/pow"
	"pgregory.net/rapid"

	_ "golang.org/x/crypto/blake2s"
	_ "golang.org/x/crypto/ripemd160"

	"verifharness/fc"
	"verifharness/h"
	"verifharness/ref/curl"
	ref "verifharness/ref/pow"
	"verifharness/ref/trit"
)

func TestMain(m *testing.M) {
	h.FirstCallsChild(fc.Pow()) // never returns in a first-call child process
	if spec := os.Getenv("VERIF_POW_CHILD"); spec != "" {
		childMain(spec) // never returns
	}
	if err := trit.SelfCheck(); err != nil {
		panic(err)
	}
	if err := curl.SelfCheck(); err != nil {
		fmt.Println("VERIF-INFRA reference self-check failed:", err)
		panic(err)
	}
	if err := ref.SelfCheck(); err != nil {
		fmt.Println("VERIF-INFRA reference self-check failed:", err)
		panic(err)
	}
	h.Main(m)
}

// ---- Score ----

type scoreCase struct {
	Msg h.B `json:"msg"`
}

func ulpDistance(a, b float64) uint64 {
	if a == b {
		return 0
	}
	x, y := math.Float64bits(a), math.Float64bits(b)
	if x > y {
		return x - y
	}
	return y - x
}

func checkScore(c scoreCase) (h.Info, error) {
	if len(c.Msg) < 8 {
		return h.Info{}, fmt.Errorf("PRECONDITION: message shorter than a nonce")
	}
	exact, z := ref.ScoreV1(c.Msg)
	want, _ := exact.Float64()
	info := h.Info{Class: fmt.Sprintf("score/z=%d", min(z, 3)), NT: z >= 1}
	got := pow.Score(append([]byte{}, c.Msg...))
	if ulpDistance(got, want) > 2 {
		return info, fmt.Errorf("Score(%x) = %v, reference 3^%d/%d = %v", []byte(c.Msg), got, z, len(c.Msg), want)
	}
	return info, nil
}

func TestScore(t *testing.T) {
	h.Run(t, h.Sub[scoreCase]{
		Prop: "C11", Name: "score", N: 2500,
		Gen: func(t *rapid.T) scoreCase {
			n := rapid.IntRange(8, 200).Draw(t, "len")
			switch h.Pick(t, "lk", 6, 2, 1) {
			case 1:
				n = h.OneOf(t, "lc", 8, 9, 40, 72)
			case 2:
				n = h.OneOf(t, "ll", 136, 137, 264, 1032, 5000)
			}
			return scoreCase{h.BytesN(t, "msg", n)}
		},
		Check: checkScore, Require: []string{"score/z=0", "score/z=1", "score/z=2"},
		Rule: "random messages of 8..200 bytes: Score = nearest float64 to 3^z/len within 2 ulp, z from the independent BLAKE2b -> b1t6 -> Curl-P-81 chain; non-trivial = z >= 1; distinct by message",
	})
}

// ---- Mine ----

type mineCase struct {
	Data    h.B    `json:"data"`
	Workers int    `json:"workers"`
	Target  string `json:"target"` // float64 as hex bits (exact)
	Class   string `json:"class"`
	// Hash: crypto.Hash to install in the package-level pow.Hash for this call (0 = the default BLAKE2b-256);
	// Mine and Score must agree whatever digest function is configured
	Hash uint `json:"hash,omitempty"`
}

func (c mineCase) target() float64 {
	b, _ := strconv.ParseUint(c.Target, 16, 64)
	return math.Float64frombits(b)
}

func bitsOf(f float64) string { return strconv.FormatUint(math.Float64bits(f), 16) }

func msgOf(data []byte, nonce uint64) []byte {
	var nb [8]byte
	binary.LittleEndian.PutUint64(nb[:], nonce)
	return append(append([]byte{}, data...), nb[:]...)
}

// judge decides a returned nonce: literal statement Score(data||nonce) >= target, with the
// package's own Score (validated by the score sub-check) and the exact reference as a second opinion.
func judge(c mineCase, nonce uint64) error {
	msg := msgOf(c.Data, nonce)
	target := c.target()
	got := pow.Score(msg)
	if !(got >= target) && c.Hash != 0 {
		return fmt.Errorf("with pow.Hash = %v: Mine(data=%x, target=%v [%s], workers=%d) returned nonce %d with Score %v < target", crypto.Hash(c.Hash), []byte(c.Data), target, c.Class, c.Workers, nonce, got)
	}
	if !(got >= target) {
		exact, z := ref.ScoreV1(msg)
		f, _ := exact.Float64()
		return fmt.Errorf("Mine(data=%x, target=%v [%s], workers=%d) returned nonce %d with Score %v < target (reference: %d trailing zeros, 3^z/len = %v)", []byte(c.Data), target, c.Class, c.Workers, nonce, got, z, f)
	}
	// second opinion with exact arithmetic: 3^z/len >= target (as rationals), tolerance: none needed
	// when Score's float is >= target only by rounding we accept, the statement is about Score.
	return nil
}

func checkMine(c mineCase) (h.Info, error) {
	target := c.target()
	if math.IsNaN(target) || math.IsInf(target, 0) {
		return h.Info{}, fmt.Errorf("PRECONDITION: target not finite")
	}
	ell := float64(len(c.Data) + 8)
	if target > math.Pow(3, 10)/ell*1.0001 {
		return h.Info{}, fmt.Errorf("PRECONDITION: target too expensive for the harness")
	}
	info := h.Info{Class: "mine/" + c.Class, NT: c.Class != "random"}
	if c.Hash != 0 {
		if !crypto.Hash(c.Hash).Available() || crypto.Hash(c.Hash).Size() > 32 {
			return h.Info{}, fmt.Errorf("PRECONDITION: hash %d", c.Hash)
		}
		old := pow.Hash
		pow.Hash = crypto.Hash(c.Hash)
		defer func() { pow.Hash = old }()
		info.Class = "mine-other-digest/" + c.Class
	}
	ctx, cancel := context.WithTimeout(context.Background(), 60*time.Second)
	defer cancel()
	data := append([]byte{}, c.Data...)
	// Worker objects are reused from case to case (no state may survive a call)
	w, ok := workers[c.Workers]
	if !ok {
		w = pow.New(c.Workers)
		workers[c.Workers] = w
	}
	type res struct {
		nonce uint64
		err   error
	}
	ch := make(chan res, 1)
	go func() {
		n, e := w.Mine(ctx, data, target)
		ch <- res{n, e}
	}()
	var nonce uint64
	var err error
	select {
	case r := <-ch:
		nonce, err = r.nonce, r.err
	case <-time.After(100 * time.Second):
		// termination is property C13's statement, not C11's: inconclusive here
		h.InfraAndExit("C11", "mine", c, fmt.Sprintf("Mine(data=%x, target=%v, workers=%d) did not return within 100 s (40 s after its context expired); C11 cannot be decided, see C13", []byte(c.Data), target, c.Workers))
	}
	if err != nil {
		// the statement constrains nonces returned WITHOUT error; an error return is not a violation
		// (the vacuity guard requires that successful cases exist)
		return h.Info{Class: "mine-error/" + c.Class}, nil
	}
	if !bytes.Equal(data, c.Data) {
		return info, fmt.Errorf("Mine modified data")
	}
	return info, judge(c, nonce)
}

var workers = map[int]*pow.Worker{}

// cancelled calls: whatever Mine returns without error must still meet the target
type cancelCase struct {
	Data    h.B    `json:"data"`
	Workers int    `json:"workers"`
	K       int    `json:"k"`              // target 3^k/len, k large enough not to be found at once
	DelayUs int    `json:"delay_us"`       // -1 = cancelled before the call
	Mode    string `json:"mode,omitempty"` // how the context ends: see h.ContextFor
}

func TestMineCancelled(t *testing.T) {
	h.Run(t, h.Sub[cancelCase]{
		Prop: "C11", Name: "mine-cancelled", N: 160,
		Gen: func(t *rapid.T) cancelCase {
			return cancelCase{Data: h.Bytes(t, "data", 0, 40), Workers: h.OneOf(t, "workers", 1, 2, 4, 8), K: rapid.IntRange(12, 40).Draw(t, "k"), DelayUs: rapid.IntRange(-1, 3000).Draw(t, "delay"), Mode: h.OneOf(t, "ctxmode", "", "", "deadline", "deadline", "cause", "custom")}
		},
		Check: func(c cancelCase) (h.Info, error) {
			target := math.Pow(3, float64(c.K)) / float64(len(c.Data)+8)
			ctx, end, release := h.ContextFor(c.Mode, c.DelayUs)
			if c.DelayUs < 0 {
				end()
			} else {
				go func() { time.Sleep(time.Duration(c.DelayUs) * time.Microsecond); end() }()
			}
			defer release()
			w, ok := workers[c.Workers]
			if !ok {
				w = pow.New(c.Workers)
				workers[c.Workers] = w
			}
			nonce, err := w.Mine(ctx, append([]byte{}, c.Data...), target)
			info := h.Info{Class: "cancelled/error", NT: true}
			if err != nil {
				return info, nil
			}
			info.Class = "cancelled/nonce"
			if got := pow.Score(msgOf(c.Data, nonce)); !(got >= target) {
				return info, fmt.Errorf("Mine(data=%x, target=3^%d/len, workers=%d) with a context cancelled after %d us returned nonce %d WITHOUT error although its Score %v is below the target %v", []byte(c.Data), c.K, c.Workers, c.DelayUs, nonce, got, target)
			}
			return info, nil
		},
		Require: []string{"cancelled/error"},
		Rule:    "targets needing 12..40 zero trits with the context cancelled before the call or after 0..3 ms: a nonce returned without error must still satisfy Score >= target (an error is fine); all non-trivial; distinct by case",
	})
}

// ---- histories on one Worker: what an earlier call (cancelled, on long data, ...) leaves behind ----

type histStep struct {
	DataLen int  `json:"data_len"` // data = pattern of this length (long data spans many hash blocks)
	Fill    byte `json:"fill"`
	K       int  `json:"k"`      // target 3^k/len
	Cancel  int  `json:"cancel"` // 0 never, 1 context cancelled before the call, 2 cancelled after 200 us
}

type histCase struct {
	Workers int        `json:"workers"`
	Steps   []histStep `json:"steps"`
}

func patternData(n int, fill byte) []byte {
	d := make([]byte, n)
	for i := range d {
		d[i] = fill + byte(i*7)
	}
	return d
}

// mineGuarded calls Mine with a 60 s context and, should the call not return within 100 s, ends the
// process as inconclusive: termination is C13's statement, C11 cannot be decided by a call that hangs.
func mineGuarded(sub string, c any, w *pow.Worker, cancelMode int, data []byte, target float64) (uint64, error) {
	ctx, cancel := context.WithTimeout(context.Background(), 60*time.Second)
	defer cancel()
	switch cancelMode {
	case 1:
		cancel()
	case 2:
		go func() { time.Sleep(200 * time.Microsecond); cancel() }()
	}
	type res struct {
		nonce uint64
		err   error
	}
	ch := make(chan res, 1)
	go func() {
		n, e := w.Mine(ctx, data, target)
		ch <- res{n, e}
	}()
	select {
	case r := <-ch:
		return r.nonce, r.err
	case <-time.After(100 * time.Second):
		h.InfraAndExit("C11", sub, c, fmt.Sprintf("Mine(%d bytes of data, target=%v) did not return within 100 s (40 s after its context expired); C11 cannot be decided, see C13", len(data), target))
	}
	return 0, nil
}

func checkHistory(c histCase) (h.Info, error) {
	w := pow.New(c.Workers)
	info := h.Info{Class: "history/plain", NT: len(c.Steps) > 1}
	sawCancelled := false
	for i, st := range c.Steps {
		data := patternData(st.DataLen, st.Fill)
		target := boundary(st.K, st.DataLen+8)
		nonce, err := mineGuarded("mine-histories", c, w, st.Cancel, data, target)
		if err != nil {
			if st.Cancel != 0 {
				sawCancelled = true
			}
			continue // an error return is not a violation of this property
		}
		if sawCancelled && st.Cancel == 0 {
			info.Class = "history/success-after-cancelled-call"
		}
		if got := pow.Score(msgOf(data, nonce)); !(got >= target) {
			return info, fmt.Errorf("call %d of a history on one Worker (%d workers; steps %+v): Mine(data = %d pattern bytes, target 3^%d/len) returned nonce %d without error, but its Score %v is below the target %v", i, c.Workers, c.Steps, st.DataLen, st.K, nonce, got, target)
		}
	}
	return info, nil
}

func TestMineHistories(t *testing.T) {
	h.Run(t, h.Sub[histCase]{
		Prop: "C11", Name: "mine-histories", N: 200,
		Gen: func(t *rapid.T) histCase {
			c := histCase{Workers: h.OneOf(t, "workers", 1, 2, 4)}
			for i, n := 0, rapid.IntRange(2, 4).Draw(t, "n"); i < n; i++ {
				st := histStep{Fill: rapid.Byte().Draw(t, "fill"), K: rapid.IntRange(0, 7).Draw(t, "k")}
				switch h.Pick(t, "lk", 3, 2, 2) {
				case 0:
					st.DataLen = rapid.IntRange(0, 64).Draw(t, "dl")
				case 1:
					st.DataLen = h.OneOf(t, "dll", 127, 128, 129, 1000, 4096)
				default:
					st.DataLen = h.OneOf(t, "dlx", 65535, 65536, 65537, 131073, 200000)
				}
				st.Cancel = h.Pick(t, "cancel", 3, 2, 1)
				if st.Cancel != 0 {
					st.K = rapid.IntRange(0, 30).Draw(t, "kc")
				}
				c.Steps = append(c.Steps, st)
			}
			c.Steps[len(c.Steps)-1].Cancel = 0
			if c.Steps[len(c.Steps)-1].K > 7 {
				c.Steps[len(c.Steps)-1].K = 7
			}
			return c
		},
		Check:   checkHistory,
		Require: []string{"history/success-after-cancelled-call"},
		Rule:    "histories of 2..4 Mine calls on one Worker: data lengths 0..64, around hash-block sizes and 64 KiB..200000 bytes, targets 3^k/len, each call uncancelled, cancelled before it starts or cancelled after 200 us; every nonce returned without error must meet its own target; non-trivial = at least two calls",
	})
}

// ---- concurrent Mine calls on one shared Worker ----

type concCase struct {
	Workers int        `json:"workers"`
	Jobs    []mineCase `json:"jobs"`
	Iters   int        `json:"iters"`
}

func checkConcurrent(c concCase) (h.Info, error) {
	info := h.Info{Class: fmt.Sprintf("goroutines=%d", len(c.Jobs)), NT: len(c.Jobs) > 1}
	w := pow.New(c.Workers)
	err := h.Parallel(len(c.Jobs), func(g int) error {
		jb := c.Jobs[g]
		for it := 0; it < c.Iters; it++ {
			nonce, err := mineGuarded("concurrent-callers-one-worker", c, w, 0, append([]byte{}, jb.Data...), jb.target())
			if err != nil {
				continue
			}
			if e := judge(jb, nonce); e != nil {
				return fmt.Errorf("goroutine %d of %d calling Mine on one shared Worker, call %d: %w", g, len(c.Jobs), it, e)
			}
		}
		return nil
	})
	return info, err
}

func TestMineConcurrent(t *testing.T) {
	h.Run(t, h.Sub[concCase]{
		Prop: "C11", Name: "concurrent-callers-one-worker", N: 60,
		Gen: func(t *rapid.T) concCase {
			c := concCase{Workers: h.OneOf(t, "workers", 1, 2, 4), Iters: 6}
			for i := h.OneOf(t, "g", 2, 4, 8); i > 0; i-- {
				jb := mineCase{Data: h.Bytes(t, "data", 0, 40), Workers: c.Workers, Class: "concurrent"}
				jb.Target = bitsOf(boundary(rapid.IntRange(3, 7).Draw(t, "k"), len(jb.Data)+8))
				c.Jobs = append(c.Jobs, jb)
			}
			return c
		},
		Check:   checkConcurrent,
		Require: []string{"goroutines=2", "goroutines=8"},
		Rule:    "schedules: 2..8 goroutines released together call Mine on ONE shared Worker (1..4 worker goroutines each), each with its own data and a target of 3..7 zero trits, 6 times; every nonce returned without error must meet the caller's own target for the caller's own data; all non-trivial",
	})
}

// ---- many calls with an already cancelled context, from many goroutines ----

type stormCase struct {
	Workers    int `json:"workers"`
	Goroutines int `json:"goroutines"`
	Calls      int `json:"calls"` // per goroutine
	K          int `json:"k"`
}

func TestCancelledStorm(t *testing.T) {
	h.Run(t, h.Sub[stormCase]{
		Prop: "C11", Name: "cancelled-call-storm", N: 8, MaxN: 400,
		Gen: func(t *rapid.T) stormCase {
			return stormCase{Workers: h.OneOf(t, "workers", 1, 2, 4, 8), Goroutines: h.OneOf(t, "g", 4, 16), Calls: 400, K: rapid.IntRange(14, 30).Draw(t, "k")}
		},
		Check: func(c stormCase) (h.Info, error) {
			info := h.Info{Class: fmt.Sprintf("storm/workers=%d", c.Workers), NT: true}
			w := pow.New(c.Workers)
			ctx, cancel := context.WithCancel(context.Background())
			cancel()
			err := h.Parallel(c.Goroutines, func(g int) error {
				data := []byte{byte(g), byte(g >> 8), 7}
				target := boundary(c.K, len(data)+8)
				for i := 0; i < c.Calls; i++ {
					nonce, err := w.Mine(ctx, data, target)
					if err != nil {
						continue
					}
					if got := pow.Score(msgOf(data, nonce)); !(got >= target) {
						return fmt.Errorf("call %d of goroutine %d (%d goroutines x %d calls with an already cancelled context, %d workers, target 3^%d/len): Mine returned nonce %d WITHOUT error although its Score %v is below the target %v", i, g, c.Goroutines, c.Calls, c.Workers, c.K, nonce, got, target)
					}
				}
				return nil
			})
			return info, err
		},
		Rule: "schedules: 4..16 goroutines each issue 400 Mine calls with an already cancelled context and a target needing 14..30 zero trits (1..8 workers): whatever is returned without error must meet the target (a rare interleaving of the workers' exit and the caller's result handling must not produce a made-up nonce); all non-trivial",
	})
}

// boundary targets: fl(3^k/len) and its neighbours
func boundary(k int, ell int) float64 {
	r := new(big.Rat).SetFrac(ref.Pow3(k), big.NewInt(int64(ell)))
	f, _ := r.Float64()
	return f
}

func genMine(t *rapid.T) mineCase {
	c := mineCase{Data: h.Bytes(t, "data", 0, 64), Workers: h.OneOf(t, "workers", 1, 1, 2, 3, 4, 8, 16)}
	switch h.Pick(t, "dk", 8, 2, 1) {
	case 1:
		c.Data = h.BytesN(t, "data1", h.OneOf(t, "dl", 0, 1, 19, 64))
	case 2: // long data: several BLAKE2b blocks
		n := h.OneOf(t, "dll", 120, 128, 129, 1000, 4096, 65535, 65536, 65537, 70000, 131073)
		fill := rapid.Byte().Draw(t, "dfill")
		c.Data = make(h.B, n)
		for i := range c.Data {
			c.Data[i] = fill + byte(i*7)
		}
	}
	if h.Pick(t, "hash", 6, 1) == 1 {
		c.Hash = uint(h.OneOf(t, "hashid", crypto.SHA1, crypto.MD5, crypto.SHA224, crypto.RIPEMD160, crypto.SHA256, crypto.BLAKE2s_256))
	}
	ell := len(c.Data) + 8
	k := rapid.IntRange(0, 7).Draw(t, "k")
	if h.Pick(t, "deep", 6, 1) == 1 {
		k = 8
	}
	q := boundary(k, ell)
	switch h.Pick(t, "tk", 3, 4, 3, 3, 2) {
	case 0:
		c.Target, c.Class = bitsOf(q), "at-boundary"
	case 1:
		c.Target, c.Class = bitsOf(math.Nextafter(q, math.Inf(1))), "one-ulp-above"
	case 2:
		c.Target, c.Class = bitsOf(math.Nextafter(q, 0)), "one-ulp-below"
	case 3: // math.Pow-style boundary: the float quotient of float powers
		f := math.Pow(3, float64(k)) / float64(ell)
		d := rapid.IntRange(-2, 2).Draw(t, "ulps")
		for i := 0; i < d; i++ {
			f = math.Nextafter(f, math.Inf(1))
		}
		for i := 0; i > d; i-- {
			f = math.Nextafter(f, 0)
		}
		c.Target, c.Class = bitsOf(f), "float-quotient+-2ulp"
	default:
		hi := boundary(7, ell)
		c.Target, c.Class = bitsOf(rapid.Float64Range(math.SmallestNonzeroFloat64, hi).Draw(t, "rt")), "random"
	}
	return c
}

func TestMine(t *testing.T) {
	h.Run(t, h.Sub[mineCase]{
		Prop: "C11", Name: "mine", N: 500,
		Gen: genMine, Check: checkMine,
		Require: []string{"mine/at-boundary", "mine/one-ulp-above", "mine/one-ulp-below", "mine/float-quotient+-2ulp", "mine/random", "mine-other-digest/at-boundary"},
		Rule:    "data of 0..64 bytes x workers {1,2,3,4,8,16} x targets exactly at fl(3^k/len), one ulp above and below (k = 0..8), the float quotient pow(3,k)/len +-2 ulp, and random targets, one case in seven with another digest function installed in pow.Hash (SHA-1, MD5, SHA-224, RIPEMD-160, SHA-256, BLAKE2s); every nonce returned without error must satisfy Score(data||LE64(nonce)) >= target; non-trivial = boundary target; distinct by case",
	})
}

// complete boundary grid: k = 0..6 x len = 9..72 x {at, +1ulp, -1ulp}, one worker
func TestBoundaryGrid(t *testing.T) {
	maxK := 4
	if h.Thorough() {
		maxK = 7
	}
	h.RunEnum(t, h.Enum[mineCase]{
		Prop: "C11", Name: "boundary-grid",
		Rule: fmt.Sprintf("complete grid: k = 0..%d x message length 9..72 x targets {fl(3^k/len), +1 ulp, -1 ulp}, data = pattern bytes, 1 worker", maxK),
		Each: func(yield func(mineCase) bool) {
			for k := 0; k <= maxK; k++ {
				for ell := 9; ell <= 72; ell++ {
					data := make([]byte, ell-8)
					for i := range data {
						data[i] = byte(i*31 + ell + k)
					}
					q := boundary(k, ell)
					for i, f := range []float64{q, math.Nextafter(q, math.Inf(1)), math.Nextafter(q, 0)} {
						if !yield(mineCase{Data: data, Workers: 1, Target: bitsOf(f), Class: []string{"at-boundary", "one-ulp-above", "one-ulp-below"}[i]}) {
							return
						}
					}
				}
			}
		},
		Check: func(c mineCase) (h.Info, error) {
			info, err := checkMine(c)
			info.NT = true
			return info, err
		},
	})
}

// ---- trivially low targets, in a child process (a panic in a worker goroutine cannot be recovered) ----

type childResult struct {
	Nonce uint64 `json:"nonce"`
	Err   string `json:"err"`
}

func childMain(spec string) {
	var c mineCase
	if err := json.Unmarshal([]byte(spec), &c); err != nil {
		fmt.Println("CHILD-BAD-SPEC", err)
		os.Exit(3)
	}
	ctx, cancel := context.WithTimeout(context.Background(), 100*time.Second)
	defer cancel()
	nonce, err := pow.New(c.Workers).Mine(ctx, c.Data, c.target())
	res := childResult{Nonce: nonce}
	if err != nil {
		res.Err = err.Error()
	}
	b, _ := json.Marshal(res)
	fmt.Println("CHILD-RESULT " + string(b))
	os.Exit(0)
}

func checkMineChild(c mineCase) (h.Info, error) {
	info := h.Info{Class: "child/" + c.Class, NT: true}
	spec, _ := json.Marshal(c)
	cmd := exec.Command(os.Args[0], "-test.run", "^$")
	cmd.Env = append(os.Environ(), "VERIF_POW_CHILD="+string(spec))
	out, err := cmd.CombinedOutput()
	text := string(out)
	i := strings.Index(text, "CHILD-RESULT ")
	if err != nil || i < 0 {
		if strings.Contains(text, "CHILD-BAD-SPEC") || (err != nil && !strings.Contains(text, "panic") && !strings.Contains(text, "fatal error") && !strings.Contains(text, "goroutine ")) {
			return info, fmt.Errorf("PRECONDITION: child process could not run (infrastructure): %v %s", err, firstLines(text, 3))
		}
		return info, fmt.Errorf("Mine(data=%x, target=%v [%s], workers=%d) crashed the process: %v\n%s", []byte(c.Data), c.target(), c.Class, c.Workers, err, firstLines(text, 12))
	}
	var res childResult
	line := text[i+len("CHILD-RESULT "):]
	if j := strings.IndexByte(line, '\n'); j >= 0 {
		line = line[:j]
	}
	if err := json.Unmarshal([]byte(line), &res); err != nil {
		return info, fmt.Errorf("PRECONDITION: bad child output %q", line)
	}
	if res.Err != "" {
		// not crashing and not returning an unsound nonce is all the statement asks for low targets
		return h.Info{Class: "child-error/" + c.Class}, nil
	}
	return info, judge(c, res.Nonce)
}

func firstLines(s string, n int) string {
	lines := strings.Split(s, "\n")
	if len(lines) > n {
		lines = lines[:n]
	}
	return strings.Join(lines, "\n")
}

type lowTarget struct {
	name string
	f    float64
}

func lowTargets(ell float64) []lowTarget {
	q := 1 / ell
	return []lowTarget{
		{"1/len", q}, {"below-1/len", math.Nextafter(q, 0)}, {"1/(3len)", q / 3}, {"below-1/(3len)", math.Nextafter(q/3, 0)}, {"1/(10len)", q / 10},
		{"1e-300", 1e-300}, {"subnormal", math.SmallestNonzeroFloat64}, {"zero", 0}, {"negative", -1}, {"negative-zero", math.Copysign(0, -1)}, {"-1e300", -1e300},
		{"1/(9len)", q / 9}, {"1/(27len)+", math.Nextafter(q/27, 1)},
	}
}

func genLow(t *rapid.T) mineCase {
	c := mineCase{Data: h.Bytes(t, "data", 0, 64), Workers: h.OneOf(t, "workers", 1, 2, 4, 16)}
	opts := lowTargets(float64(len(c.Data) + 8))
	o := opts[rapid.IntRange(0, len(opts)-1).Draw(t, "low")]
	c.Target, c.Class = bitsOf(o.f), o.name
	return c
}

// which public entry point is called first in a process (and by how many goroutines at once)
func TestFirstCalls(t *testing.T) { h.FirstCallsSub(t, "C11", fc.Pow(), 6) }
