// C09 — BIP-39 seed is PBKDF2 over the normalized sentence and passphrase; sentence parsing.
package c09

import (
	"bytes"
	"crypto/sha512"
	"fmt"
	"strings"
	"sync"
	"testing"

	"github.com/wollac/iota-crypto-demo/pkg/bip39"
	"github.com/wollac/iota-crypto-demo/pkg/bip39/wordlist"
	"golang.org/x/text/unicode/norm"
	"pgregory.net/rapid"

	"verifharness/fc"
	"verifharness/h"
	"verifharness/mgen"
	ref "verifharness/ref/bip39"
)

// piece = (raw form, NFKD form) taken by hand from the Unicode character database
// (UnicodeData.txt decomposition mappings, canonical combining classes). Every raw form
// starts with a starter, so NFKD(concatenation) = concatenation of the NFKD forms.
type piece struct{ raw, nfkd string }

var pieces = []piece{
	{"a", "a"}, {"TREZOR", "TREZOR"}, {" ", " "}, {"0", "0"}, {"pass word", "pass word"},
	{"é", "é"},            // é
	{"Å", "Å"},            // Å
	{"Å", "Å"},            // ANGSTROM SIGN
	{"Ω", "Ω"},             // OHM SIGN -> GREEK CAPITAL OMEGA
	{"K", "K"},             // KELVIN SIGN
	{"ﬁ", "fi"},            // ligature fi
	{"Ａ", "A"}, {"１", "1"}, // fullwidth
	{"㌀", "アパート"}, // SQUARE APAATO -> アパート with decomposed パ
	{"한", "한"},   // Hangul HAN
	{"가", "가"},    // Hangul GA
	{"が", "が"},    // が
	{"ぱ", "ぱ"},    // ぱ
	{"ｶﾞ", "ガ"},   // halfwidth KA + halfwidth voiced mark
	{"ạ́", "ạ́"}, // combining marks in non-canonical order (230 before 220)
	{"ẛ̣", "ṩ"},  // UAX #15 example
	{"²", "2"}, {"½", "1⁄2"}, {"™", "TM"},
	{"ǅ", "Dž"},        // Dž
	{"　", " "},          // IDEOGRAPHIC SPACE
	{" ", " "},          // NO-BREAK SPACE
	{"ṩ", "ṩ"},        // ṩ
	{"Ǖ", "Ǖ"},        // Ǖ
	{"①", "1"},          // circled digit one
	{"ß", "ß"},          // ß unchanged
	{"\U0001d400", "A"}, // MATHEMATICAL BOLD CAPITAL A
	{" ", " "},          // EN SPACE
}

func TestMain(m *testing.M) {
	h.FirstCallsChild(fc.Bip39()) // never returns in a first-call child process
	if err := ref.SelfCheck(); err != nil {
		fmt.Println("VERIF-INFRA reference self-check failed:", err)
		panic(err)
	}
	// two opinions on NFKD: the hand table and x/text must agree, otherwise the oracle is wrong
	for _, p := range pieces {
		if got := norm.NFKD.String(p.raw); got != p.nfkd {
			fmt.Printf("VERIF-INFRA piece table disagrees with x/text NFKD for %+q: table %+q, x/text %+q\n", p.raw, p.nfkd, got)
			panic("piece table")
		}
	}
	h.Main(m)
}

var langs = []string{"english", "japanese"}

// seedLangs adds a word list registered by the harness through the public RegisterWordList: the English
// words in reverse order, behind an implementation that follows the documented contract of wordlist.List
// to the letter (Index panics for a word that is not contained).
const strictLang = "verif-strict"

var seedLangs = []string{"english", "japanese", strictLang, tolerantLang}

type strictList struct{ l *ref.List }

func (s strictList) Contains(w string) bool { _, ok := s.l.Index[w]; return ok }
func (s strictList) Word(i int) string      { return s.l.Words[i] }
func (s strictList) Index(w string) int {
	i, ok := s.l.Index[w]
	if !ok {
		panic("verif-strict word list: Index called for a word that is not contained: " + w)
	}
	return i
}

// tolerantLang: a second list registered by the harness whose Contains and Index ignore the case of ASCII
// letters (a legal List: it maps every spelling it accepts to an index). A sentence spelled "Legal winner ..."
// is then a valid mnemonic of that list, and its seed is PBKDF2 over the words as given.
const tolerantLang = "verif-tolerant"

type tolerantList struct{ l *ref.List }

func (s tolerantList) Contains(w string) bool { _, ok := s.l.Index[strings.ToLower(w)]; return ok }
func (s tolerantList) Word(i int) string      { return s.l.Words[i] }
func (s tolerantList) Index(w string) int {
	i, ok := s.l.Index[strings.ToLower(w)]
	if !ok {
		panic("verif-tolerant word list: Index called for a word that is not contained: " + w)
	}
	return i
}

// refWords: the spelling under which the reference looks the words up in the list of lang
func refWords(lang string, words []string) []string {
	if lang != tolerantLang {
		return words
	}
	out := make([]string, len(words))
	for i, w := range words {
		out[i] = strings.ToLower(w)
	}
	return out
}

var strictRef *ref.List

func init() {
	en, err := ref.Load("english")
	if err != nil {
		panic(err)
	}
	strictRef = &ref.List{Index: map[string]int{}}
	for i := range en.Words {
		w := en.Words[len(en.Words)-1-i]
		strictRef.Words[i] = w
		strictRef.Index[w] = i
	}
	bip39.RegisterWordList(strictLang, func() wordlist.List { return strictList{strictRef} })
	bip39.RegisterWordList(tolerantLang, func() wordlist.List { return tolerantList{en} })
}

func list(lang string) *ref.List {
	if lang == strictLang {
		return strictRef
	}
	if lang == tolerantLang {
		lang = "english"
	}
	l, err := ref.Load(lang)
	if err != nil {
		panic(err)
	}
	return l
}

// ---- seed ----

type seedCase struct {
	Lang    string   `json:"lang"`
	Words   []string `json:"words"`
	Pieces  []int    `json:"pieces,omitempty"`   // passphrase = concatenation of pieces[i].raw
	RawPass h.S      `json:"raw_pass,omitempty"` // used when Pieces is nil
	UseRaw  bool     `json:"use_raw"`
}

func checkSeed(c seedCase) (h.Info, error) {
	if err := bip39.SetWordList(c.Lang); err != nil {
		return h.Info{}, err
	}
	_, werr := ref.Decode(list(c.Lang), refWords(c.Lang, c.Words))
	var pass, nfkd string
	if c.UseRaw {
		pass = string(c.RawPass)
		nfkd = norm.NFKD.String(pass)
	} else {
		var a, b strings.Builder
		for _, i := range c.Pieces {
			if i < 0 || i >= len(pieces) {
				return h.Info{}, fmt.Errorf("PRECONDITION: piece index")
			}
			a.WriteString(pieces[i].raw)
			b.WriteString(pieces[i].nfkd)
		}
		pass, nfkd = a.String(), b.String()
	}
	info := h.Info{Class: "seed/plain-passphrase", NT: false}
	switch n := len(strings.Join(c.Words, " ")); {
	case werr == nil && (n == 128 || n == 256):
		info = h.Info{Class: "seed/sentence-fills-hash-blocks", NT: true}
	case werr != nil:
		info = h.Info{Class: "seed/invalid-mnemonic", NT: true}
	case pass == "":
		info = h.Info{Class: "seed/empty-passphrase", NT: true}
	case pass != nfkd && c.UseRaw:
		info = h.Info{Class: "seed/normalizing-raw", NT: true}
	case pass != nfkd:
		info = h.Info{Class: "seed/normalizing-table", NT: true}
	case len(pass) > 0:
		info.NT = true
	}
	got, err := bip39.MnemonicToSeed(append(bip39.Mnemonic{}, c.Words...), pass)
	if werr != nil {
		if err == nil || len(got) != 0 { // "an error and no seed": nil or empty is not prescribed
			return info, fmt.Errorf("MnemonicToSeed(%q, %+q): invalid mnemonic (%v) must give an error and no seed, got %x, %v", c.Words, pass, werr, got, err)
		}
		return info, nil
	}
	want := ref.Seed(c.Words, nfkd)
	if err != nil || !bytes.Equal(got, want) {
		return info, fmt.Errorf("MnemonicToSeed(%q, %+q) = %x, %v; PBKDF2-HMAC-SHA512(2048) reference %x", c.Words, pass, got, err, want)
	}
	if len(got) != 64 {
		return info, fmt.Errorf("seed length %d", len(got))
	}
	// metamorphic: an equivalent rendering of the passphrase gives the same seed
	if pass != nfkd {
		got2, err := bip39.MnemonicToSeed(append(bip39.Mnemonic{}, c.Words...), nfkd)
		if err != nil || !bytes.Equal(got2, got) {
			return info, fmt.Errorf("equivalent passphrases %+q and %+q give different seeds", pass, nfkd)
		}
	}
	return info, nil
}

func genValidWords(t *rapid.T, l *ref.List) []string {
	n := 16 + 4*rapid.IntRange(0, 12).Draw(t, "n")
	if h.Pick(t, "short", 3, 1) == 0 {
		n = 16
	}
	e := rapid.SliceOfN(rapid.Byte(), n, n).Draw(t, "e")
	if h.Pick(t, "lz", 4, 1) == 1 {
		e[0] = 0
	}
	return ref.Encode(l, e)
}

// blockLengthWords searches (deterministically from a drawn seed) for a valid sentence whose joined form
// is exactly n bytes long: the sentence is the HMAC key of PBKDF2, and 127/128/129 (SHA-512 block size)
// and 111/112 (padding boundary) are where a hand-written or "optimised" HMAC key schedule goes wrong.
func blockLengthWords(t *rapid.T, l *ref.List, n int) ([]string, bool) {
	seed := rapid.Uint64().Draw(t, "blseed")
	for j := 0; j < 4000; j++ {
		d := sha512.Sum512([]byte(fmt.Sprintf("%d/%d", seed, j)))
		for _, size := range []int{16, 20, 24, 28, 32} {
			w := ref.Encode(l, d[:size])
			if len(strings.Join(w, " ")) == n {
				return w, true
			}
		}
	}
	return nil, false
}

func genSeed(t *rapid.T) seedCase {
	lang := h.OneOf(t, "lang", seedLangs...)
	l := list(lang)
	words := genValidWords(t, l)
	if h.Pick(t, "blocklen", 5, 1) == 1 {
		if w, ok := blockLengthWords(t, l, h.OneOf(t, "bl", 111, 112, 113, 127, 128, 128, 129, 255, 256, 257)); ok {
			words = w
		}
	}
	if h.Pick(t, "inv", 8, 1) == 1 {
		switch h.Pick(t, "ik", 2, 1, 1) {
		case 0:
			words[rapid.IntRange(0, len(words)-1).Draw(t, "p")] = l.Words[rapid.IntRange(0, 2047).Draw(t, "w")]
		case 1:
			words = words[:len(words)-1]
		default:
			words[0] = "notaword"
		}
	}
	if lang == tolerantLang {
		for i := range words {
			switch h.Pick(t, "caps", 3, 2, 1) {
			case 1:
				words[i] = strings.ToUpper(words[i][:1]) + words[i][1:]
			case 2:
				words[i] = strings.ToUpper(words[i])
			}
		}
	}
	c := seedCase{Lang: lang, Words: words}
	switch h.Pick(t, "pk", 5, 3, 1) {
	case 0:
		c.Pieces = rapid.SliceOfN(rapid.IntRange(0, len(pieces)-1), 0, 8).Draw(t, "pieces")
	case 1:
		c.UseRaw = true
		c.RawPass = h.S(rapid.String().Draw(t, "pass"))
	default:
		c.UseRaw = true
		c.RawPass = h.S(rapid.SliceOfN(rapid.Byte(), 0, 12).Draw(t, "passbytes")) // possibly invalid UTF-8
	}
	return c
}

func TestSeed(t *testing.T) {
	h.Run(t, h.Sub[seedCase]{
		Prop: "C09", Name: "seed", N: 1600,
		Gen: genSeed, Check: checkSeed,
		Require: []string{"seed/normalizing-table", "seed/invalid-mnemonic", "seed/empty-passphrase", "seed/normalizing-raw", "seed/sentence-fills-hash-blocks"},
		Rule:    "valid mnemonics of both built-in lists and of two lists registered by the harness (one with a panicking Index, one whose Contains/Index ignore letter case, used with capitalised words: the seed is over the words as given) (all sizes; one in six searched so that the joined sentence is exactly 111..113, 127..129 or 255..257 bytes long) x passphrases built from a hand-made (raw, NFKD) piece table (composed, compatibility, Hangul, kana, mis-ordered combining marks) or arbitrary strings (NFKD by x/text); seed = own PBKDF2-HMAC-SHA512(2048) over words joined by one space and salt mnemonic||NFKD(passphrase); invalid mnemonics give an error; non-trivial = non-empty passphrase or invalid mnemonic; distinct by case",
	})
}

// invalid mnemonics are cheap (rejected before the key stretching), so they get their own,
// larger sub-check: mutated valid sentences of every size, incl. single checksum-bit flips
type invCase struct {
	Lang  string   `json:"lang"`
	Words []string `json:"words"`
	Mut   string   `json:"mutation"`
}

func TestSeedInvalidMnemonic(t *testing.T) {
	h.Run(t, h.Sub[invCase]{
		Prop: "C09", Name: "seed-invalid-mnemonic", N: 12000,
		Gen: func(t *rapid.T) invCase {
			lang := h.OneOf(t, "lang", seedLangs...)
			l, other := list(lang), list(langs[0])
			if lang == langs[0] {
				other = list(langs[1])
			}
			if h.Pick(t, "denorm", 12, 1) == 1 {
				// a valid sentence in which one word is replaced by a Unicode-equivalent spelling that is not
				// the list's own (composed kana, full-width Latin letters)
				words := mgen.ValidSentence(t, l)
				p := rapid.IntRange(0, len(words)-1).Draw(t, "dp")
				alt := norm.NFC.String(words[p])
				if alt == words[p] {
					alt = fullWidth(words[p])
				}
				words[p] = alt
				return invCase{lang, words, "denormalized-word"}
			}
			if h.Pick(t, "otherlist", 12, 1) == 1 {
				// a sentence that is perfectly valid, checksum and all, in a registered list that is not the
				// selected one
				return invCase{lang, mgen.ValidSentence(t, other), "valid-in-the-other-list"}
			}
			if h.Pick(t, "impostor", 12, 1) == 1 {
				if w, ok := mgen.ImpostorSentence(t, l, lang); ok {
					return invCase{lang, w, "hash-impostor-word"}
				}
			}
			words := mgen.ValidSentence(t, l)
			words, mut := mgen.Mutate(t, words, l, other)
			if rapid.Bool().Draw(t, "twice") {
				var m2 string
				words, m2 = mgen.Mutate(t, words, l, other)
				mut += "+" + m2
			}
			return invCase{lang, words, mut}
		},
		Check: func(c invCase) (h.Info, error) {
			if err := bip39.SetWordList(c.Lang); err != nil {
				return h.Info{}, err
			}
			_, werr := ref.Decode(list(c.Lang), refWords(c.Lang, c.Words))
			if werr == nil {
				// the mutation happened to produce a valid sentence: judged by the full seed oracle
				return checkSeed(seedCase{Lang: c.Lang, Words: c.Words, Pieces: []int{1}})
			}
			cls := "invalid/" + c.Mut
			if len(c.Words) >= 27 {
				cls += "/long"
			}
			if c.Lang == strictLang || c.Lang == tolerantLang {
				cls = "invalid/registered-strict-list"
			}
			info := h.Info{Class: cls, NT: true}
			got, err := bip39.MnemonicToSeed(append(bip39.Mnemonic{}, c.Words...), "TREZOR")
			if strings.Contains(c.Mut, "denormalized-word") && err == nil {
				// the statement leaves open whether words handed over in a non-normalised spelling are
				// normalised first; what it excludes is a seed that belongs to neither reading
				nw := make([]string, len(c.Words))
				for i, w := range c.Words {
					nw[i] = norm.NFKD.String(w)
				}
				if _, nerr := ref.Decode(list(c.Lang), nw); nerr == nil && bytes.Equal(got, ref.Seed(nw, "TREZOR")) {
					return h.Info{Class: "invalid/denormalized-word(normalised by the library)", NT: true}, nil
				}
				return info, fmt.Errorf("MnemonicToSeed(%q) [%s]: one word is spelled with equivalent but different code points; the call returned the seed %x, which is not the seed of the normalised sentence (and the words as given are not list words)", c.Words, c.Lang, got)
			}
			if err == nil || len(got) != 0 { // "an error and no seed": nil or empty is not prescribed
				return info, fmt.Errorf("MnemonicToSeed(%q) [%s, mutation %s]: the mnemonic is invalid (%v) but a seed %x was returned (err=%v)", c.Words, c.Lang, c.Mut, werr, got, err)
			}
			return info, nil
		},
		Require: []string{"invalid/registered-strict-list", "invalid/checksum-bit-flip/long", "invalid/checksum-bit-flip", "invalid/last-word/long", "invalid/drop", "invalid/foreign-word", "invalid/hash-impostor-word", "invalid/valid-in-the-other-list"},
		Rule:    "valid sentences of every size (12..48 words, both lists) with one or two mutations (other word, last word, single checksum-bit flip, single bit flip, foreign-list word, malformed word, drop, duplicate, swap), or with one word replaced by a non-list string of the same 32-bit FNV hash, or valid sentences of the registered list that is not selected; one case in three uses a list registered by the harness through RegisterWordList (the English words reversed) whose Index panics for unknown words, as the wordlist.List contract allows: whenever the reference rejects the sentence MnemonicToSeed must return an error and no seed; all non-trivial; distinct by case",
	})
}

// ---- framing: different (mnemonic, passphrase) pairs whose concatenations coincide ----
//
// A = w1..wk with passphrase P and B = w1..wk' with passphrase Q where "A joined" + P == "B joined" + Q:
// (a) the last words are a list word and a longer list word starting with it (win / winter),
// (b) A is a valid sentence that is a proper prefix of the valid sentence B.
// Both are valid mnemonics, the password/salt split differs, so the seeds differ.

type framingCase struct {
	Lang  string   `json:"lang"`
	A     []string `json:"a"`
	PassA h.S      `json:"pass_a"`
	B     []string `json:"b"`
	PassB h.S      `json:"pass_b"`
	Kind  string   `json:"kind"`
}

func checkFraming(c framingCase) (h.Info, error) {
	if err := bip39.SetWordList(c.Lang); err != nil {
		return h.Info{}, err
	}
	l := list(c.Lang)
	info := h.Info{Class: "framing/" + c.Kind, NT: true}
	if _, err := ref.Decode(l, c.A); err != nil {
		return info, fmt.Errorf("PRECONDITION: A invalid")
	}
	if _, err := ref.Decode(l, c.B); err != nil {
		return info, fmt.Errorf("PRECONDITION: B invalid")
	}
	pa, pb := string(c.PassA), string(c.PassB)
	if strings.Join(c.A, " ")+pa != strings.Join(c.B, " ")+pb || norm.NFKD.String(pa) != pa || norm.NFKD.String(pb) != pb {
		return info, fmt.Errorf("PRECONDITION: concatenations differ or passphrases not normalized")
	}
	wa, wb := ref.Seed(c.A, pa), ref.Seed(c.B, pb)
	for round := 0; round < 2; round++ { // A, B, then A, B again (whatever the first round left behind)
		ga, err := bip39.MnemonicToSeed(append(bip39.Mnemonic{}, c.A...), pa)
		if err != nil || !bytes.Equal(ga, wa) {
			return info, fmt.Errorf("round %d: MnemonicToSeed(%q, %+q) = %x, %v; reference %x (the call before used %q, %+q)", round, c.A, pa, ga, err, wa, c.B, pb)
		}
		gb, err := bip39.MnemonicToSeed(append(bip39.Mnemonic{}, c.B...), pb)
		if err != nil || !bytes.Equal(gb, wb) {
			return info, fmt.Errorf("round %d: MnemonicToSeed(%q, %+q) = %x, %v; reference %x (the call before used %q, %+q: same concatenation of sentence and passphrase, different split)", round, c.B, pb, gb, err, wb, c.A, pa)
		}
	}
	return info, nil
}

var prefixPairs sync.Map // lang -> [][2]int : list words (i, j) with word j = word i + something

func wordPrefixPairs(lang string) [][2]int {
	if v, ok := prefixPairs.Load(lang); ok {
		return v.([][2]int)
	}
	l := list(lang)
	var out [][2]int
	for i, a := range l.Words {
		for j, b := range l.Words {
			if i != j && strings.HasPrefix(b, a) {
				out = append(out, [2]int{i, j})
			}
		}
	}
	prefixPairs.Store(lang, out)
	return out
}

func genFraming(t *rapid.T) framingCase {
	lang := h.OneOf(t, "lang", langs...)
	l := list(lang)
	extra := h.OneOf(t, "extra", "", "", "TREZOR", " x")
	seed := rapid.Uint64().Draw(t, "seed")
	if pairs := wordPrefixPairs(lang); len(pairs) > 0 && rapid.Bool().Draw(t, "wordpair") {
		pr := pairs[rapid.IntRange(0, len(pairs)-1).Draw(t, "pair")]
		n := 16 + 4*rapid.IntRange(0, 3).Draw(t, "n")
		nw := n * 3 / 4
		for j := 0; j < 200000; j++ {
			d := sha512.Sum512([]byte(fmt.Sprintf("%d/%d", seed, j)))
			a := ref.Encode(l, d[:n])
			// replace the last word by each member of the pair; both must carry a valid checksum
			a1 := append(append([]string{}, a[:nw-1]...), l.Words[pr[0]])
			a2 := append(append([]string{}, a[:nw-1]...), l.Words[pr[1]])
			if _, err := ref.Decode(l, a1); err != nil {
				continue
			}
			if _, err := ref.Decode(l, a2); err != nil {
				continue
			}
			return framingCase{Lang: lang, A: a1, PassA: h.S(strings.TrimPrefix(l.Words[pr[1]], l.Words[pr[0]]) + extra), B: a2, PassB: h.S(extra), Kind: "word-is-prefix-of-word"}
		}
	}
	// valid sentence that is a prefix of a longer valid sentence
	nb := 20 + 4*rapid.IntRange(0, 3).Draw(t, "nb")
	na := nb - 4*rapid.IntRange(1, (nb-16)/4).Draw(t, "na")
	for j := 0; ; j++ {
		d := sha512.Sum512([]byte(fmt.Sprintf("%d/%d", seed, j)))
		b := ref.Encode(l, d[:nb])
		a := b[:na*3/4]
		if _, err := ref.Decode(l, a); err != nil {
			continue
		}
		return framingCase{Lang: lang, A: append([]string{}, a...), PassA: h.S(" " + strings.Join(b[len(a):], " ") + extra), B: b, PassB: h.S(extra), Kind: "sentence-is-prefix-of-sentence"}
	}
}

func TestSeedFraming(t *testing.T) {
	h.Run(t, h.Sub[framingCase]{
		Prop: "C09", Name: "seed-framing", N: 160,
		Gen: genFraming, Check: checkFraming,
		Require: []string{"framing/word-is-prefix-of-word", "framing/sentence-is-prefix-of-sentence"},
		Rule:    "pairs of valid mnemonics with passphrases whose concatenations (sentence joined by spaces, then passphrase) are byte-identical although the split differs: last word a list word vs a longer list word starting with it, or a valid sentence that is a proper prefix of a longer valid sentence (both found by search over SHA-512-derived entropies); the seeds of A and B, computed alternately twice, must each equal the PBKDF2 reference; all non-trivial",
	})
}

// ---- parser ----

// the 25 code points with the Unicode White_Space property
var whiteSpace = []string{"\t", "\n", "\v", "\f", "\r", " ", "\u0085", " ", " ", " ", " ", " ", " ", " ", " ",
	" ", " ", " ", " ", " ", " ", " ", " ", " ", "　"}

var wsRunes = func() map[rune]bool {
	m := map[rune]bool{}
	for _, ws := range whiteSpace {
		for _, r := range ws {
			m[r] = true
		}
	}
	return m
}()

type parseCase struct {
	Words []string `json:"words"` // canonical (NFKD) words expected
	Text  h.S      `json:"text"`  // rendering
}

func checkParse(c parseCase) (h.Info, error) {
	text := string(c.Text)
	nonASCIISep, compat := false, false
	for _, r := range text {
		if r > 0x7f && wsRunes[r] {
			nonASCIISep = true
		}
	}
	if norm.NFKD.String(text) != text {
		compat = true
	}
	info := h.Info{Class: "parse/plain", NT: false}
	switch {
	case nonASCIISep && compat:
		info = h.Info{Class: "parse/unicode-space+compat", NT: true}
	case nonASCIISep:
		info = h.Info{Class: "parse/unicode-space", NT: true}
	case compat:
		info = h.Info{Class: "parse/compat-form", NT: true}
	case len(c.Words) >= 2:
		info.NT = true
	}
	m := bip39.ParseMnemonic(text)
	if len(text) > 20000 {
		info.Class = "parse/huge-input"
		info.NT = true
	}
	if len(m) != len(c.Words) {
		return info, fmt.Errorf("ParseMnemonic(%s) gives %d words, want %d: %s", abbrev(text), len(m), len(c.Words), abbrev(fmt.Sprintf("%+q", []string(m))))
	}
	for i := range m {
		if m[i] != c.Words[i] {
			return info, fmt.Errorf("ParseMnemonic(%s) word %d = %s, want %s", abbrev(text), i, abbrev(m[i]), abbrev(c.Words[i]))
		}
	}
	printed := m.String()
	m2 := bip39.ParseMnemonic(printed)
	if len(m2) != len(m) || strings.Join(m2, "\x00") != strings.Join(m, "\x00") {
		return info, fmt.Errorf("ParseMnemonic(String()) = %+q, want %+q", []string(m2), []string(m))
	}
	mt, err := m.MarshalText()
	if err != nil {
		return info, fmt.Errorf("MarshalText: %v", err)
	}
	if m4 := bip39.ParseMnemonic(string(mt)); len(m4) != len(m) || strings.Join(m4, "\x00") != strings.Join(m, "\x00") {
		return info, fmt.Errorf("ParseMnemonic(MarshalText()) = %+q, want %+q", []string(m4), []string(m))
	}
	var m3 bip39.Mnemonic
	buf := []byte(text)
	if err := m3.UnmarshalText(buf); err != nil || strings.Join(m3, "\x00") != strings.Join(m, "\x00") || len(m3) != len(m) {
		return info, fmt.Errorf("UnmarshalText(%+q) = %+q, %v", text, []string(m3), err)
	}
	for i := range buf { // the caller reuses its buffer
		buf[i] = 'x'
	}
	if strings.Join(m3, "\x00") != strings.Join(m, "\x00") {
		return info, fmt.Errorf("the sentence parsed by UnmarshalText(%+q) changed to %+q when the caller overwrote its input buffer", text, []string(m3))
	}
	return info, nil
}

func fullWidth(w string) string {
	var b strings.Builder
	for _, r := range w {
		if r >= 0x21 && r <= 0x7e {
			b.WriteRune(r - 0x21 + 0xff01)
		} else {
			b.WriteRune(r)
		}
	}
	return b.String()
}

// abbrev shortens huge strings in messages.
func abbrev(s string) string {
	if len(s) <= 300 {
		return fmt.Sprintf("%+q", s)
	}
	return fmt.Sprintf("%+q...(%d bytes)...%+q", s[:120], len(s), s[len(s)-60:])
}

func genParse(t *rapid.T) parseCase {
	lang := h.OneOf(t, "lang", langs...)
	l := list(lang)
	n := rapid.IntRange(0, 26).Draw(t, "n")
	huge, hugeAt := "", -1
	switch h.Pick(t, "big", 2000, 1, 1) {
	case 1: // one token longer than any internal line / token buffer (64 KiB and more)
		huge = strings.Repeat(h.OneOf(t, "hugeunit", "a", "z", "\u3042"), h.OneOf(t, "hugelen", 65535, 65536, 65537, 70000))
		if n == 0 {
			n = 3
		}
		hugeAt = rapid.IntRange(0, n-1).Draw(t, "hugeat")
	case 2: // very many words: drawn as one seed, plain separators
		n = h.OneOf(t, "manywords", 4096, 10000)
		seed := rapid.Uint64().Draw(t, "manyseed")
		words := make([]string, n)
		var text strings.Builder
		for i := range words {
			seed = seed*6364136223846793005 + 1442695040888963407
			words[i] = l.Words[(seed>>33)%2048]
			if i > 0 {
				text.WriteString([]string{" ", "\n", "\u3000", "  "}[(seed>>20)%4])
			}
			text.WriteString(words[i])
		}
		return parseCase{Words: words, Text: h.S(text.String())}
	}
	words := make([]string, n)
	var text strings.Builder
	sep := func(min int) {
		k := min + h.Pick(t, "extra", 6, 2, 1)
		for i := 0; i < k; i++ {
			if h.Pick(t, "sk", 3, 2) == 0 {
				text.WriteString(" ")
			} else {
				text.WriteString(h.OneOf(t, "ws", whiteSpace...))
			}
		}
	}
	sep(0)
	for i := range words {
		words[i] = l.Words[rapid.IntRange(0, 2047).Draw(t, "w")]
		if i > 0 {
			sep(1)
		}
		if i == hugeAt {
			words[i] = huge
			text.WriteString(huge)
			continue
		}
		switch h.Pick(t, "form", 5, 3, 2) {
		case 0:
			text.WriteString(words[i])
		case 1:
			text.WriteString(norm.NFC.String(words[i]))
		default:
			text.WriteString(fullWidth(norm.NFC.String(words[i])))
		}
	}
	sep(0)
	return parseCase{Words: words, Text: h.S(text.String())}
}

func TestParseRenderings(t *testing.T) {
	h.Run(t, h.Sub[parseCase]{
		Prop: "C09", Name: "parse-renderings", N: 30000,
		Gen: genParse, Check: checkParse,
		Require: []string{"parse/unicode-space", "parse/compat-form", "parse/unicode-space+compat"},
		Rule:    "0..26 list words rendered with separators drawn from all 25 White_Space code points (repeated, leading, trailing) and words in NFKD / NFC / full-width compatibility form; ParseMnemonic must return the canonical words, and printing/parsing/MarshalText/UnmarshalText agree; non-trivial = non-ASCII separator or compatibility form or >= 2 words; distinct by text",
	})
}

// every White_Space code point separates; complete
// every length of the joined sentence: the sentence is the PBKDF2 password (HMAC key); a buffer of any
// fixed size inside a re-implementation is exactly full for one of them
func TestEverySentenceLength(t *testing.T) {
	type lenCase struct {
		Len   int      `json:"len"`
		Words []string `json:"words"`
	}
	lo, hi := 60, 400
	h.RunEnum(t, h.Enum[lenCase]{
		Prop: "C09", Name: "seed-every-sentence-length",
		Rule: fmt.Sprintf("complete enumeration of the byte lengths %d..%d of the joined sentence (English list; one valid sentence per length found by a deterministic search over entropies of all 13 sizes; lengths for which 4000 tries find none are skipped and counted): seed = own PBKDF2-HMAC-SHA512(2048) reference with a non-empty passphrase; all non-trivial", lo, hi),
		Each: func(yield func(lenCase) bool) {
			l := list("english")
			found := map[int][]string{}
			for j := 0; j < 4000 && len(found) < hi-lo+1; j++ {
				d := sha512.Sum512([]byte(fmt.Sprintf("every-length/%d", j)))
				for size := 16; size <= 64; size += 4 {
					w := ref.Encode(l, d[:size])
					if n := len(strings.Join(w, " ")); n >= lo && n <= hi && found[n] == nil {
						found[n] = w
					}
				}
			}
			if len(found) < (hi-lo+1)*9/10 {
				h.Note("C09 seed-every-sentence-length: only %d of %d lengths found", len(found), hi-lo+1)
			}
			for n := lo; n <= hi; n++ {
				if w := found[n]; w != nil && !yield(lenCase{n, w}) {
					return
				}
			}
		},
		Check: func(c lenCase) (h.Info, error) {
			info, err := checkSeed(seedCase{Lang: "english", Words: c.Words, Pieces: []int{1}})
			info.Class, info.NT = "seed/sentence-length", true
			if err != nil {
				return info, fmt.Errorf("joined sentence of exactly %d bytes: %w", c.Len, err)
			}
			return info, nil
		},
	})
}

func TestAllSeparators(t *testing.T) {
	type sepCase struct {
		Sep  h.S `json:"sep"`
		Lang string
	}
	h.RunEnum(t, h.Enum[sepCase]{
		Prop: "C09", Name: "all-25-separators",
		Rule: "complete enumeration of the 25 White_Space code points x 2 lists as the only separator (single, doubled, leading and trailing)",
		Each: func(yield func(sepCase) bool) {
			for _, lang := range langs {
				for _, ws := range whiteSpace {
					if !yield(sepCase{h.S(ws), lang}) {
						return
					}
				}
			}
		},
		Check: func(c sepCase) (h.Info, error) {
			l := list(c.Lang)
			words := []string{l.Words[3], l.Words[2047], l.Words[1024], l.Words[77]}
			s := string(c.Sep)
			text := s + words[0] + s + words[1] + s + s + words[2] + s + words[3] + s
			info, err := checkParse(parseCase{Words: words, Text: h.S(text)})
			info.NT = true
			return info, err
		},
	})
}

// arbitrary strings: parsing the printed form of a parsed sentence gives the same sentence
type anyCase struct {
	Text h.S `json:"text"`
}

func TestParseIdempotent(t *testing.T) {
	h.Run(t, h.Sub[anyCase]{
		Prop: "C09", Name: "parse-idempotent", N: 30000,
		Gen: func(t *rapid.T) anyCase {
			if rapid.Bool().Draw(t, "bytes") {
				return anyCase{h.S(rapid.SliceOfN(rapid.Byte(), 0, 40).Draw(t, "b"))}
			}
			parts := rapid.SliceOfN(rapid.OneOf(rapid.String(), rapid.SampledFrom(whiteSpace), rapid.SampledFrom([]string{"é", "ﬁ", "が", "한", "ạ́", "㌀"})), 0, 12).Draw(t, "parts")
			return anyCase{h.S(strings.Join(parts, ""))}
		},
		Check: func(c anyCase) (h.Info, error) {
			text := string(c.Text)
			m := bip39.ParseMnemonic(text)
			info := h.Info{Class: "any/words>=2", NT: len(m) >= 2}
			if len(m) < 2 {
				info.Class = "any/words<2"
			}
			for _, w := range m {
				if w == "" || strings.ContainsAny(w, strings.Join(whiteSpace, "")) {
					return info, fmt.Errorf("ParseMnemonic(%+q) produced a word containing white space or empty: %+q", text, w)
				}
			}
			m2 := bip39.ParseMnemonic(m.String())
			if len(m2) != len(m) || strings.Join(m2, "\x00") != strings.Join(m, "\x00") {
				return info, fmt.Errorf("ParseMnemonic(%+q) = %+q but parsing its printed form gives %+q", text, []string(m), []string(m2))
			}
			// white-space insensitivity: doubling every separator does not change the result
			var dbl strings.Builder
			for _, r := range text {
				dbl.WriteRune(r)
				for _, ws := range whiteSpace {
					if string(r) == ws {
						dbl.WriteString("  ")
					}
				}
			}
			if text == strings.ToValidUTF8(text, "") || true {
				m3 := bip39.ParseMnemonic(dbl.String())
				if validUTF8(text) && (len(m3) != len(m) || strings.Join(m3, "\x00") != strings.Join(m, "\x00")) {
					return info, fmt.Errorf("adding white space next to existing white space changed the parse of %+q: %+q vs %+q", text, []string(m), []string(m3))
				}
			}
			return info, nil
		},
		Require: []string{"any/words>=2"},
		Rule:    "arbitrary strings (random Unicode, white space, compatibility characters, raw bytes): words contain no white space, parse(print(parse(s))) = parse(s), and widening existing white space does not change the parse; non-trivial = >= 2 words; distinct by text",
	})
}

func validUTF8(s string) bool { return strings.ToValidUTF8(s, "\x00") == s }

// FuzzGenParse: the structured generator driven by Go's coverage-guided fuzzer (thorough tier).
func FuzzGenParse(f *testing.F) {
	h.FuzzSub(f, h.Sub[parseCase]{Prop: "C09", Name: "parse-renderings", Gen: genParse, Check: checkParse})
}

// which public entry point is called first in a process (and by how many goroutines at once)
func TestFirstCalls(t *testing.T) { h.FirstCallsSub(t, "C09", fc.Bip39(), 6) }
