// C03 — BIP-39 entropy and mnemonic sentences are exact inverses.
package c03

import (
	"bytes"
	"errors"
	"fmt"
	"testing"

	"github.com/wollac/iota-crypto-demo/pkg/bip39"
	"github.com/wollac/iota-crypto-demo/pkg/bip39/wordlist"
	"golang.org/x/text/unicode/norm"
	"pgregory.net/rapid"

	"verifharness/fc"
	"verifharness/h"
	"verifharness/mgen"
	ref "verifharness/ref/bip39"
)

func TestMain(m *testing.M) {
	h.FirstCallsChild(fc.Bip39()) // never returns in a first-call child process
	if err := ref.SelfCheck(); err != nil {
		fmt.Println("VERIF-INFRA reference self-check failed:", err)
		panic(err)
	}
	h.Note("english word list digest equals the published digest of bip-0039/english.txt; japanese list pinned to the digest of the pinned commit (no independent copy offline)")
	h.Main(m)
}

var langs = []string{"english", "japanese"}

// Other lists registered by an application under names that differ from the built-in ones only in case or
// surrounding blanks: "english" and "japanese" must stay the official lists (every sub-check that selects
// them would notice a replacement).
type otherList struct{ words []string }

func (o otherList) Contains(w string) bool { return o.Index(w) >= 0 }
func (o otherList) Word(i int) string      { return o.words[i] }
func (o otherList) Index(w string) int {
	for i, x := range o.words {
		if x == w {
			return i
		}
	}
	return -1
}

func init() {
	words := make([]string, 2048)
	for i := range words {
		words[i] = fmt.Sprintf("w%04d", i)
	}
	for _, name := range []string{"English", "ENGLISH", " english", "english ", "Japanese", "JAPANESE ", "japanese\n"} {
		bip39.RegisterWordList(name, func() wordlist.List { return otherList{words} })
	}
}

func list(lang string) *ref.List {
	l, err := ref.Load(lang)
	if err != nil {
		panic(err)
	}
	return l
}

func eqWords(a bip39.Mnemonic, b []string) bool {
	if len(a) != len(b) {
		return false
	}
	for i := range a {
		if a[i] != b[i] {
			return false
		}
	}
	return true
}

// ---- encode direction ----

type entCase struct {
	Lang    string `json:"lang"`
	Entropy h.B    `json:"entropy"`
}

// a rejected SetWordList call (unknown list) must leave the selected list in place
func rejectedSelection() error {
	for _, name := range []string{"no-such-list", "klingon-2048", ""} {
		if err := bip39.SetWordList(name); err == nil {
			return fmt.Errorf("SetWordList(%q) succeeded; there is no such list", name)
		}
	}
	return nil
}

func checkEntropy(c entCase) (h.Info, error) {
	if err := bip39.SetWordList(c.Lang); err != nil {
		return h.Info{}, fmt.Errorf("SetWordList(%q): %v", c.Lang, err)
	}
	if err := rejectedSelection(); err != nil {
		return h.Info{}, err
	}
	e := []byte(c.Entropy)
	l := list(c.Lang)
	if !ref.ValidEntropyLen(len(e)) {
		info := h.Info{Class: "invalid-size"}
		m, err := bip39.EntropyToMnemonic(e)
		if !errors.Is(err, bip39.ErrInvalidEntropySize) {
			return info, fmt.Errorf("EntropyToMnemonic(%d bytes) = %v, %v; want ErrInvalidEntropySize", len(e), m, err)
		}
		return info, nil
	}
	allZero := true
	for _, b := range e {
		if b != 0 {
			allZero = false
		}
	}
	info := h.Info{Class: "entropy/" + c.Lang, NT: !allZero}
	if e[0] == 0 && !allZero {
		info.Class = "entropy/leading-zero-byte"
	}
	if allZero {
		info.Class = "entropy/all-zero"
	}
	orig := append([]byte{}, e...)
	// the entropy as a sub-slice with spare capacity: nothing behind it may be touched
	guarded := append(append(make([]byte, 0, len(e)+16), e...), bytes.Repeat([]byte{0x5a}, 16)...)
	e = guarded[:len(orig)]
	m, err := bip39.EntropyToMnemonic(e)
	if !bytes.Equal(guarded[len(orig):], bytes.Repeat([]byte{0x5a}, 16)) {
		return info, fmt.Errorf("EntropyToMnemonic(%x) wrote behind its input slice: %x", orig, guarded[len(orig):])
	}
	want := ref.Encode(l, e)
	if err != nil || !eqWords(m, want) {
		return info, fmt.Errorf("EntropyToMnemonic(%x) [%s] = %q, %v; BIP-39 reference %q", e, c.Lang, m, err, want)
	}
	back, err := bip39.MnemonicToEntropy(m)
	if err != nil || !bytes.Equal(back, e) {
		return info, fmt.Errorf("MnemonicToEntropy(EntropyToMnemonic(%x)) [%s] = %x, %v", e, c.Lang, back, err)
	}
	if !bytes.Equal(e, orig) {
		return info, fmt.Errorf("entropy modified")
	}
	return info, nil
}

func genEntropyBytes(t *rapid.T, n int) []byte { return mgen.EntropyBytes(t, n) }

func genEntropy(t *rapid.T) entCase {
	lang := h.OneOf(t, "lang", langs...)
	if h.Pick(t, "sz", 12, 1) == 1 {
		n := rapid.IntRange(0, 70).Draw(t, "badn")
		if h.Pick(t, "wrapn", 2, 1) == 1 { // sizes that equal a valid size modulo 256 or 65536, and sizes around them
			n = h.OneOf(t, "wrapbase", 256, 512, 65536) + h.OneOf(t, "wrapoff", 0, 15, 16, 20, 32, 48, 64, 65)
		}
		return entCase{lang, h.Bytes(t, "e", n, n)}
	}
	n := 16 + 4*rapid.IntRange(0, 12).Draw(t, "n")
	return entCase{lang, genEntropyBytes(t, n)}
}

func TestEntropy(t *testing.T) {
	h.Run(t, h.Sub[entCase]{
		Prop: "C03", Name: "entropy-roundtrip", N: 20000,
		Gen: genEntropy, Check: checkEntropy,
		Require: []string{"entropy/english", "entropy/japanese", "entropy/leading-zero-byte", "entropy/all-zero", "invalid-size"},
		Rule:    "entropy of every size 16..64 step 4 (uniform, 1-8 leading / trailing zero bytes, all-zero, all-ones, single bit) x {english, japanese}; sentence = bit-string reference, decode returns the entropy; invalid sizes 0..70 and 256/512/65536 + {0,15,16,20,32,48,64,65} rejected with ErrInvalidEntropySize; non-trivial = valid size and not all-zero; distinct by (list, entropy)",
	})
}

// ---- word lists, complete ----

type idxCase struct {
	Lang  string `json:"lang"`
	Index int    `json:"index"`
	Pos   int    `json:"pos"` // word position 0..11 that carries the index
}

func TestWordLists(t *testing.T) {
	h.RunEnum(t, h.Enum[idxCase]{
		Prop: "C03", Name: "wordlist-sweep",
		Rule: "complete enumeration of all 2048 indices x {english, japanese}: a 16-byte entropy whose 11-bit group at position (index mod 11) equals the index must yield the pinned list's word there, and decode back; all non-trivial, distinct by construction",
		Each: func(yield func(idxCase) bool) {
			for _, lang := range langs {
				for i := 0; i < 2048; i++ {
					if !yield(idxCase{lang, i, i % 11}) {
						return
					}
				}
			}
		},
		Check: func(c idxCase) (h.Info, error) {
			info := h.Info{Class: "wordlist/" + c.Lang, NT: true}
			if err := bip39.SetWordList(c.Lang); err != nil {
				return info, err
			}
			e := make([]byte, 16)
			for i := range e {
				e[i] = byte(0x5a ^ i ^ c.Index)
			}
			for j := 0; j < 11; j++ { // write the index into bits [11*pos, 11*pos+11)
				bit := 11*c.Pos + j
				if c.Index>>(10-j)&1 == 1 {
					e[bit/8] |= 0x80 >> uint(bit%8)
				} else {
					e[bit/8] &^= 0x80 >> uint(bit%8)
				}
			}
			m, err := bip39.EntropyToMnemonic(e)
			if err != nil || len(m) != 12 {
				return info, fmt.Errorf("EntropyToMnemonic: %v", err)
			}
			if want := list(c.Lang).Words[c.Index]; m[c.Pos] != want {
				return info, fmt.Errorf("%s index %d: package emits %q, pinned official list has %q", c.Lang, c.Index, m[c.Pos], want)
			}
			back, err := bip39.MnemonicToEntropy(m)
			if err != nil || !bytes.Equal(back, e) {
				return info, fmt.Errorf("%s index %d: decode = %x, %v; want %x", c.Lang, c.Index, back, err, e)
			}
			return info, nil
		},
		Require: []string{"wordlist/english", "wordlist/japanese"},
	})
}

// ---- decode direction ----

type sentCase struct {
	Lang  string   `json:"lang"`
	Words []string `json:"words"`
}

func checkSentence(c sentCase) (h.Info, error) {
	if err := bip39.SetWordList(c.Lang); err != nil {
		return h.Info{}, err
	}
	if err := rejectedSelection(); err != nil {
		return h.Info{}, err
	}
	l := list(c.Lang)
	want, werr := ref.Decode(l, c.Words)
	n := len(c.Words)
	lengthOK := n >= 12 && n <= 48 && n%3 == 0
	info := h.Info{}
	switch {
	case werr == nil:
		info = h.Info{Class: "sentence/accept", NT: true}
	case werr == ref.ErrChecksum:
		info = h.Info{Class: "sentence/bad-checksum", NT: true}
	case !lengthOK:
		info = h.Info{Class: "sentence/bad-length"}
	default:
		info = h.Info{Class: "sentence/bad-word", NT: true}
		for _, p := range mgen.KnownImpostors(c.Lang) {
			for _, w := range c.Words {
				if w == p[0] {
					info.Class = "sentence/hash-impostor-word"
				}
			}
		}
	}
	in := append(bip39.Mnemonic{}, c.Words...)
	got, err := bip39.MnemonicToEntropy(in)
	if werr != nil && err == nil {
		// words handed over in a Unicode-equivalent spelling: the statement leaves open whether they are
		// normalised first (then the sentence is judged and decoded in its normalised form) or rejected
		nw := make([]string, len(c.Words))
		changed := false
		for i, w := range c.Words {
			nw[i] = norm.NFKD.String(w)
			changed = changed || nw[i] != w
		}
		if nwant, nerr := ref.Decode(l, nw); changed && nerr == nil && bytes.Equal(got, nwant) {
			return h.Info{Class: "sentence/denormalised-words-normalised-by-the-library", NT: true}, nil
		}
	}
	if (werr == nil) != (err == nil) {
		return info, fmt.Errorf("MnemonicToEntropy(%q) [%s] = %x, %v; reference: %x, %v", c.Words, c.Lang, got, err, want, werr)
	}
	if werr != nil {
		if werr == ref.ErrChecksum && !errors.Is(err, bip39.ErrInvalidChecksum) {
			return info, fmt.Errorf("MnemonicToEntropy(%q): %v, want ErrInvalidChecksum", c.Words, err)
		}
		if werr == ref.ErrMnemonic && !errors.Is(err, bip39.ErrInvalidMnemonic) {
			return info, fmt.Errorf("MnemonicToEntropy(%q): %v, want ErrInvalidMnemonic", c.Words, err)
		}
		return info, nil
	}
	if !bytes.Equal(got, want) {
		return info, fmt.Errorf("MnemonicToEntropy(%q) [%s] = %x, reference %x", c.Words, c.Lang, got, want)
	}
	// no state between calls: overwrite the result, decode the same sentence again
	for i := range got {
		got[i] ^= 0xff
	}
	if again, err := bip39.MnemonicToEntropy(append(bip39.Mnemonic{}, c.Words...)); err != nil || !bytes.Equal(again, want) {
		return info, fmt.Errorf("second MnemonicToEntropy(%q) = %x, %v after the first result was overwritten; want %x", c.Words, again, err, want)
	}
	// the same words under the other word list are judged by that list
	otherLang := langs[0]
	if c.Lang == langs[0] {
		otherLang = langs[1]
	}
	if err := bip39.SetWordList(otherLang); err != nil {
		return info, err
	}
	_, oerr := ref.Decode(list(otherLang), c.Words)
	og, gerr := bip39.MnemonicToEntropy(append(bip39.Mnemonic{}, c.Words...))
	if (oerr == nil) != (gerr == nil) {
		return info, fmt.Errorf("after switching to the %s list MnemonicToEntropy(%q) = %x, %v; reference error %v", otherLang, c.Words, og, gerr, oerr)
	}
	if err := bip39.SetWordList(c.Lang); err != nil {
		return info, err
	}
	got = want
	re, err := bip39.EntropyToMnemonic(got)
	if err != nil || !eqWords(re, c.Words) {
		return info, fmt.Errorf("accepted sentence %q re-encodes to %q, %v", c.Words, re, err)
	}
	return info, nil
}

func genSentence(t *rapid.T) sentCase {
	lang := h.OneOf(t, "lang", langs...)
	l := list(lang)
	other := list(langs[1])
	if lang == "japanese" {
		other = list(langs[0])
	}
	var words []string
	if h.Pick(t, "impostor", 14, 1) == 1 {
		// a sentence that is valid except that one word is replaced by a string outside the list with the
		// same 32-bit FNV hash as that word
		if w, ok := mgen.ImpostorSentence(t, l, lang); ok {
			return sentCase{lang, w}
		}
	}
	switch h.Pick(t, "k", 6, 3, 2) {
	case 0, 1: // start from a valid sentence
		n := 16 + 4*rapid.IntRange(0, 12).Draw(t, "n")
		words = ref.Encode(l, genEntropyBytes(t, n))
	default: // arbitrary indices, any length 0..51
		n := rapid.IntRange(0, 51).Draw(t, "len")
		words = make([]string, n)
		for i := range words {
			words[i] = l.Words[rapid.IntRange(0, 2047).Draw(t, "idx")]
		}
	}
	nmut := h.Pick(t, "nmut", 4, 6, 2)
	for k := 0; k < nmut; k++ {
		words, _ = mgen.Mutate(t, words, l, other)
	}
	return sentCase{lang, words}
}

func TestSentences(t *testing.T) {
	h.Run(t, h.Sub[sentCase]{
		Prop: "C03", Name: "sentence-decode", N: 25000,
		Gen: genSentence, Check: checkSentence,
		Require: []string{"sentence/accept", "sentence/bad-checksum", "sentence/bad-length", "sentence/bad-word", "sentence/hash-impostor-word"},
		Rule:    "word sequences built from list indices: valid sentences (incl. leading-zero entropies), 0..2 mutations (other word, last word, foreign-list word, malformed word, drop, duplicate, swap), sentences valid except for one word replaced by a non-list string with the same 32-bit FNV-1a/FNV-1 hash (found by exhaustive search over short strings), arbitrary index sequences of length 0..51; accept iff length in {12..48 step 3}, all words in the list and checksum bits match; accepted sentences re-encode to themselves; documented error kinds; non-trivial = passes the length check; distinct by (list, words)",
	})
}

// ---- concurrent first use of a freshly selected word list ----

type concCase struct {
	Lang      string     `json:"lang"`
	Sentences [][]string `json:"sentences"`
	Trials    int        `json:"trials"`
}

func checkConcurrent(c concCase) (h.Info, error) {
	l := list(c.Lang)
	type exp struct {
		ent []byte
		err error
	}
	want := make([]exp, len(c.Sentences))
	acc := 0
	for i, w := range c.Sentences {
		want[i].ent, want[i].err = ref.Decode(l, w)
		if want[i].err == nil {
			acc++
		}
	}
	info := h.Info{Class: fmt.Sprintf("%s/goroutines=%d", c.Lang, len(c.Sentences)), NT: acc > 0}
	for trial := 0; trial < c.Trials; trial++ {
		// selecting a list gives the package a fresh list object: its first lookups happen under contention
		if err := bip39.SetWordList(c.Lang); err != nil {
			return info, err
		}
		err := h.Parallel(len(c.Sentences), func(g int) error {
			for it := 0; it < 2; it++ {
				got, err := bip39.MnemonicToEntropy(append(bip39.Mnemonic{}, c.Sentences[g]...))
				if (err == nil) != (want[g].err == nil) || (err == nil && !bytes.Equal(got, want[g].ent)) {
					return fmt.Errorf("trial %d, goroutine %d of %d decoding right after SetWordList(%q): MnemonicToEntropy(%q) = %x, %v; reference %x, %v", trial, g, len(c.Sentences), c.Lang, c.Sentences[g], got, err, want[g].ent, want[g].err)
				}
				if err == nil {
					if re, err := bip39.EntropyToMnemonic(got); err != nil || !eqWords(re, c.Sentences[g]) {
						return fmt.Errorf("trial %d, goroutine %d of %d right after SetWordList(%q): EntropyToMnemonic(%x) = %q, %v", trial, g, len(c.Sentences), c.Lang, got, re, err)
					}
				}
			}
			return nil
		})
		if err != nil {
			return info, err
		}
	}
	return info, nil
}

func TestConcurrentFirstUse(t *testing.T) {
	h.Run(t, h.Sub[concCase]{
		Prop: "C03", Name: "concurrent-first-use", N: 64,
		Gen: func(t *rapid.T) concCase {
			c := concCase{Lang: h.OneOf(t, "lang", langs...), Trials: 30}
			for i := h.OneOf(t, "g", 2, 4, 8); i > 0; i-- {
				s := genSentence(t)
				if rapid.Bool().Draw(t, "valid") {
					s.Words = mgen.ValidSentence(t, list(c.Lang))
				}
				c.Sentences = append(c.Sentences, s.Words)
			}
			return c
		},
		Check:   checkConcurrent,
		Require: []string{"english/goroutines=2", "japanese/goroutines=8", "english/goroutines=4"},
		Rule:    "schedules: 30 trials per case; in each the word list is selected anew (SetWordList) and 2..8 goroutines released together decode their own valid or mutated sentence (twice) and re-encode the result; every verdict and entropy = reference; non-trivial = at least one valid sentence",
	})
}

func FuzzSentence(f *testing.F) {
	f.Add("abandon abandon abandon abandon abandon abandon abandon abandon abandon abandon abandon about", false)
	f.Add("legal winner thank year wave sausage worth useful legal winner thank yellow", false)
	f.Add("あいこくしん あいこくしん あいこくしん あいこくしん あいこくしん あいこくしん あいこくしん あいこくしん あいこくしん あいこくしん あいこくしん あおぞら", true)
	f.Add("", false)
	f.Fuzz(func(t *testing.T, s string, jp bool) {
		lang := "english"
		if jp {
			lang = "japanese"
		}
		// ParseMnemonic is the documented way to obtain a word slice from text
		if err := bip39.SetWordList(lang); err != nil {
			t.Skip()
		}
		c := sentCase{Lang: lang, Words: bip39.ParseMnemonic(s)}
		if _, err := checkSentence(c); err != nil {
			h.Fail(t, "C03", "sentence-decode", c, err)
		}
	})
}

// FuzzGenSentence: the structured generator driven by Go's coverage-guided fuzzer (thorough tier).
func FuzzGenSentence(f *testing.F) {
	h.FuzzSub(f, h.Sub[sentCase]{Prop: "C03", Name: "sentence-decode", Gen: genSentence, Check: checkSentence})
}

// which public entry point is called first in a process (and by how many goroutines at once)
func TestFirstCalls(t *testing.T) { h.FirstCallsSub(t, "C03", fc.Bip39(), 6) }
