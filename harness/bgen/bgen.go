// Package bgen holds rapid generators for Bech32-shaped strings shared by C04, C05, C16, C19.
package bgen

import (
	"strings"

	"pgregory.net/rapid"

	"verifharness/h"
	ref "verifharness/ref/bech32"
)

// HRP draws a single-case human-readable part of n bytes over 33..126 (no upper-case letters).
func HRP(t *rapid.T, n int) string {
	b := make([]byte, n)
	kind := h.Pick(t, "hrpkind", 8, 4, 2, 1, 1)
	if kind >= 3 && n >= 3 {
		// prefixes with inner structure, cut or padded to n characters: a word, a separator and the same
		// word again ("x:x", "ab-ab": whatever strips a scheme, a label or a repeated part sees one here),
		// or URL / escape syntax inside the prefix (%2d, %41, +, &amp;, \n, \x41)
		var str string
		w := HRP(t, (n-1)/2)
		if kind == 3 {
			sep := h.OneOf(t, "hrpsep", ":", "-", "_", ".", "/", "=", "@", "#", "+", "|", "~")
			str = w + sep + w
		} else {
			str = w + h.OneOf(t, "hrpesc", "%2d", "%41", "%31", "%00", "+", "&amp;", "\\n", "\\x41", "%%", "%s", "://") + w
		}
		for len(str) < n {
			str += "x"
		}
		return str[:n]
	}
	if kind >= 3 {
		kind = 2
	}
	for i := range b {
		switch kind {
		case 0: // letters only
			b[i] = byte(rapid.IntRange('a', 'z').Draw(t, "hl"))
		case 1: // letters, digits incl. '1'
			b[i] = "abcdefghijklmnopqrstuvwxyz0123456789"[rapid.IntRange(0, 35).Draw(t, "ha")]
		default: // anything printable that is not an upper-case letter
			c := byte(rapid.IntRange(33, 126).Draw(t, "hp"))
			if c >= 'A' && c <= 'Z' {
				c += 32
			}
			b[i] = c
		}
	}
	return string(b)
}

// KnownHRPs are network prefixes in actual use (IOTA, Shimmer, Bitcoin, Lightning, Litecoin, Cosmos, Cardano).
var KnownHRPs = []string{"iota", "atoi", "smr", "rms", "bc", "tb", "bcrt", "lnbc", "ltc", "cosmos", "addr", "stake", "test"}

// Symbols draws n 5-bit symbols.
func Symbols(t *rapid.T, n int) []byte {
	s := make([]byte, n)
	for i := range s {
		s[i] = byte(rapid.IntRange(0, 31).Draw(t, "sym"))
	}
	return s
}

// Valid draws a checksum-valid lower-case string. If wholeBytes, the symbols come from a
// byte string (always valid padding); otherwise they are arbitrary (any padding pattern,
// any symbol count). over allows total lengths above 90.
func Valid(t *rapid.T, wholeBytes bool, over bool) (s, hrp string, syms []byte) {
	max := 90
	if over {
		max = 96
	}
	hl := 1
	switch h.Pick(t, "hlk", 6, 2, 1) {
	case 0:
		hl = rapid.IntRange(1, 6).Draw(t, "hl")
	case 1:
		hl = rapid.IntRange(1, 40).Draw(t, "hl")
	default:
		hl = rapid.IntRange(41, 83).Draw(t, "hl")
	}
	known := ""
	if h.Pick(t, "knownhrp", 7, 1) == 1 { // prefixes an implementation may know by name
		known = h.OneOf(t, "khrp", KnownHRPs...)
		hl = len(known)
	}
	room := max - hl - 7 // symbols that still fit
	if room < 0 {
		room = 0
	}
	hrp = HRP(t, hl)
	if known != "" {
		hrp = known
	}
	if wholeBytes {
		nb := rapid.IntRange(0, room*5/8).Draw(t, "nb")
		data := rapid.SliceOfN(rapid.Byte(), nb, nb).Draw(t, "data")
		syms = ref.ToSymbols(data)
	} else {
		ns := rapid.IntRange(0, room).Draw(t, "ns")
		syms = Symbols(t, ns)
		// bias the last symbol towards small padding violations
		if ns > 0 && rapid.Bool().Draw(t, "lowpad") {
			syms[ns-1] = byte(rapid.IntRange(0, 31).Draw(t, "last")) & byte(h.OneOf(t, "padmask", 0x1f, 0x1e, 0x1c, 0x18, 0x10, 0x01, 0x03))
		}
	}
	return ref.EncodeSymbols(hrp, syms), hrp, syms
}

// Hostile replacement material: charset, excluded letters, control, non-ASCII, case-folding traps.
var Hostile = []string{
	"q", "p", "z", "l", "7", "0", "2", "1", "b", "i", "o", "B", "I", "O", "Q", "L", "K", "k", "S", "s",
	" ", "\x7f", "\x00", "\x1f", "\n", "!", "~", "@", "[", "`", "{",
	"\x80", "\xff", "\xc3", "\xc3\xa9", "\xe2\x84", "\xf0\x9f\x98\x80",
	"K", // KELVIN SIGN, lower-cases to 'k'
	"İ", // LATIN CAPITAL LETTER I WITH DOT ABOVE, lower-cases to "i̇"
	"ſ", // LATIN SMALL LETTER LONG S, upper-cases to 'S'
	"ẞ", // LATIN CAPITAL LETTER SHARP S
	"ı", // dotless i, upper-cases to 'I'
	"µ", // MICRO SIGN
	"Ω", // OHM SIGN
	"Å", // ANGSTROM SIGN
	"ｑ", // fullwidth q
}

// foldTraps maps ASCII letters to non-ASCII code points whose Unicode case mapping lands on them.
var foldTraps = map[byte][]string{
	'k': {"\u212a"}, 'K': {"\u212a"},
	's': {"\u017f"}, 'S': {"\u017f"},
	'i': {"\u0130", "\u0131"}, 'I': {"\u0130", "\u0131"},
}

// FoldTrap replaces one k/s/i letter (either case) of s by a non-ASCII code point that
// Unicode case folding maps onto it; returns s unchanged when there is no such letter.
func FoldTrap(t *rapid.T, s string) string {
	var idx []int
	for i := 0; i < len(s); i++ {
		if _, ok := foldTraps[s[i]]; ok {
			idx = append(idx, i)
		}
	}
	if len(idx) == 0 {
		return s
	}
	i := idx[rapid.IntRange(0, len(idx)-1).Draw(t, "trap")]
	alts := foldTraps[s[i]]
	return s[:i] + alts[rapid.IntRange(0, len(alts)-1).Draw(t, "trapalt")] + s[i+1:]
}

// FoldTrapPart is FoldTrap restricted to one part of a Bech32 string: 0 the human-readable part, 1 the data
// symbols, 2 the six checksum characters (a validation that skips one part of the string, or that runs
// after the case folding for one part only, is invisible unless the trap sits exactly there). The string is
// upper-cased first half of the time (ToLower maps the KELVIN SIGN onto k only then).
func FoldTrapPart(t *rapid.T, s string) string {
	if rapid.Bool().Draw(t, "trapupper") {
		s = Upper(s)
	}
	sep := strings.LastIndexByte(s, '1')
	if sep < 1 || len(s)-sep-1 < 6 {
		return FoldTrap(t, s)
	}
	lo, hi := 0, sep
	switch h.Pick(t, "trappart", 1, 1, 1) {
	case 1:
		lo, hi = sep+1, len(s)-6
	case 2:
		lo, hi = len(s)-6, len(s)
	}
	var idx []int
	for i := lo; i < hi; i++ {
		if _, ok := foldTraps[s[i]]; ok {
			idx = append(idx, i)
		}
	}
	if len(idx) == 0 {
		return FoldTrap(t, s)
	}
	i := idx[rapid.IntRange(0, len(idx)-1).Draw(t, "trapp")]
	alts := foldTraps[s[i]]
	return s[:i] + alts[rapid.IntRange(0, len(alts)-1).Draw(t, "trapaltp")] + s[i+1:]
}

// Edit applies one random edit (substitute / insert / delete / duplicate / truncate / fold trap) to s.
func Edit(t *rapid.T, s string) string {
	switch h.Pick(t, "trapk", 10, 2, 1) {
	case 1:
		return FoldTrap(t, s)
	case 2:
		return Frame(t, s)
	}
	pos := 0
	if len(s) > 0 {
		pos = rapid.IntRange(0, len(s)-1).Draw(t, "epos")
	}
	repl := ""
	switch h.Pick(t, "rk", 3, 2, 1, 1) {
	case 3: // the character with its "case bit" flipped or 32 above/below, whatever it is: a digit becomes a
		// control byte ('7' -> 0x17), a letter changes case, punctuation moves to another block
		if len(s) > 0 {
			c := s[pos]
			repl = string([]byte{[]byte{c ^ 0x20, c - 0x20, c + 0x20, c ^ 0x40}[rapid.IntRange(0, 3).Draw(t, "bitk")]})
			return s[:pos] + repl + s[pos+1:]
		}
	case 0:
		repl = h.OneOf(t, "host", Hostile...)
	case 1:
		repl = string(ref.Charset[rapid.IntRange(0, 31).Draw(t, "cs")])
	default:
		repl = string([]byte{rapid.Byte().Draw(t, "rb")})
	}
	switch h.Pick(t, "ek", 5, 3, 2, 1, 1) {
	case 0: // substitute
		if len(s) == 0 {
			return repl
		}
		return s[:pos] + repl + s[pos+1:]
	case 1: // insert, at any of the len(s)+1 places (after the last character too)
		ipos := rapid.IntRange(0, len(s)).Draw(t, "ipos")
		return s[:ipos] + repl + s[ipos:]
	case 2: // delete
		if len(s) == 0 {
			return s
		}
		return s[:pos] + s[pos+1:]
	case 3: // duplicate
		if len(s) == 0 {
			return s
		}
		return s[:pos] + s[pos:pos+1] + s[pos:]
	default: // truncate
		return s[:pos]
	}
}

// Framing is what surrounds a value that was read from a line, a field or a C string.
var Framing = []string{"\n", "\r\n", "\r", " ", "\t", "\x00", "\v", "\f", "\u00a0", "\u2003", "\u2028", "\ufeff", "\"", "'", ",", ";", "=", "\\", "n", "r"}

// Frame puts one or two pieces of framing (line ends, blanks, NUL, Unicode spaces, a byte order mark,
// quotes, separators) before and/or after s.
func Frame(t *rapid.T, s string) string {
	f := h.OneOf(t, "frame", Framing...)
	if h.Pick(t, "frame2", 3, 1) == 1 {
		f += h.OneOf(t, "frameb", Framing...)
	}
	switch h.Pick(t, "framewhere", 3, 1, 1) {
	case 0:
		return s + f
	case 1:
		return f + s
	}
	return f + s + f
}

// FlipCase flips the case of one ASCII letter of s (if any); returns s unchanged otherwise.
func FlipCase(t *rapid.T, s string) string {
	var idx []int
	for i := 0; i < len(s); i++ {
		c := s[i]
		if (c >= 'a' && c <= 'z') || (c >= 'A' && c <= 'Z') {
			idx = append(idx, i)
		}
	}
	if len(idx) == 0 {
		return s
	}
	i := idx[rapid.IntRange(0, len(idx)-1).Draw(t, "flip")]
	b := []byte(s)
	b[i] ^= 0x20
	return string(b)
}

// Upper is the ASCII upper-casing used for the all-upper spelling.
func Upper(s string) string { return ref.AsciiUpper(s) }

// HasLetter reports whether s contains an ASCII letter.
func HasLetter(s string) bool {
	return strings.IndexFunc(s, func(r rune) bool { return (r >= 'a' && r <= 'z') || (r >= 'A' && r <= 'Z') }) >= 0
}

// WrongConsts are final polymod constants other than BIP-173's 1 that related encodings use or that
// an implementation could confuse with it: Bech32m (BIP-350), 0, all ones, 1 with one more bit.
var WrongConsts = []uint32{0x2bc830a3, 0, 0x3fffffff, 2, 3, 0x2bc830a2, 1 << 29, 1<<29 | 1}

// WrongConst draws an otherwise well-formed string whose checksum was computed for one of WrongConsts.
func WrongConst(t *rapid.T) string {
	_, hrp, syms := Valid(t, true, false)
	c := WrongConsts[h.Pick(t, "wc", 6, 1, 1, 1, 1, 1, 1, 1)]
	return ref.EncodeSymbolsConst(hrp, syms, c)
}

// StateHRP draws a human-readable part after which the checksum register is 0 (mostly) or 1.
func StateHRP(t *rapid.T) string {
	target := uint32(h.OneOf(t, "st", 0, 0, 0, 1))
	for try := 0; ; try++ {
		n := rapid.IntRange(0, 20).Draw(t, "spl")
		prefix := ""
		if n > 0 {
			prefix = HRP(t, n)
		}
		if hrp, ok := ref.StateHRP(prefix, target); ok {
			return hrp
		}
		if try > 50 {
			return "a"
		}
	}
}

// ValidStateHRP draws a checksum-valid lower-case string over a StateHRP.
func ValidStateHRP(t *rapid.T) (s, hrp string, syms []byte) {
	hrp = StateHRP(t)
	nb := rapid.IntRange(0, 30).Draw(t, "snb")
	syms = ref.ToSymbols(rapid.SliceOfN(rapid.Byte(), nb, nb).Draw(t, "sdata"))
	return ref.EncodeSymbols(hrp, syms), hrp, syms
}

// nonASCIIRunes: code points whose low byte is a printable ASCII character (an implementation that
// truncates runes to bytes before the range check sees 'a', '1', 'B', ...), case-folding traps, and a
// few others; all valid UTF-8.
var nonASCIIRunes = []string{"\u0161", "\u0142", "\u4e61", "\u0131", "\u0141", "\u0231", "\u212a", "\u017f", "\u0130", "\u00e9", "\u00df", "\uff41", "\U0001f600", "\u0100", "\u017e", "\u2131"}

// NonASCIIPrefix draws a string that would be valid Bech32 if its human-readable part, which contains
// one or two non-ASCII runes, were allowed: the checksum is correct for the prefix's UTF-8 bytes, or
// for the prefix with every rune truncated to its low byte. It is not valid Bech32.
func NonASCIIPrefix(t *rapid.T) string {
	n := rapid.IntRange(0, 6).Draw(t, "nal")
	parts := []string{}
	for i := 0; i < n; i++ {
		parts = append(parts, string(rune(rapid.IntRange('a', 'z').Draw(t, "nac"))))
	}
	k := rapid.IntRange(1, 2).Draw(t, "nak")
	for i := 0; i < k; i++ {
		pos := rapid.IntRange(0, len(parts)).Draw(t, "nap")
		r := nonASCIIRunes[rapid.IntRange(0, len(nonASCIIRunes)-1).Draw(t, "nar")]
		parts = append(parts[:pos], append([]string{r}, parts[pos:]...)...)
	}
	hrp := strings.Join(parts, "")
	nb := rapid.IntRange(0, 20).Draw(t, "nab")
	syms := ref.ToSymbols(rapid.SliceOfN(rapid.Byte(), nb, nb).Draw(t, "nad"))
	if rapid.Bool().Draw(t, "natrunc") {
		// checksum as computed by an implementation that works on rune values truncated to bytes
		tr := make([]byte, 0, len(hrp))
		for _, r := range hrp {
			tr = append(tr, byte(r))
		}
		all := append(append([]byte{}, syms...), ref.Checksum(ref.AsciiLower(string(tr)), syms)...)
		out := []byte(hrp + "1")
		for _, v := range all {
			out = append(out, ref.Charset[v])
		}
		return string(out)
	}
	return ref.EncodeSymbols(hrp, syms)
}

// SplitCase returns s with the human-readable part (the first hrpLen bytes) in one case and the rest in
// the other: each part is single-case, the string as a whole is not.
func SplitCase(s string, hrpLen int, upperPrefix bool) string {
	if hrpLen > len(s) {
		hrpLen = len(s)
	}
	if upperPrefix {
		return ref.AsciiUpper(s[:hrpLen]) + ref.AsciiLower(s[hrpLen:])
	}
	return ref.AsciiLower(s[:hrpLen]) + ref.AsciiUpper(s[hrpLen:])
}
