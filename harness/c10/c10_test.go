// C10 — BIP-32 path text form round-trips and is read as decimal.
package c10

import (
	"fmt"
	"strings"
	"testing"

	"github.com/wollac/iota-crypto-demo/pkg/bip32path"
	"pgregory.net/rapid"

	"verifharness/fc"
	"verifharness/h"
)

func TestMain(m *testing.M) {
	h.FirstCallsChild(fc.Path()) // never returns in a first-call child process
	h.Main(m)
}

// ---- reference: hand-written parser, base 10, no regexp, no strconv ----

// refParse returns (values, accepted).
func refParse(s string) ([]uint32, bool) {
	if s == "" || s == "m" {
		return []uint32{}, true
	}
	if len(s) >= 2 && s[0] == 'm' && s[1] == '/' {
		s = s[2:]
	}
	var out []uint32
	i := 0
	for {
		// one component starting at i
		j := i
		for j < len(s) && s[j] >= '0' && s[j] <= '9' {
			j++
		}
		if j == i {
			return nil, false // no digit
		}
		// decimal value with arbitrary leading zeros, must be < 2^31
		k := i
		for k < j-1 && s[k] == '0' {
			k++
		}
		if j-k > 10 {
			return nil, false
		}
		var v uint64
		for ; k < j; k++ {
			v = v*10 + uint64(s[k]-'0')
		}
		if v >= 1<<31 {
			return nil, false
		}
		if j < len(s) && (s[j] == 'H' || s[j] == '\'') {
			v += 1 << 31
			j++
		}
		out = append(out, uint32(v))
		if j == len(s) {
			return out, true
		}
		if s[j] != '/' {
			return nil, false
		}
		i = j + 1
	}
}

func refString(p []uint32) string {
	s := "m"
	for _, v := range p {
		s += "/" + fmt.Sprint(v&0x7fffffff)
		if v >= 1<<31 {
			s += "'"
		}
	}
	return s
}

// ---- cases ----

type strCase struct {
	S h.S `json:"s"`
}

func interesting(s string) (leadingZero, boundary bool) {
	for _, comp := range strings.Split(strings.TrimPrefix(s, "m/"), "/") {
		d := strings.TrimRight(comp, "H'")
		if len(d) >= 2 && d[0] == '0' {
			leadingZero = true
		}
		switch strings.TrimLeft(d, "0") {
		case "2147483646", "2147483647", "2147483648", "2147483649", "2147483650", "4294967295", "4294967296":
			boundary = true
		}
	}
	return
}

func checkString(c strCase) (h.Info, error) {
	s := string(c.S)
	want, ok := refParse(s)
	got, err := bip32path.ParsePath(s)
	lz, bd := interesting(s)
	info := h.Info{}
	switch {
	case !ok:
		info = h.Info{Class: "reject", NT: true}
	case lz:
		info = h.Info{Class: "accept/leading-zero", NT: true}
	case bd:
		info = h.Info{Class: "accept/boundary", NT: true}
	case len(want) == 0:
		info = h.Info{Class: "accept/empty"}
	default:
		info = h.Info{Class: "accept/plain", NT: len(want) >= 2}
	}
	if ok != (err == nil) {
		return info, fmt.Errorf("ParsePath(%q): reference accepts=%v, got err=%v (value %v, reference %v)", s, ok, err, []uint32(got), want)
	}
	if !ok {
		var p bip32path.Path
		if uerr := p.UnmarshalText([]byte(s)); uerr == nil {
			return info, fmt.Errorf("UnmarshalText(%q) succeeded although ParsePath fails", s)
		}
		return info, nil
	}
	if len(got) != len(want) {
		return info, fmt.Errorf("ParsePath(%q) = %v, reference %v", s, []uint32(got), want)
	}
	for i := range want {
		if got[i] != want[i] {
			return info, fmt.Errorf("ParsePath(%q) = %v, reference %v (component %d)", s, []uint32(got), want, i)
		}
	}
	// no state between calls: modify the returned path in place and parse the same string again
	for i := range got {
		got[i] ^= 0x5a5a5a5a
	}
	if again, err := bip32path.ParsePath(s); err != nil || !equal(again, want) {
		return info, fmt.Errorf("second ParsePath(%q) = %v, %v after the first result was modified; want %v", s, []uint32(again), err, want)
	}
	got = bip32path.Path(append([]uint32{}, want...))
	var p bip32path.Path
	if uerr := p.UnmarshalText([]byte(s)); uerr != nil || !equal(p, want) {
		return info, fmt.Errorf("UnmarshalText(%q) = %v,%v; reference %v", s, []uint32(p), uerr, want)
	}
	// receivers that already hold a path: longer, shorter, empty with spare capacity, and one receiver that
	// lives across cases (so it sees long, short and long results in turn); the old content must be gone
	for i, r := range []bip32path.Path{make(bip32path.Path, len(want)+3), make(bip32path.Path, 1, len(want)+5), make(bip32path.Path, 0, 64), sharedReceiver} {
		for j := range r {
			r[j] = 0xdeadbeef
		}
		before := len(r)
		if uerr := r.UnmarshalText([]byte(s)); uerr != nil || !equal(r, want) {
			return info, fmt.Errorf("UnmarshalText(%q) into a receiver that already held %d components (capacity %d, receiver kind %d) = %v,%v; reference %v", s, before, cap(r)+0, i, []uint32(r), uerr, want)
		}
		if i == 3 {
			sharedReceiver = r
		}
	}
	// an accepted string's value prints and parses back to the same value
	back, err := bip32path.ParsePath(got.String())
	if err != nil || !equal(back, want) {
		return info, fmt.Errorf("ParsePath(String(%v)) = %v,%v", want, []uint32(back), err)
	}
	return info, nil
}

// a receiver of UnmarshalText that is reused from case to case
var sharedReceiver bip32path.Path

func equal(a bip32path.Path, b []uint32) bool {
	if len(a) != len(b) {
		return false
	}
	for i := range a {
		if a[i] != b[i] {
			return false
		}
	}
	return true
}

var digitForms = []string{
	"0", "1", "7", "8", "9", "10", "44", "007", "08", "09", "010", "017", "018", "00", "000", "0000000000000000000001",
	"0000000000000000000008", "2147483646", "2147483647", "02147483647", "00000000002147483647", "0777", "0100",
}

var badDigitForms = []string{
	"2147483648", "2147483649", "002147483648",
	"4294967295", "4294967296", "99999999999", "18446744073709551616", "0x10", "0X1f", "0b1", "0o7", "1_0", "1e3", "+1", "-1", "",
	"٣", "１", " 1", "1 ", "1\n", "0_8", "00x1",
}

var markers = []string{"", "", "", "", "'", "'", "H", "H"}
var badMarkers = []string{"h", "''", "H'", "'H", "HH", "’", "|", "^", "$", "?", "*", "+", ")", "(", "[", "]", "\\", "{", "}", ".", "`", "\""}
var prefixes = []string{"m/", "m/", "m/", "", ""}
var badPrefixes = []string{"m", "M/", "/", "m//", "mm/", "m/m/", " m/"}
var noise = []string{"0", "1", "8", "9", "m", "/", "H", "'", "x", "_", "+", "-", " ", "\n", "\x00", "٣", "o", "b", "\xff", "e", ".",
	// characters with a meaning in regular expressions and format strings
	"|", "^", "$", "?", "*", "(", ")", "[", "]", "\\", "{", "}", "%", "#", "d", "\\d"}

func genString(t *rapid.T) strCase {
	var sb strings.Builder
	if h.Pick(t, "pk", 15, 1) == 0 {
		sb.WriteString(h.OneOf(t, "prefix", prefixes...))
	} else {
		sb.WriteString(h.OneOf(t, "badprefix", badPrefixes...))
	}
	n := rapid.IntRange(0, 6).Draw(t, "ncomp")
	if h.Pick(t, "deep", 800, 1) == 1 { // very deep paths: 250..300 and around 1024 components
		n = h.OneOf(t, "depth", 250, 254, 255, 256, 257, 258, 300, 1023, 1024, 1025)
	}
	for i := 0; i < n; i++ {
		if i > 0 {
			if h.Pick(t, "sep", 40, 1, 1) == 0 {
				sb.WriteByte('/')
			} else if rapid.Bool().Draw(t, "dbl") {
				sb.WriteString("//")
			}
		}
		switch h.Pick(t, "dk", 20, 12, 4, 1, 1) {
		case 0:
			sb.WriteString(h.OneOf(t, "digits", digitForms...))
		case 1:
			z := rapid.IntRange(0, 3).Draw(t, "zeros")
			sb.WriteString(strings.Repeat("0", z))
			sb.WriteString(fmt.Sprint(rapid.Uint64Range(0, 1<<31-1).Draw(t, "val")))
		case 2:
			sb.WriteString(rapid.StringMatching(`[0-9]{1,9}`).Draw(t, "rnd"))
		case 3:
			if h.Pick(t, "huge", 6, 1) == 1 {
				// hundreds or thousands of digits: a value far beyond 2^31 (rejected), or leading zeros in front
				// of a small value (accepted); lengths around 256, 512, 65536 where a narrow counter wraps
				n := h.OneOf(t, "hugelen", 255, 256, 257, 258, 266, 267, 511, 512, 513, 1000, 65535, 65536, 65537, 65546)
				lead := h.OneOf(t, "hugelead", "1", "9", "0", "2147483647", "00")
				fill := h.OneOf(t, "hugefill", "0", "0", "9", "1")
				tail := h.OneOf(t, "hugetail", "", "7", "2147483647", "2147483648", "0000000001")
				if n > len(lead)+len(tail) {
					sb.WriteString(lead + strings.Repeat(fill, n-len(lead)-len(tail)) + tail)
				}
				break
			}
			sb.WriteString(rapid.StringMatching(`[0-9]{10,12}`).Draw(t, "rndlong"))
		default:
			sb.WriteString(h.OneOf(t, "baddigits", badDigitForms...))
		}
		if h.Pick(t, "mk", 30, 1) == 0 {
			sb.WriteString(h.OneOf(t, "marker", markers...))
		} else {
			sb.WriteString(h.OneOf(t, "badmarker", badMarkers...))
		}
	}
	if h.Pick(t, "trail", 40, 1) == 1 {
		sb.WriteByte('/')
	}
	s := sb.String()
	// noise edits
	ne := h.Pick(t, "nedits", 16, 3, 1)
	for e := 0; e < ne; e++ {
		pos := 0
		if len(s) > 0 {
			pos = rapid.IntRange(0, len(s)).Draw(t, "pos")
		}
		switch h.Pick(t, "edit", 4, 4, 2, 1) {
		case 3: // a significant character replaced by a rune that equals it modulo 256 or modulo 65536
			// (U+0134 for '4', U+016D for 'm', U+012F for '/', U+10030 for '0'): a scanner that narrows
			// runes to bytes reads the original character
			if pos < len(s) && s[pos] < 0x80 {
				r := rune(s[pos]) + rune(h.OneOf(t, "runeoff", 0x100, 0x200, 0x1000, 0x10000, 0xff00))
				s = s[:pos] + string(r) + s[pos+1:]
			}
		case 0: // insert
			s = s[:pos] + h.OneOf(t, "ins", noise...) + s[pos:]
		case 1: // delete
			if pos < len(s) {
				s = s[:pos] + s[pos+1:]
			}
		default: // replace
			if pos < len(s) {
				s = s[:pos] + h.OneOf(t, "rep", noise...) + s[pos+1:]
			}
		}
	}
	return strCase{S: h.S(s)}
}

func TestStrings(t *testing.T) {
	h.Run(t, h.Sub[strCase]{
		Prop: "C10", Name: "parse-strings", N: 100000,
		Gen: genString, Check: checkString,
		Require: []string{"reject", "accept/leading-zero", "accept/boundary", "accept/plain"},
		Rule:    "grammar-with-noise strings; non-trivial = rejected by the reference, or accepted with a leading-zero component, a value within 2 of 2^31 / 2^32, or >= 2 components; distinct by string",
	})
}

var enumAlphabet = []byte("0189m/H'x")

func TestEnumShort(t *testing.T) {
	maxLen := 5
	if h.Thorough() {
		maxLen = 6
	}
	h.RunEnum(t, h.Enum[strCase]{
		Prop: "C10", Name: "enum-short-strings",
		Rule: fmt.Sprintf("complete enumeration of all strings of length <= %d over {0,1,8,9,m,/,H,',x} (66 430 for length <= 5, 597 871 for <= 6); every string counts as non-trivial (distinct by construction)", maxLen),
		Each: func(yield func(strCase) bool) {
			var rec func(prefix []byte, depth int) bool
			rec = func(prefix []byte, depth int) bool {
				if !yield(strCase{S: h.S(prefix)}) {
					return false
				}
				if depth == maxLen {
					return true
				}
				for _, ch := range enumAlphabet {
					if !rec(append(append([]byte{}, prefix...), ch), depth+1) {
						return false
					}
				}
				return true
			}
			rec(nil, 0)
		},
		Check: func(c strCase) (h.Info, error) {
			info, err := checkString(c)
			info.NT = true
			return info, err
		},
		Require: []string{"reject", "accept/leading-zero"},
	})
}

// ---- round trip over []uint32 ----

type pathCase struct {
	Path []uint32 `json:"path"`
}

func genPath(t *rapid.T) pathCase {
	n := rapid.IntRange(0, 12).Draw(t, "n")
	if h.Pick(t, "deep", 150, 1) == 1 {
		n = h.OneOf(t, "depth", 254, 255, 256, 257, 300, 1024, 1025)
	}
	p := make([]uint32, n)
	for i := range p {
		switch h.Pick(t, "ik", 3, 2, 4) {
		case 0:
			p[i] = h.OneOf(t, "corner", uint32(0), 1, 1<<31-1, 1<<31, 1<<31+1, 1<<32-1, 8, 9, 10, 1<<31+8)
		case 1:
			p[i] = rapid.Uint32Range(0, 100).Draw(t, "small") | (uint32(rapid.IntRange(0, 1).Draw(t, "hard")) << 31)
		default:
			p[i] = rapid.Uint32().Draw(t, "any")
		}
	}
	return pathCase{Path: p}
}

var otherPaths = []bip32path.Path{{1<<32 - 1, 1<<31 - 1, 1 << 31, 2147483647, 4294967295, 9, 8}, {}, {44 | 1<<31, 4218 | 1<<31, 1 << 31, 0, 7}}

func checkPath(c pathCase) (h.Info, error) {
	p := bip32path.Path(c.Path)
	hard, norm := false, false
	for _, v := range c.Path {
		if v >= 1<<31 {
			hard = true
		} else {
			norm = true
		}
	}
	info := h.Info{Class: "path/uniform", NT: len(c.Path) > 0}
	if hard && norm {
		info = h.Info{Class: "path/mixed", NT: true}
	}
	if len(c.Path) == 0 {
		info.Class = "path/empty"
	}
	s := p.String()
	// the statement only requires that the printed form parses back; the exact spelling ("'" or "H",
	// with or without "m/") is not asserted. The conventional spelling must parse to the same path too.
	if back, err := bip32path.ParsePath(refString(c.Path)); err != nil || !equal(back, c.Path) {
		return info, fmt.Errorf("ParsePath(%q) = %v,%v; want %v", refString(c.Path), []uint32(back), err, c.Path)
	}
	back, err := bip32path.ParsePath(s)
	if err != nil || !equal(back, c.Path) {
		return info, fmt.Errorf("ParsePath(%q) = %v,%v; want %v", s, []uint32(back), err, c.Path)
	}
	mt, err := p.MarshalText()
	if err != nil {
		return info, fmt.Errorf("MarshalText: %v", err)
	}
	var q bip32path.Path
	if err := q.UnmarshalText(mt); err != nil || !equal(q, c.Path) {
		return info, fmt.Errorf("UnmarshalText(%q) = %v,%v", mt, []uint32(q), err)
	}
	// the marshalled bytes belong to the caller: still the same text after other paths were printed
	// and marshalled (a caller that collects several marshalled paths before using them)
	kept := string(mt)
	for _, o := range otherPaths {
		_ = o.String()
		if _, err := o.MarshalText(); err != nil {
			return info, fmt.Errorf("MarshalText(%v): %v", []uint32(o), err)
		}
	}
	if string(mt) != kept {
		return info, fmt.Errorf("the bytes returned by MarshalText for %v read %q right after the call and %q after %d other paths were printed/marshalled", c.Path, kept, mt, len(otherPaths))
	}
	for i := range mt { // and writing into them does not disturb later calls
		mt[i] = 'X'
	}
	if again, err := p.MarshalText(); err != nil || string(again) != kept {
		return info, fmt.Errorf("MarshalText(%v) = %q, %v after the bytes of the previous result were overwritten by the caller; before: %q", c.Path, again, err, kept)
	}
	// the H spelling and the prefix-less spelling denote the same path
	alt := strings.ReplaceAll(s, "'", "H")
	if back, err := bip32path.ParsePath(alt); err != nil || !equal(back, c.Path) {
		return info, fmt.Errorf("ParsePath(%q) = %v,%v; want %v", alt, []uint32(back), err, c.Path)
	}
	if len(c.Path) > 0 && strings.HasPrefix(s, "m/") {
		alt2 := strings.TrimPrefix(s, "m/")
		if back, err := bip32path.ParsePath(alt2); err != nil || !equal(back, c.Path) {
			return info, fmt.Errorf("ParsePath(%q) = %v,%v; want %v", alt2, []uint32(back), err, c.Path)
		}
	}
	return info, nil
}

func TestPaths(t *testing.T) {
	h.Run(t, h.Sub[pathCase]{
		Prop: "C10", Name: "path-roundtrip", N: 40000,
		Gen: genPath, Check: checkPath,
		Require: []string{"path/mixed", "path/empty"},
		Rule:    "[]uint32 paths of length 0..12 (and 254..300, 1024, 1025) with corner indices; non-trivial = non-empty path; distinct by path",
	})
}

// FuzzParsePath is the coverage-guided byte-level variant of parse-strings (thorough tier).
func FuzzParsePath(f *testing.F) {
	for _, s := range []string{"", "m", "m/", "m/0", "m/44'/0'/0'/0/0", "m/44H/0H", "0/1", "m/08", "m/010", "m/2147483647'", "m/2147483648", "m//1", "m/1/", "mm/1", "m/0x10", "m/1_0", "m/+1", "m/٣", "1H'", "m/00000000000000000000009"} {
		f.Add(s)
	}
	f.Fuzz(func(t *testing.T, s string) {
		c := strCase{S: h.S(s)}
		if _, err := checkString(c); err != nil {
			h.Fail(t, "C10", "parse-strings", c, err)
		}
	})
}

// FuzzGenStrings: the structured generator driven by Go's coverage-guided fuzzer (thorough tier).
func FuzzGenStrings(f *testing.F) {
	h.FuzzSub(f, h.Sub[strCase]{Prop: "C10", Name: "parse-strings", Gen: genString, Check: checkString})
}

// which public entry point is called first in a process (and by how many goroutines at once)
func TestFirstCalls(t *testing.T) { h.FirstCallsSub(t, "C10", fc.Path(), 6) }
