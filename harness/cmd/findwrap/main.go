// Command findwrap searches (offline, once) for SLIP-0010 derivation steps on NIST P-256 in which the
// sum parse256(I_L) + k_par lies in [n, 2^256): the modular addition wraps around the group order
// without carrying out of 256 bits (probability 2^-32 per step; on secp256k1 2^-128, out of reach).
// The steps found are pinned in /verif/data/slip10/wrap_p256.json and used by C02 and C08 as
// constructed inputs, like the official SLIP-0010 "retry" vectors. Only reference code is used.
//
//	go run ./cmd/findwrap -hits 3 > ../data/slip10/wrap_p256.json
package main

import (
	"crypto/hmac"
	"crypto/sha512"
	"encoding/binary"
	"encoding/hex"
	"encoding/json"
	"flag"
	"fmt"
	"math/big"
	"os"
	"runtime"
	"sync"
	"sync/atomic"

	ref "verifharness/ref/slip10"
)

type hit struct {
	Seed   string   `json:"seed"`
	Path   []uint32 `json:"path"` // the last step is the wrapping one
	Parent string   `json:"parent_private_key"`
	IL     string   `json:"i_l"`
	Child  string   `json:"child_private_key"`
}

func main() {
	want := flag.Int("hits", 2, "number of steps to find")
	flag.Parse()
	n, _ := new(big.Int).SetString("ffffffff00000000ffffffffffffffffbce6faada7179e84f3b9cac2fc632551", 16)
	seed, _ := hex.DecodeString("000102030405060708090a0b0c0d0e0f")
	var found int32
	var mu sync.Mutex
	var hits []hit
	for first := uint32(0); int(atomic.LoadInt32(&found)) < *want; first++ {
		master := ref.Master(ref.Nist256p1, seed)
		parent, err := ref.Child(ref.Nist256p1, master, first|ref.Hardened)
		if err != nil {
			continue
		}
		k := new(big.Int).SetBytes(parent.Priv)
		var wg sync.WaitGroup
		workers := runtime.NumCPU()
		for w := 0; w < workers; w++ {
			wg.Add(1)
			go func(w int) {
				defer wg.Done()
				mac := hmac.New(sha512.New, parent.Chain)
				data := make([]byte, 37)
				copy(data[1:33], parent.Priv)
				var sum [64]byte
				k0 := binary.BigEndian.Uint32(parent.Priv[:4])
				for i := uint64(w); i < 1<<31 && int(atomic.LoadInt32(&found)) < *want; i += uint64(workers) {
					binary.BigEndian.PutUint32(data[33:], uint32(i)|ref.Hardened)
					mac.Reset()
					mac.Write(data)
					s := mac.Sum(sum[:0])
					// cheap filter: the top 32 bits of the sum must be all ones (n = ffffffff 00000000 ...)
					t := uint64(binary.BigEndian.Uint32(s[:4])) + uint64(k0)
					if t != 0xffffffff && t != 0xfffffffe {
						continue
					}
					il := new(big.Int).SetBytes(s[:32])
					if il.Cmp(n) >= 0 {
						continue
					}
					v := new(big.Int).Add(il, k)
					if v.Cmp(n) > 0 && v.BitLen() <= 256 { // (v == n is the invalid-key case, not this one)
						child := new(big.Int).Sub(v, n)
						mu.Lock()
						hits = append(hits, hit{hex.EncodeToString(seed), []uint32{first | ref.Hardened, uint32(i) | ref.Hardened}, hex.EncodeToString(parent.Priv), hex.EncodeToString(s[:32]), fmt.Sprintf("%064x", child)})
						mu.Unlock()
						atomic.AddInt32(&found, 1)
					}
				}
			}(w)
		}
		wg.Wait()
		fmt.Fprintf(os.Stderr, "parent m/%d' done, %d hits\n", first, len(hits))
	}
	// cross-check every hit with the full reference derivation
	for _, h := range hits {
		node := ref.Master(ref.Nist256p1, seed)
		for _, idx := range h.Path {
			var err error
			if node, err = ref.Child(ref.Nist256p1, node, idx); err != nil {
				panic(err)
			}
		}
		if hex.EncodeToString(node.Priv) != h.Child {
			panic("reference derivation disagrees with the search")
		}
	}
	enc := json.NewEncoder(os.Stdout)
	enc.SetIndent("", " ")
	enc.Encode(hits)
}
