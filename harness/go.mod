module verifharness

go 1.23

require (
	github.com/wollac/iota-crypto-demo v0.0.0
	pgregory.net/rapid v1.3.0
)

replace github.com/wollac/iota-crypto-demo => /repo
