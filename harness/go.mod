module verifharness

go 1.23

require (
	github.com/iotaledger/iota.go v1.0.0
	github.com/wollac/iota-crypto-demo v0.0.0
	golang.org/x/crypto v0.2.0
	golang.org/x/text v0.4.0
	pgregory.net/rapid v1.3.0
)

require (
	filippo.io/edwards25519 v1.0.0 // indirect
	github.com/pkg/errors v0.8.1 // indirect
	golang.org/x/sys v0.2.0 // indirect
)

replace github.com/wollac/iota-crypto-demo => /repo
