// C02 — SLIP-0010 derivation matches the specification on all three curves.
package c02

import (
	"bytes"
	"encoding/hex"
	"encoding/json"
	"errors"
	"fmt"
	"math/big"
	"os"
	"path/filepath"
	"runtime"
	"testing"

	"github.com/wollac/iota-crypto-demo/pkg/slip10"
	"github.com/wollac/iota-crypto-demo/pkg/slip10/eddsa"
	slipelliptic "github.com/wollac/iota-crypto-demo/pkg/slip10/elliptic"
	"pgregory.net/rapid"

	"verifharness/fc"
	"verifharness/h"
	"verifharness/ref/secp"
	ref "verifharness/ref/slip10"
)

func TestMain(m *testing.M) {
	h.FirstCallsChild(fc.Slip10()) // never returns in a first-call child process
	for _, c := range []*secp.Curve{secp.K1, secp.P256} {
		if err := c.SelfCheck(); err != nil {
			fmt.Println("VERIF-INFRA reference self-check failed:", err)
			panic(err)
		}
	}
	if err := ref.SelfCheck(); err != nil {
		fmt.Println("VERIF-INFRA reference self-check failed:", err)
		panic(err)
	}
	h.Note("ref/slip10 reproduces every official SLIP-0010 vector (pinned copies in /verif/data/slip10), incl. the P-256 retry vectors")
	h.Main(m)
}

// wrapVectors: pinned derivation steps on P-256 in which the modular addition wraps around n without a
// carry out of 256 bits (probability 2^-32 per step; /verif/data/slip10/wrap_p256.json).
type wrapVector struct {
	seed []byte
	path []uint32
}

var wrapVectors = func() []wrapVector {
	_, file, _, _ := runtime.Caller(0)
	b, err := os.ReadFile(filepath.Join(filepath.Dir(file), "..", "..", "data", "slip10", "wrap_p256.json"))
	if err != nil {
		return nil
	}
	var raw []struct {
		Seed string   `json:"seed"`
		Path []uint32 `json:"path"`
	}
	if json.Unmarshal(b, &raw) != nil {
		return nil
	}
	var out []wrapVector
	for _, r := range raw {
		s, _ := hex.DecodeString(r.Seed)
		out = append(out, wrapVector{s, r.Path})
	}
	return out
}()

type deriveCase struct {
	Curve string   `json:"curve"` // secp256k1, nist256p1, ed25519, toyW50, toyW90, toyS50, toyS90
	Seed  h.B      `json:"seed"`
	Path  []uint32 `json:"path"`
	// PubFrom: derive the steps from this index on from the extended public key (-1 = never)
	PubFrom int `json:"pub_from"`
	// fault injection on toy curves
	FailNew   int `json:"fail_new,omitempty"`
	FailShift int `json:"fail_shift,omitempty"`
	// Wrap: the toy curve reports invalid candidates with an error wrapping ErrInvalidKey
	Wrap bool `json:"wrap,omitempty"`
	// FaultKind: which permanent error the injected fault returns (0 the harness's own, 1 ErrNotHardened,
	// 2 ErrHardenedChildPublicKey, 3 an error wrapping ErrNotHardened)
	FaultKind int `json:"fault_kind,omitempty"`
	// KeyLen > 0 (toyW curves): the curve's HMAC key is a pattern of this many bytes (SHA-512 block size 128:
	// a key longer than that is hashed first, one of exactly that size is not)
	KeyLen int `json:"key_len,omitempty"`
}

func toyHmacKey(n int) []byte {
	if n <= 0 {
		return nil
	}
	b := make([]byte, n)
	for i := range b {
		b[i] = byte('a' + i%23)
	}
	return b
}

func masks(name string) byte {
	switch name {
	case "toyW50", "toyS50":
		return 0x01 // half of all candidates invalid
	case "toyW90", "toyS90":
		return 0x0e // 7/8 invalid
	case "toyS98":
		return 0x3f // 63/64 invalid: retry chains of more than 64 steps are common
	}
	return 0
}

// curves returns the curve under test and the matching reference description.
func curves(c deriveCase) (slip10.Curve, ref.Curve, *counter) {
	cnt := &counter{}
	switch c.Curve {
	case "secp256k1":
		return slipelliptic.Secp256k1(), ref.Secp256k1, cnt
	case "nist256p1":
		return slipelliptic.Nist256p1(), ref.Nist256p1, cnt
	case "ed25519":
		return eddsa.Ed25519(), ref.Ed25519, cnt
	case "toyW50", "toyW90":
		refKey := "toyW seed"
		if c.KeyLen > 0 {
			refKey = string(toyHmacKey(c.KeyLen))
		}
		return &toyW{wrap: c.Wrap, mask: masks(c.Curve), cnt: cnt, fault: fault{c.FailNew, c.FailShift, c.FaultKind}, nShift: new(int), hmacKey: toyHmacKey(c.KeyLen)},
			&ref.Weier{C: secp.P256, Key: refKey, Mask: masks(c.Curve)}, cnt
	case "toyS50", "toyS90", "toyS98":
		return &toyS{wrap: c.Wrap, mask: masks(c.Curve), cnt: cnt, fault: fault{c.FailNew, c.FailShift, c.FaultKind}, nShift: new(int)},
			&ref.Ed{Mask: masks(c.Curve), Toy: true}, cnt
	}
	return nil, nil, cnt
}

func compareNode(where string, k *slip10.ExtendedKey, n ref.Node) error {
	if k == nil {
		return fmt.Errorf("%s: nil key", where)
	}
	private := n.Priv != nil
	if k.IsPrivate() != private {
		return fmt.Errorf("%s: IsPrivate = %v, want %v", where, k.IsPrivate(), private)
	}
	if private && !bytes.Equal(k.Key.Bytes(), n.Priv) {
		return fmt.Errorf("%s: private key %x, SLIP-0010 reference %x", where, k.Key.Bytes(), n.Priv)
	}
	if !bytes.Equal(k.ChainCode, n.Chain) {
		return fmt.Errorf("%s: chain code %x, reference %x", where, k.ChainCode, n.Chain)
	}
	if pub := k.Key.Public().Bytes(); !bytes.Equal(pub, n.Pub) {
		return fmt.Errorf("%s: serialized public key %x, reference %x", where, pub, n.Pub)
	}
	if fp := k.Fingerprint(); !bytes.Equal(fp, ref.Fingerprint(n)) {
		return fmt.Errorf("%s: fingerprint %x, reference %x", where, fp, ref.Fingerprint(n))
	}
	p := k.Public()
	if p.IsPrivate() || !bytes.Equal(p.ChainCode, n.Chain) || !bytes.Equal(p.Fingerprint(), ref.Fingerprint(n)) || !bytes.Equal(p.Key.Bytes(), n.Pub) {
		return fmt.Errorf("%s: Public() does not keep chain code / fingerprint / key (%x %x %x)", where, p.ChainCode, p.Fingerprint(), p.Key.Bytes())
	}
	return nil
}

func checkDerive(c deriveCase) (info h.Info, err error) {
	cut, rc, cnt := curves(c)
	if cut == nil {
		return h.Info{}, fmt.Errorf("PRECONDITION: unknown curve %q", c.Curve)
	}
	defer func() {
		if r := recover(); r != nil {
			if _, ok := r.(budgetExceeded); ok {
				err = fmt.Errorf("derivation on %s (fail_new=%d fail_shift=%d) called into the curve more than %d times: an error that is not ErrInvalidKey is retried instead of being returned", c.Curve, c.FailNew, c.FailShift, callBudget)
				return
			}
			panic(r)
		}
	}()
	toy := c.Curve[:3] == "toy"
	faulty := c.FailNew > 0 || c.FailShift > 0
	info = h.Info{Class: c.Curve + "/plain"}

	// model run: where does the first undefined derivation or the injected fault happen?
	seed := []byte(c.Seed)
	n := ref.Master(rc, seed)
	totalRetries := n.Retries
	masterRetries := n.Retries
	// the master makes Retries+1 NewPrivateKey calls; a fault inside them is permanent
	if c.FailNew > 0 && c.FailNew <= masterRetries+1 {
		info = h.Info{Class: "permanent-error/master", NT: true}
		k, err := slip10.DeriveKeyFromPath(seed, cut, c.Path)
		if !isPermanent(err, c.FaultKind) {
			return info, fmt.Errorf("curve error (not ErrInvalidKey) in NewPrivateKey call %d: DeriveKeyFromPath returned %v, %v; want the curve's error", c.FailNew, k, err)
		}
		if cnt.calls != c.FailNew {
			return info, fmt.Errorf("after a permanent NewPrivateKey error %d curve calls were made, want %d", cnt.calls, c.FailNew)
		}
		fresh, _, _ := curves(c) // new instance with the same injected fault
		k2, err := slip10.NewMasterKey(seed, fresh)
		if !isPermanent(err, c.FaultKind) {
			return info, fmt.Errorf("NewMasterKey with a permanent curve error returned %v, %v", k2, err)
		}
		return info, nil
	}
	seedWithCap := append(append(make([]byte, 0, len(seed)+72), seed...), bytes.Repeat([]byte{0xa5}, 72)...)[:len(seed)]
	key, kerr := slip10.NewMasterKey(seedWithCap, cut)
	if !bytes.Equal(seedWithCap, seed) || !bytes.Equal(seedWithCap[:cap(seedWithCap)][len(seed):], bytes.Repeat([]byte{0xa5}, 72)) {
		return info, fmt.Errorf("NewMasterKey modified the caller's seed slice or wrote behind it")
	}
	if kerr != nil {
		return info, fmt.Errorf("NewMasterKey(%x, %s): %v", seed, c.Curve, kerr)
	}
	if err := compareNode("master", key, n); err != nil {
		return info, err
	}
	shiftCalls := 0
	public := false
	for step, idx := range c.Path {
		if !public && c.PubFrom >= 0 && step >= c.PubFrom {
			key = key.Public()
			n = ref.Public(n)
			public = true
		}
		next, rerr := ref.Child(rc, n, idx)
		if rerr != nil {
			kind := "undefined/hardened-from-public"
			if idx < ref.Hardened {
				kind = "undefined/ed25519-non-hardened"
				if public {
					kind += "-public"
				}
			}
			info = h.Info{Class: kind, NT: true}
			child, err := key.DeriveChild(idx)
			if err == nil {
				return info, fmt.Errorf("step %d index %#x on %s (public=%v): SLIP-0010 does not define this derivation, but DeriveChild returned a key %v without error", step, idx, c.Curve, public, child != nil)
			}
			// the path API must fail as well (private derivation only)
			if !public {
				_, err := slip10.DeriveKeyFromPath(seed, cut2(c), c.Path[:step+1])
				if err == nil {
					return info, fmt.Errorf("DeriveKeyFromPath(%v) on %s: undefined derivation returned a key", c.Path[:step+1], c.Curve)
				}
			}
			return info, nil
		}
		// does the injected Shift fault hit this step?
		if c.FailShift > 0 && c.FailShift <= shiftCalls+next.Retries+1 {
			info = h.Info{Class: "permanent-error/child", NT: true}
			child, err := key.DeriveChild(idx)
			if !isPermanent(err, c.FaultKind) {
				return info, fmt.Errorf("curve error (not ErrInvalidKey) in Shift call %d: DeriveChild returned %v, %v; want the curve's error", c.FailShift, child, err)
			}
			return info, nil
		}
		shiftCalls += next.Retries + 1
		child, err := key.DeriveChild(idx)
		if err != nil {
			return info, fmt.Errorf("step %d index %#x on %s (public=%v): DeriveChild failed: %v", step, idx, c.Curve, public, err)
		}
		if err := compareNode(fmt.Sprintf("step %d index %#x (public=%v, %d retries in the reference)", step, idx, public, next.Retries), child, next); err != nil {
			return info, err
		}
		totalRetries += next.Retries
		// scribbling over the child's outputs must not change a second derivation of the same child from the
		// parent (no buffers shared between derivations). Whether Key.Bytes() itself is a copy is not part
		// of the statement (eddsa.Seed returns its own storage) and is not asserted.
		if step == len(c.Path)-1 && !faulty { // (with an injected fault the extra Shift calls would hit it)
			for _, b := range [][]byte{child.Key.Bytes(), child.ChainCode, child.Fingerprint()} {
				for i := range b {
					b[i] ^= 0xff
				}
			}
			for i := range child.ChainCode { // undo: ChainCode is an exported field, restore what we flipped
				child.ChainCode[i] ^= 0xff
			}
			again, err := key.DeriveChild(idx)
			if err != nil {
				return info, fmt.Errorf("step %d: second derivation of the same child failed: %v", step, err)
			}
			if err := compareNode(fmt.Sprintf("step %d index %#x, second derivation after the first result was overwritten", step, idx), again, next); err != nil {
				return info, err
			}
		}
		key, n = child, next
	}
	// deriving along the whole path at once equals the step-wise derivation (private paths only)
	if c.PubFrom < 0 || c.PubFrom >= len(c.Path) {
		whole, err := slip10.DeriveKeyFromPath(seed, cut2(c), c.Path)
		if err != nil {
			return info, fmt.Errorf("DeriveKeyFromPath(%v) on %s: %v", c.Path, c.Curve, err)
		}
		m := n
		if c.PubFrom >= 0 && c.PubFrom == len(c.Path) {
			// never switched
		}
		if err := compareNode("DeriveKeyFromPath", whole, m); err != nil {
			return info, err
		}
	}
	switch {
	case faulty:
		info = h.Info{Class: c.Curve + "/fault-not-reached", NT: len(c.Path) > 0}
	case toy && masterRetries > 0 && totalRetries > masterRetries:
		info = h.Info{Class: "retry/master+child" + wrapped(c), NT: true}
	case toy && masterRetries > 0:
		info = h.Info{Class: "retry/master" + wrapped(c), NT: true}
	case toy && totalRetries > 0:
		info = h.Info{Class: "retry/child" + wrapped(c), NT: true}
	case isWrapCase(c):
		info = h.Info{Class: "nist256p1/sum-wraps-n-without-carry", NT: true}
	case public:
		info = h.Info{Class: c.Curve + "/public-derivation", NT: true}
	case len(c.Path) > 0:
		info = h.Info{Class: c.Curve + "/path", NT: true}
	}
	return info, nil
}

func isWrapCase(c deriveCase) bool {
	for _, w := range wrapVectors {
		if c.Curve == "nist256p1" && bytes.Equal(c.Seed, w.seed) && len(c.Path) >= len(w.path) && c.Path[0] == w.path[0] && c.Path[1] == w.path[1] {
			return true
		}
	}
	return false
}

func wrapped(c deriveCase) string {
	if c.Wrap {
		return "/wrapped-invalid-key"
	}
	return ""
}

// isPermanent: the curve's error came back to the caller: the error value itself or an error wrapping it
// (errors.Is finds it). A new error that only quotes its text is not the curve's error: the caller can no
// longer tell it from anything else.
func isPermanent(err error, kind int) bool {
	if err == nil {
		return false
	}
	switch kind {
	case 1, 3:
		return errors.Is(err, slip10.ErrNotHardened)
	case 2:
		return errors.Is(err, slip10.ErrHardenedChildPublicKey)
	}
	return errors.Is(err, errPermanent)
}

// cut2 returns a fresh instance of the curve under test without fault injection.
func cut2(c deriveCase) slip10.Curve {
	c.FailNew, c.FailShift = 0, 0
	cv, _, _ := curves(c)
	return cv
}

func genIndex(t *rapid.T, hardenedOnly bool) uint32 {
	var v uint32
	switch h.Pick(t, "ik", 3, 2, 2) {
	case 0:
		v = h.OneOf(t, "ic", uint32(0), 1, 2, 1<<31-1)
	case 1:
		v = rapid.Uint32Range(0, 100).Draw(t, "is")
	default:
		v = rapid.Uint32Range(0, 1<<31-1).Draw(t, "ir")
	}
	hard := rapid.Bool().Draw(t, "hard")
	if hardenedOnly {
		hard = h.Pick(t, "edhard", 9, 1) == 0
	}
	if hard {
		v |= 1 << 31
	}
	return v
}

func genDerive(t *rapid.T) deriveCase {
	if h.Pick(t, "wrapvec", 24, 1) == 1 && len(wrapVectors) > 0 {
		// pinned P-256 steps whose sum I_L + k_par lies in [n, 2^256) (found by cmd/findwrap), continued by
		// a few more steps: every hardened descendant depends on the exact child scalar
		w := wrapVectors[rapid.IntRange(0, len(wrapVectors)-1).Draw(t, "wv")]
		c := deriveCase{Curve: "nist256p1", Seed: w.seed, Path: append([]uint32{}, w.path...), PubFrom: -1}
		for i, n := 0, rapid.IntRange(0, 2).Draw(t, "wext"); i < n; i++ {
			c.Path = append(c.Path, genIndex(t, false))
		}
		if rapid.Bool().Draw(t, "wpub") {
			c.PubFrom = len(w.path)
			for i := c.PubFrom; i < len(c.Path); i++ {
				c.Path[i] &^= 1 << 31
			}
		}
		return c
	}
	curve := []string{"secp256k1", "nist256p1", "ed25519", "toyW50", "toyW90", "toyS50", "toyS90", "toyS98"}[h.Pick(t, "curve", 3, 3, 3, 3, 2, 2, 2, 1)]
	var seed h.B
	switch h.Pick(t, "sk", 5, 2, 3, 1) {
	case 0:
		seed = h.Bytes(t, "seed", 16, 64)
	case 1:
		seed = h.Bytes(t, "seed", 0, 128)
	case 2: // longer than the HMAC-SHA512 output / block size
		seed = h.BytesN(t, "longseed", h.OneOf(t, "sl", 65, 66, 80, 127, 128, 129, 200, 256))
	default:
		seed = make(h.B, rapid.IntRange(0, 64).Draw(t, "zseed"))
	}
	n := rapid.IntRange(0, 6).Draw(t, "plen")
	if curve == "secp256k1" || curve == "nist256p1" || curve == "toyW50" || curve == "toyW90" {
		n = rapid.IntRange(0, 4).Draw(t, "plenw") // big-integer reference mults dominate
	}
	path := make([]uint32, n)
	for i := range path {
		path[i] = genIndex(t, curve == "ed25519")
	}
	c := deriveCase{Curve: curve, Seed: seed, Path: path, PubFrom: -1}
	if (curve == "toyW50" || curve == "toyW90") && h.Pick(t, "hmackey", 2, 1) == 1 {
		c.KeyLen = h.OneOf(t, "keylen", 1, 63, 64, 65, 127, 128, 128, 129, 200, 256)
	}
	if curve != "ed25519" && n > 0 && h.Pick(t, "pub", 2, 1) == 1 {
		c.PubFrom = rapid.IntRange(0, n-1).Draw(t, "pubfrom")
		// mostly keep the public part non-hardened so that it is defined
		for i := c.PubFrom; i < n; i++ {
			if h.Pick(t, "keephard", 8, 1) == 0 {
				path[i] &^= 1 << 31
			}
		}
	}
	if curve == "ed25519" && n > 0 && h.Pick(t, "edpub", 8, 1) == 1 {
		c.PubFrom = rapid.IntRange(0, n-1).Draw(t, "pubfrom")
	}
	if curve[:3] == "toy" {
		c.Wrap = h.Pick(t, "wrap", 2, 1) == 1
	}
	if curve[:3] == "toy" && h.Pick(t, "fault", 4, 1) == 1 {
		c.FaultKind = h.Pick(t, "faultkind", 3, 1, 1, 1)
		if rapid.Bool().Draw(t, "faultnew") {
			c.FailNew = rapid.IntRange(1, 4).Draw(t, "failnew")
		} else {
			c.FailShift = rapid.IntRange(1, 6).Draw(t, "failshift")
		}
	}
	return c
}

func TestDerive(t *testing.T) {
	h.Run(t, h.Sub[deriveCase]{
		Prop: "C02", Name: "derive", N: 2400,
		Gen: genDerive, Check: checkDerive,
		Require: []string{"secp256k1/path", "nist256p1/path", "ed25519/path", "secp256k1/public-derivation", "nist256p1/public-derivation",
			"retry/master", "retry/child", "retry/master+child", "retry/master/wrapped-invalid-key", "retry/child/wrapped-invalid-key", "nist256p1/sum-wraps-n-without-carry", "undefined/hardened-from-public", "undefined/ed25519-non-hardened",
			"undefined/ed25519-non-hardened-public", "permanent-error/master", "permanent-error/child"},
		Rule: "seeds of length 0..256 (weighted to > 64 and > 128 bytes) x {secp256k1, P-256, ed25519, toy curves with 50% / 87.5% / 98.4% invalid candidates (Weierstrass-like and string-key-like; their keys implement the optional HardenedOnly method and answer false), pinned P-256 steps whose sum I_L + k_par lies in [n, 2^256) (2^32 search, cmd/findwrap)} x paths of 0..6 hardened/non-hardened indices, optionally switching to the extended public key at a drawn step, the toy curves report invalid candidates either with the bare ErrInvalidKey or with an error wrapping it; optionally a permanent (non-ErrInvalidKey) curve error injected at a drawn call (the harness's own error, or the library's ErrNotHardened / ErrHardenedChildPublicKey, bare or wrapped); at every prefix private key, chain code, serialized public key and fingerprint = own SLIP-0010 model with the same validity predicate; path API = step-wise; undefined derivations fail; permanent errors returned after exactly the expected number of curve calls (call budget 2000 instead of a timeout); non-trivial = path length >= 1 on a real curve, >= 1 retry on a toy curve, undefined derivation, or injected fault; distinct by case",
	})
}

// ---- long paths: depths around 256 and 512 ----

func TestLongPaths(t *testing.T) {
	h.Run(t, h.Sub[deriveCase]{
		Prop: "C02", Name: "long-paths", N: 24,
		Gen: func(t *rapid.T) deriveCase {
			curve := []string{"toyS50", "ed25519"}[h.Pick(t, "curve", 3, 1)]
			n := h.OneOf(t, "depth", 255, 256, 257, 258, 511, 512, 513)
			if curve == "ed25519" {
				n = h.OneOf(t, "eddepth", 256, 257)
			}
			path := make([]uint32, n)
			for i := range path {
				path[i] = uint32(rapid.IntRange(0, 3).Draw(t, "i")) | 1<<31
			}
			return deriveCase{Curve: curve, Seed: h.Bytes(t, "seed", 16, 32), Path: path, PubFrom: -1}
		},
		Check: func(c deriveCase) (h.Info, error) {
			info, err := checkDerive(c)
			info.Class = fmt.Sprintf("depth>=%d", len(c.Path)/256*256)
			info.NT = true
			return info, err
		},
		Require: []string{"depth>=256", "depth>=512"},
		Rule:    "paths of 255..258 and 511..513 hardened steps (ed25519 and the string-key toy curve): key, chain code, public key and parent fingerprint at every depth, incl. the depths where a one-byte depth counter wraps; all non-trivial",
	})
}

// ---- concurrent derivations from one shared parent ----

type concCase struct {
	Curve   string   `json:"curve"`
	Seed    h.B      `json:"seed"`
	Parent  []uint32 `json:"parent"`
	Public  bool     `json:"public"`
	Indices []uint32 `json:"indices"`
	Iters   int      `json:"iters"`
}

func checkConcurrent(c concCase) (h.Info, error) {
	dc := deriveCase{Curve: c.Curve}
	cut, rc, _ := curves(dc)
	if cut == nil || c.Curve[:3] == "toy" {
		return h.Info{}, fmt.Errorf("PRECONDITION: curve %q", c.Curve)
	}
	info := h.Info{Class: fmt.Sprintf("%s/public=%v", c.Curve, c.Public), NT: len(c.Indices) > 1}
	n := ref.Master(rc, c.Seed)
	for _, idx := range c.Parent {
		var err error
		if n, err = ref.Child(rc, n, idx); err != nil {
			return info, fmt.Errorf("PRECONDITION: parent path undefined: %v", err)
		}
	}
	parent, err := slip10.DeriveKeyFromPath(c.Seed, cut, c.Parent)
	if err != nil {
		return info, fmt.Errorf("DeriveKeyFromPath(%v): %v", c.Parent, err)
	}
	if c.Public {
		parent, n = parent.Public(), ref.Public(n)
	}
	want := make([]ref.Node, len(c.Indices))
	for i, idx := range c.Indices {
		if want[i], err = ref.Child(rc, n, idx); err != nil {
			return info, fmt.Errorf("PRECONDITION: child %#x undefined: %v", idx, err)
		}
	}
	err = h.Parallel(len(c.Indices), func(g int) error {
		for it := 0; it < c.Iters; it++ {
			child, err := parent.DeriveChild(c.Indices[g])
			if err != nil {
				return fmt.Errorf("goroutine %d of %d deriving children of one shared %s parent (public=%v): DeriveChild(%#x): %v", g, len(c.Indices), c.Curve, c.Public, c.Indices[g], err)
			}
			if err := compareNode(fmt.Sprintf("goroutine %d of %d deriving children of one shared %s parent (public=%v), iteration %d, index %#x", g, len(c.Indices), c.Curve, c.Public, it, c.Indices[g]), child, want[g]); err != nil {
				return err
			}
		}
		return nil
	})
	return info, err
}

func TestConcurrent(t *testing.T) {
	h.Run(t, h.Sub[concCase]{
		Prop: "C02", Name: "concurrent-children", N: 48,
		Gen: func(t *rapid.T) concCase {
			c := concCase{Curve: h.OneOf(t, "curve", "secp256k1", "nist256p1", "ed25519", "ed25519"), Seed: h.Bytes(t, "seed", 16, 64), Iters: 12}
			if c.Curve == "ed25519" {
				c.Iters = 200
			}
			for i := rapid.IntRange(0, 2).Draw(t, "plen"); i > 0; i-- {
				c.Parent = append(c.Parent, genIndex(t, true)|1<<31)
			}
			c.Public = c.Curve != "ed25519" && rapid.Bool().Draw(t, "pub")
			for i := h.OneOf(t, "g", 2, 4, 8); i > 0; i-- {
				idx := genIndex(t, false)
				if c.Curve == "ed25519" {
					idx |= 1 << 31
				}
				if c.Public {
					idx &^= 1 << 31
				}
				c.Indices = append(c.Indices, idx)
			}
			return c
		},
		Check:   checkConcurrent,
		Require: []string{"ed25519/public=false", "secp256k1/public=true", "nist256p1/public=false"},
		Rule:    "schedules: 2..8 goroutines released together, each repeatedly deriving its own child index (hardened and non-hardened) from one shared extended key (private or public) on the three real curves; every child = SLIP-0010 model computed beforehand; all non-trivial",
	})
}

// ---- scalar validity and additive shift on the two Weierstrass curves (the arithmetic CKD relies on) ----

type scalarCase struct {
	Curve  string `json:"curve"`
	Scalar h.B    `json:"scalar"` // 32 bytes, any value
	Shift  h.B    `json:"shift"`  // 32 bytes, any value
	Corner string `json:"corner"`
}

func checkScalar(c scalarCase) (h.Info, error) {
	var cv slip10.Curve
	var rc *secp.Curve
	switch c.Curve {
	case "secp256k1":
		cv, rc = slipelliptic.Secp256k1(), secp.K1
	case "nist256p1":
		cv, rc = slipelliptic.Nist256p1(), secp.P256
	default:
		return h.Info{}, fmt.Errorf("PRECONDITION: curve")
	}
	if len(c.Scalar) != 32 || len(c.Shift) != 32 {
		return h.Info{}, fmt.Errorf("PRECONDITION: lengths")
	}
	k, b := new(big.Int).SetBytes(c.Scalar), new(big.Int).SetBytes(c.Shift)
	info := h.Info{Class: "scalar/" + c.Corner, NT: true}
	key, err := cv.NewPrivateKey(append([]byte{}, c.Scalar...))
	wantValid := k.Sign() > 0 && k.Cmp(rc.N) < 0
	if wantValid != (err == nil) || (err != nil && !errors.Is(err, slip10.ErrInvalidKey)) {
		return info, fmt.Errorf("NewPrivateKey(%x) on %s: %v; a scalar is valid iff 0 < k < n (valid=%v), and invalid ones are reported as ErrInvalidKey", []byte(c.Scalar), c.Curve, err, wantValid)
	}
	if !wantValid {
		info.Class = "scalar/invalid-key"
		return info, nil
	}
	if !bytes.Equal(key.Bytes(), c.Scalar) || !bytes.Equal(key.Public().Bytes(), rc.Compressed(rc.BaseMul(k))) {
		return info, fmt.Errorf("NewPrivateKey(%x) on %s: Bytes() = %x, Public().Bytes() = %x, reference point %x", []byte(c.Scalar), c.Curve, key.Bytes(), key.Public().Bytes(), rc.Compressed(rc.BaseMul(k)))
	}
	sum := new(big.Int).Add(k, b)
	sum.Mod(sum, rc.N)
	wantInv := b.Cmp(rc.N) >= 0 || sum.Sign() == 0
	child, err := key.Shift(append([]byte{}, c.Shift...))
	if wantInv != (err != nil) || (err != nil && !errors.Is(err, slip10.ErrInvalidKey)) {
		return info, fmt.Errorf("private Shift on %s, k=%x, I_L=%x [%s]: err=%v; SLIP-0010: invalid iff I_L >= n or I_L + k = 0 mod n (invalid=%v), reported as ErrInvalidKey so that derivation retries", c.Curve, k, b, c.Corner, err, wantInv)
	}
	// the public side of the same step (public parent key -> public child key): point(I_L) + K_par, invalid
	// iff I_L >= n or the sum is the point at infinity
	pchild, perr := key.Public().Shift(append([]byte{}, c.Shift...))
	if wantInv != (perr != nil) || (perr != nil && !errors.Is(perr, slip10.ErrInvalidKey)) {
		return info, fmt.Errorf("public Shift on %s, K = k*G with k=%x, I_L=%x [%s]: err=%v; SLIP-0010: invalid iff I_L >= n or point(I_L) + K is the point at infinity (invalid=%v), reported as ErrInvalidKey so that derivation retries", c.Curve, k, b, c.Corner, perr, wantInv)
	}
	if !wantInv {
		if want := rc.Compressed(rc.BaseMul(sum)); !bytes.Equal(pchild.Bytes(), want) {
			return info, fmt.Errorf("public Shift on %s, K = k*G with k=%x, I_L=%x [%s]: child %x, reference point(I_L) + K = %x", c.Curve, k, b, c.Corner, pchild.Bytes(), want)
		}
	}
	if wantInv {
		return info, nil
	}
	if want := sum.FillBytes(make([]byte, 32)); !bytes.Equal(child.Bytes(), want) || !bytes.Equal(child.Public().Bytes(), rc.Compressed(rc.BaseMul(sum))) {
		return info, fmt.Errorf("private Shift on %s, k=%x, I_L=%x [%s]: child %x (public %x), reference (I_L + k mod n) = %x", c.Curve, k, b, c.Corner, child.Bytes(), child.Public().Bytes(), want)
	}
	return info, nil
}

func TestScalars(t *testing.T) {
	h.Run(t, h.Sub[scalarCase]{
		Prop: "C02", Name: "scalar-validity-and-shift", N: 1200,
		Gen: func(t *rapid.T) scalarCase {
			c := scalarCase{Curve: h.OneOf(t, "curve", "secp256k1", "nist256p1")}
			n := secp.K1.N
			if c.Curve == "nist256p1" {
				n = secp.P256.N
			}
			one := big.NewInt(1)
			max := new(big.Int).Sub(new(big.Int).Lsh(one, 256), one)
			var k *big.Int
			switch h.Pick(t, "kk", 4, 3, 1) {
			case 0:
				k = new(big.Int).Mod(new(big.Int).SetBytes(h.BytesN(t, "k", 32)), n)
			case 1:
				k = h.OneOf(t, "kc", big.NewInt(1), big.NewInt(2), new(big.Int).Sub(n, one), new(big.Int).Sub(n, big.NewInt(2)), new(big.Int).Rsh(n, 1))
			default:
				k = h.OneOf(t, "kbad", big.NewInt(0), n, new(big.Int).Add(n, one), max)
			}
			var b *big.Int
			c.Corner = []string{"random", "zero", "n-k", "n-k+1", "n-k-1", "n", "n+1", "n-1", "2^256-1", "k", "sum-in-[n,2^256)"}[h.Pick(t, "bk", 4, 1, 3, 2, 2, 1, 1, 1, 1, 1, 2)]
			switch c.Corner {
			case "zero":
				b = big.NewInt(0)
			case "n-k":
				b = new(big.Int).Mod(new(big.Int).Sub(n, k), n)
			case "n-k+1":
				b = new(big.Int).Mod(new(big.Int).Add(new(big.Int).Sub(n, k), one), n)
			case "n-k-1":
				b = new(big.Int).Mod(new(big.Int).Sub(new(big.Int).Sub(n, k), one), n)
			case "n":
				b = new(big.Int).Set(n)
			case "n+1":
				b = new(big.Int).Add(n, one)
			case "n-1":
				b = new(big.Int).Sub(n, one)
			case "2^256-1":
				b = max
			case "k":
				b = new(big.Int).Mod(k, n)
			case "sum-in-[n,2^256)": // I_L + k wraps around n without a carry out of 256 bits
				d := new(big.Int).Mod(new(big.Int).SetBytes(h.BytesN(t, "d", 32)), new(big.Int).Sub(max, n))
				b = new(big.Int).Sub(new(big.Int).Add(n, d), new(big.Int).Mod(k, n))
				b.Mod(b, n)
			default:
				b = new(big.Int).Mod(new(big.Int).SetBytes(h.BytesN(t, "b", 32)), n)
			}
			c.Scalar, c.Shift = k.FillBytes(make([]byte, 32)), b.FillBytes(make([]byte, 32))
			return c
		},
		Check:   checkScalar,
		Require: []string{"scalar/n-k", "scalar/invalid-key", "scalar/n", "scalar/sum-in-[n,2^256)", "scalar/random"},
		Rule:    "the scalar arithmetic CKD relies on, through the curves' own NewPrivateKey / Key.Shift: k valid iff 0 < k < n; private Shift by I_L invalid (ErrInvalidKey) iff I_L >= n or I_L + k = 0 mod n, else (I_L + k mod n) and its point; the public Shift of k*G by the same I_L agrees (invalid together, else the compressed point (I_L + k)*G, which includes point(I_L) = K: doubling); I_L at 0, n-k, n-k+-1, n, n+-1, 2^256-1, k, sums in [n, 2^256), random; reference: affine big-integer curve; all non-trivial",
	})
}

// coverage-guided fuzzing over the structured generator (thorough tier)
func FuzzGenDerive(f *testing.F) {
	h.FuzzSub(f, h.Sub[deriveCase]{Prop: "C02", Name: "derive", Gen: genDerive, Check: checkDerive})
}

// which public entry point is called first in a process (and by how many goroutines at once)
func TestFirstCalls(t *testing.T) { h.FirstCallsSub(t, "C02", fc.Slip10(), 6) }
