package c02

import (
	"errors"
	"fmt"
	"math/big"

	"github.com/wollac/iota-crypto-demo/pkg/slip10"

	"verifharness/ref/secp"
	ref "verifharness/ref/slip10"
)

// callBudget aborts a derivation that keeps calling into the curve: this is how "retried
// forever" is observed without a wall-clock timeout.
const callBudget = 2000

type budgetExceeded struct{}

type counter struct{ calls int }

func (c *counter) tick() {
	c.calls++
	if c.calls > callBudget {
		panic(budgetExceeded{})
	}
}

var errPermanent = errors.New("permanent curve failure (harness)")

// invalidKey is how a toy curve reports "this candidate is not a valid key": the bare sentinel or,
// like a curve implementation that adds context, an error wrapping it (errors.Is still holds).
func invalidKey(wrap bool, what string) error {
	if wrap {
		return fmt.Errorf("toy curve: %s rejected: %w", what, slip10.ErrInvalidKey)
	}
	return slip10.ErrInvalidKey
}

// fault injection: the failAt-th call (1-based) of the selected method returns a permanent error.
type fault struct {
	inNew   int // NewPrivateKey call number that fails permanently (0 = never)
	inShift int // Shift call number that fails permanently (0 = never)
	kind    int // which error: see permanentError
}

// permanentError: an error that is not "invalid key": the harness's own, or one of the library's other
// sentinels (a curve built on top of the library may well return those), bare or wrapped.
func permanentError(kind int) error {
	switch kind {
	case 1:
		return slip10.ErrNotHardened
	case 2:
		return slip10.ErrHardenedChildPublicKey
	case 3:
		return fmt.Errorf("toy curve: %w", slip10.ErrNotHardened)
	}
	return errPermanent
}

// ---- toy Weierstrass curve: P-256 arithmetic, extra validity mask ----

type toyW struct {
	wrap    bool
	mask    byte
	cnt     *counter
	fault   fault
	nNew    int
	nShift  *int
	hmacKey []byte // nil = "toyW seed"
}

func (t *toyW) Name() string { return "toyW" }
func (t *toyW) HmacKey() []byte {
	if t.hmacKey != nil {
		return append([]byte{}, t.hmacKey...)
	}
	return []byte("toyW seed")
}
func (t *toyW) NewPrivateKey(buf []byte) (slip10.Key, error) {
	t.cnt.tick()
	t.nNew++
	if t.fault.inNew != 0 && t.nNew == t.fault.inNew {
		return nil, permanentError(t.fault.kind)
	}
	if buf[31]&t.mask != 0 {
		return nil, invalidKey(t.wrap, "candidate")
	}
	k := new(big.Int).SetBytes(buf)
	if k.Sign() == 0 || k.Cmp(secp.P256.N) >= 0 {
		return nil, invalidKey(t.wrap, "scalar")
	}
	return &toyWPriv{k, t}, nil
}

type toyWPriv struct {
	k *big.Int
	c *toyW
}

// The toy keys implement the optional HardenedOnly method and answer false: non-hardened derivation
// is defined for them (the method's result decides, not its presence).
func (p *toyWPriv) HardenedOnly() bool { return false }
func (p *toyWPub) HardenedOnly() bool  { return false }
func (k *toySKey) HardenedOnly() bool  { return false }

func (p *toyWPriv) Bytes() []byte   { return p.k.FillBytes(make([]byte, 32)) }
func (p *toyWPriv) IsPrivate() bool { return true }
func (p *toyWPriv) Public() slip10.Key {
	return &toyWPub{secp.P256.BaseMul(p.k), p.c}
}
func (p *toyWPriv) Shift(buf []byte) (slip10.Key, error) {
	p.c.cnt.tick()
	*p.c.nShift++
	if p.c.fault.inShift != 0 && *p.c.nShift == p.c.fault.inShift {
		return nil, permanentError(p.c.fault.kind)
	}
	if buf[31]&p.c.mask != 0 {
		return nil, invalidKey(p.c.wrap, "shift")
	}
	v := new(big.Int).SetBytes(buf)
	if v.Cmp(secp.P256.N) >= 0 {
		return nil, invalidKey(p.c.wrap, "result")
	}
	v.Add(v, p.k).Mod(v, secp.P256.N)
	if v.Sign() == 0 {
		return nil, invalidKey(p.c.wrap, "result")
	}
	return &toyWPriv{v, p.c}, nil
}

type toyWPub struct {
	p secp.Point
	c *toyW
}

func (p *toyWPub) Bytes() []byte      { return secp.P256.Compressed(p.p) }
func (p *toyWPub) IsPrivate() bool    { return false }
func (p *toyWPub) Public() slip10.Key { return p }
func (p *toyWPub) Shift(buf []byte) (slip10.Key, error) {
	p.c.cnt.tick()
	*p.c.nShift++
	if p.c.fault.inShift != 0 && *p.c.nShift == p.c.fault.inShift {
		return nil, permanentError(p.c.fault.kind)
	}
	if buf[31]&p.c.mask != 0 {
		return nil, invalidKey(p.c.wrap, "shift")
	}
	v := new(big.Int).SetBytes(buf)
	if v.Cmp(secp.P256.N) >= 0 {
		return nil, invalidKey(p.c.wrap, "result")
	}
	q := secp.P256.Add(secp.P256.BaseMul(v), p.p)
	if q.Inf {
		return nil, invalidKey(p.c.wrap, "result")
	}
	return &toyWPub{q, p.c}, nil
}

// ---- toy string curve: key = 32-byte string (like ed25519), extra validity mask ----

type toyS struct {
	wrap   bool
	mask   byte
	cnt    *counter
	fault  fault
	nNew   int
	nShift *int
}

func (t *toyS) Name() string    { return "toyS" }
func (t *toyS) HmacKey() []byte { return []byte("toy-string seed") }
func (t *toyS) NewPrivateKey(buf []byte) (slip10.Key, error) {
	t.cnt.tick()
	t.nNew++
	if t.fault.inNew != 0 && t.nNew == t.fault.inNew {
		return nil, permanentError(t.fault.kind)
	}
	if buf[31]&t.mask != 0 {
		return nil, invalidKey(t.wrap, "candidate")
	}
	return &toySKey{append([]byte{}, buf...), true, t}, nil
}

type toySKey struct {
	b    []byte
	priv bool
	c    *toyS
}

func (k *toySKey) Bytes() []byte   { return k.b }
func (k *toySKey) IsPrivate() bool { return k.priv }
func (k *toySKey) Public() slip10.Key {
	if !k.priv {
		return k
	}
	return &toySKey{ref.ToyStringPub(k.b), false, k.c}
}
func (k *toySKey) Shift(buf []byte) (slip10.Key, error) {
	k.c.cnt.tick()
	*k.c.nShift++
	if k.c.fault.inShift != 0 && *k.c.nShift == k.c.fault.inShift {
		return nil, permanentError(k.c.fault.kind)
	}
	if buf[31]&k.c.mask != 0 {
		return nil, invalidKey(k.c.wrap, "shift")
	}
	if k.priv {
		return &toySKey{append([]byte{}, buf...), true, k.c}, nil
	}
	return &toySKey{ref.ToyStringPub(buf), false, k.c}, nil
}
