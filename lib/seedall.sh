#!/bin/bash
# lib/seedall.sh [tier]: re-run every kept seeded change (/verif/seeded/*) against the current checks
# (scratch worktrees, /repo untouched) and print one line per change.
cd "$(dirname "$0")/.."
tier=${1:-quick}
for d in seeded/*/; do
  n=$(basename $d)
  out=$(python3 lib/seedtest.py $d --no-confirm --scratch --tier $tier 2>&1)
  echo "$n $(echo "$out" | tail -1) :: $(echo "$out" | grep -m1 '^  ' | cut -c1-150)"
done
