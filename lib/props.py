"""Per-property configuration of the driver (/verif/check)."""

def T(shards, scale, timeout, **kw):
    d = dict(shards=shards, scale=scale, timeout=timeout)
    d.update(kw)
    return d

BECH32_ASSUME = [
    "the BIP-173 reference codec in harness/ref/bech32 (transcribed from the BIP's reference code, self-checked against the BIP-173 valid/invalid vectors at start-up) is the specification",
]

PROPS = {
    "C01": dict(
        pkg="c01",
        quick=T(8, 2, 900),
        thorough=T(16, 40, 3400, fuzz=[dict(name="FuzzGenVerify", count=60000), dict(name="FuzzVerify", count=150000)]),
        assumptions=[
            "harness/ref/ed: big-integer edwards25519 model written from RFC 8032 5.1 and ZIP-215 (self-checked: base point encoding, L*B = O, the 8 published small-order encodings, RFC 8032 test vector 1) evaluates the statement's predicate literally",
            "crypto/ed25519 as one-sided oracle (everything it accepts must be accepted)",
            "public keys are always 32 bytes (other lengths are a documented panic)",
        ],
    ),
    "C02": dict(
        pkg="c02",
        quick=T(8, 2, 900),
        thorough=T(16, 40, 3400, fuzz=[dict(name="FuzzGenDerive", count=600000)]),
        assumptions=[
            "harness/ref/slip10 (own SLIP-0010 model; reproduces every official SLIP-0010 vector incl. the retry vectors, pinned copies in /verif/data/slip10) over harness/ref/secp (affine big-integer secp256k1/P-256) and crypto/ed25519 for the ed25519 public key",
            "toy curves implement slip10.Curve/slip10.Key in the harness; the reference uses the same validity predicate",
        ],
    ),
    "C03": dict(
        pkg="c03",
        quick=T(4, 1.5, 600),
        thorough=T(16, 60, 3000, fuzz=[dict(name="FuzzGenSentence", count=500000), dict(name="FuzzSentence", count=1500000)]),
        assumptions=[
            "harness/ref/bip39 (bit-string codec, self-checked on the official Trezor vectors) is the BIP-39 specification",
            "english word list = /verif/data/english.txt, whose SHA-256 is the published digest of bip-0039/english.txt; japanese list pinned to the digest of the pinned commit (no independent copy exists offline) and cross-checked only by the repository's official Japanese vectors",
        ],
    ),
    "C04": dict(
        pkg="c04",
        quick=T(4, 4, 600),
        thorough=T(16, 200, 3000, fuzz=[dict(name="FuzzGenDecode", count=2000000), dict(name="FuzzDecode", count=3000000)]),
        assumptions=BECH32_ASSUME + ["strings are judged as byte strings; 'character' in the 90-character limit means byte (identical for the ASCII strings that can be valid)"],
    ),
    "C05": dict(
        pkg="c05",
        quick=T(4, 4, 600),
        thorough=T(16, 300, 3000, fuzz=[dict(name="FuzzGenEncode", count=2000000)]),
        assumptions=BECH32_ASSUME,
    ),
    "C11": dict(
        pkg="c11",
        quick=T(8, 2, 900),
        thorough=T(16, 300, 3400),
        assumptions=[
            "harness/ref/pow: own chain BLAKE2b-256 (x/crypto) -> b1t6 (ref/trit) -> scalar Curl-P-81 (ref/curl) -> trailing zeros; Score compared within 2 ulp of the exactly rounded 3^z/len",
            "soundness of Mine is judged with the package's own Score, which the score sub-check validates against the reference",
            "targets needing more than 243 zeros (deliberate precondition panic), NaN and infinities are not generated; targets above 3^10/len are not generated (cost)",
            "low targets run Mine in a child process (the test binary re-executes itself); a crash of the child is the violation signal",
        ],
    ),
    "C12": dict(
        pkg="c12",
        quick=T(8, 1.5, 900),
        thorough=T(16, 40, 3400, fuzz=[dict(name="FuzzGenLanes", count=800000)]),
        assumptions=[
            "harness/ref/pow: difficulty floor(3^243/h) and score on math/big over the scalar Curl reference",
            "completeness is checked for a single worker by re-hashing every nonce of every skipped 64-block with the scalar reference",
            "the saturating branch of v2.Score (difficulty >= 2^64, >= 41 zero trits) cannot be reached by search through Score; it is covered only through the hooked toInt and the reference division",
            "only len*target <= 2^64-1 is generated (the statement's domain)",
        ],
    ),
    "C13": dict(
        pkg="c13",
        race=True,
        quick=T(4, 2, 1200, shrinktime="60s"),
        thorough=T(8, 100, 3400, shrinktime="120s"),
        assumptions=[
            "the Go scheduler is not under the harness's control: interleavings are sampled by varying GOMAXPROCS, worker counts and cancellation instants; the race detector reports races on executed accesses regardless of the observed order",
            "'returns within a short bounded time' is checked as 45 s after cancellation (expected: milliseconds); exceeding it is reported with a goroutine dump, the process then exits (no shrinking)",
            "goroutines are attributed to Mine by a pkg/pow frame in their stack",
        ],
    ),
    "C14": dict(
        pkg="c14",
        quick=T(4, 4, 600),
        thorough=T(16, 500, 3000, fuzz=[dict(name="FuzzGenDecode", count=2000000)]),
        assumptions=[
            "harness/ref/trit (integer arithmetic from TIP-5, self-checked on the TIP-5 examples) is the specification of b1t6/b1t8 and of the tryte alphabet",
            "only trits in {-1,0,1} and trytes in 9A-Z are generated; behaviour outside is documented as undefined",
        ],
    ),
    "C15": dict(
        pkg="c15",
        quick=T(4, 2, 600),
        thorough=T(16, 150, 3000, fuzz=[dict(name="FuzzGenTrees", count=100000)]),
        assumptions=[
            "crypto/sha256, sha512, sha1 and x/crypto/blake2b are trusted as the hash functions",
            "the reference is an iterative binary-counter construction plus the RFC 9162 inclusion-proof verifier; both live in harness/c15",
        ],
    ),
    "C16": dict(
        pkg="c16",
        quick=T(4, 1.5, 600),
        thorough=T(16, 60, 3400, fuzz=[dict(name="FuzzGenE2E", count=2000000)]),
        assumptions=BECH32_ASSUME + [
            "syndrome argument: the checksum is measured black-box through Encode; that Decode rejects exactly the strings with a non-zero syndrome is property C04/C05 plus the end-to-end sub-checks here",
        ],
    ),
    "C17": dict(
        pkg="c17",
        quick=T(8, 2, 900),
        thorough=T(16, 50, 3400, fuzz=[dict(name="FuzzGenOps", count=30000)]),
        assumptions=["harness/ref/secp: affine secp256k1 with textbook case analysis (self-checked: G on curve, n*G = O, (n-1)G = -G, published 2G and 3G)",
                     "the internal copy of the curve is reached through elliptic.Secp256k1() (its dynamic type promotes the embedded elliptic.Curve methods)"],
    ),
    "C18": dict(
        pkg="c18",
        quick=T(8, 2, 900),
        thorough=T(16, 40, 3400, fuzz=[dict(name="FuzzVerify", count=80000), dict(name="FuzzGenVerify", count=300000), dict(name="FuzzGenProve", count=300000)]),
        assumptions=[
            "harness/ref/vrf: own RFC 9381 ECVRF-EDWARDS25519-SHA512-TAI on harness/ref/ed (reproduces RFC 9381 appendix B.3 examples 16-18)",
            "public keys are always 32 bytes (other lengths are a documented panic)",
        ],
    ),
    "C19": dict(
        pkg="c19",
        quick=T(4, 3, 600),
        thorough=T(16, 200, 3000, fuzz=[dict(name="FuzzGenParse", count=1500000), dict(name="FuzzParseBech32", count=2000000)]),
        assumptions=BECH32_ASSUME + [
            "golang.org/x/crypto/blake2b is trusted for the address hashes and the migration checksum",
            "harness/ref/trit is the specification of b1t6 and the tryte alphabet",
            "the table (0x00,32) (0x08,20) (0x10,20) and the four prefixes iota/atoi/smr/rms are the 'known' versions and prefixes of the statement",
        ],
    ),
    "C06": dict(
        pkg="c06",
        variants=[[], ["purego"], ["GOARCH=386"]],
        every_target_must_build=True,  # the statement covers build targets: a target that stops compiling is a finding
        quick=T(8, 1.5, 900),
        thorough=T(16, 150, 3400, fuzz=[dict(name="FuzzGenHistories", count=20000)]),
        assumptions=[
            "harness/ref/curl: scalar Curl-P-81 from the truth-table definition (self-checked on the 300 pinned Curl-P-81 vectors incl. multi-block absorb and squeeze; cross-checked against iota.go/curl in its own unit test)",
            "half of the shards run the build with -tags purego (portable permutation), half the default build (assembly on amd64)",
            "lanes >= n and batch sizes that vary between calls of one instance are not asserted; absorb after squeeze is a documented panic and not generated",
        ],
    ),
    "C07": dict(
        pkg="c07",
        quick=T(4, 3, 600),
        thorough=T(16, 250, 3000, fuzz=[dict(name="FuzzGenSign", count=2000000)]),
        assumptions=["crypto/ed25519 of the Go standard library is the RFC 8032 reference (differential oracle)"],
    ),
    "C08": dict(
        pkg="c08",
        quick=T(8, 2, 900),
        thorough=T(16, 40, 3400, fuzz=[dict(name="FuzzGenShift", count=40000)]),
        assumptions=["harness/ref/secp (affine big-integer arithmetic, self-checked: n*G = O, published 2G/3G) as third opinion for the shifted keys"],
    ),
    "C09": dict(
        pkg="c09",
        quick=T(4, 1.5, 600),
        thorough=T(16, 80, 3000, fuzz=[dict(name="FuzzGenParse", count=1000000)]),
        assumptions=[
            "harness/ref/bip39: own PBKDF2-HMAC-SHA512 on crypto/hmac (self-checked on an official BIP-39 seed vector) and the pinned word lists",
            "NFKD: a hand-made (raw, NFKD) piece table from the Unicode character database is cross-checked against golang.org/x/text at start-up; for arbitrary passphrases x/text NFKD itself is the oracle (trusted)",
            "x/text NFC is used only to render list words in composed form for the parser inputs",
        ],
    ),
    "C10": dict(
        pkg="c10",
        quick=T(4, 4, 600),
        thorough=T(16, 250, 3000, fuzz=[dict(name="FuzzGenStrings", count=2000000), dict(name="FuzzParsePath", count=3000000)]),
        assumptions=[
            "the reference parser (harness/c10, hand-written, base 10, no regexp/strconv) is the specification of the accepted language",
        ],
    ),
    "C20": dict(
        pkg="c20",
        variants=[[], ["purego"], ["GOARCH=386"]],
        every_target_must_build=True,  # the statement covers build targets: a target that stops compiling is a finding
        quick=T(8, 2, 900),
        thorough=T(16, 300, 3400, fuzz=[dict(name="FuzzGenStates", count=200000)]),
        assumptions=[
            "harness/ref/curl (scalar truth-table Curl-P-81, validated on pinned vectors) defines the per-lane result",
            "memory safety of the assembly is observed with mmap'ed buffers flush against 1 MiB PROT_NONE guard regions on both sides (two placements) and debug.SetPanicOnFault; the routine's addresses are input-independent (constant-bound loops, no data-dependent branch), so each guarded execution exercises every memory access of the routine as checked in; an access further than 1 MiB from the buffers that happens to hit mapped memory would be missed",
            "other architectures cannot be executed here; -tags purego on amd64 selects the same portable Go source",
            "lanes containing the unused pair (0,0) are only compared between the two routines (Curl-P does not define them)",
        ],
    ),
}


# Build target as a configuration dimension: every fourth shard of every property runs the harness
# built for GOARCH=386 (32-bit words: uint, int and big.Word are 32 bits wide, 64-bit atomics need
# alignment, 32 lanes per machine word). C06 and C20 already list their variants explicitly.
for _pid, _cfg in PROPS.items():
    _cfg.setdefault("variants", [[], [], [], ["GOARCH=386"]])
