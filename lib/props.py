"""Per-property configuration of the driver (/verif/check)."""

def T(shards, scale, timeout, **kw):
    d = dict(shards=shards, scale=scale, timeout=timeout)
    d.update(kw)
    return d

PROPS = {
    "C10": dict(
        pkg="c10",
        quick=T(2, 1, 600),
        thorough=T(16, 60, 3000, fuzz=[dict(name="FuzzParsePath", count=3000000)]),
        assumptions=[
            "the reference parser (harness/c10, hand-written, base 10, no regexp/strconv) is the specification of the accepted language",
        ],
    ),
}
