#!/bin/bash
# lib/refall.sh: re-run every kept behaviour-preserving change (/verif/refactors/*) against the current
# checks (own property + related ones, scratch worktrees); every line must say SILENT.
cd "$(dirname "$0")/.."
for d in refactors/*/; do
  n=$(basename $d)
  out=$(python3 lib/reftest.py $d 2>&1)
  echo "$n $(echo "$out" | tail -1) $(echo "$out" | grep -v 'rc=0' | grep 'rc=' | cut -c1-200 | tr '\n' ' ')"
done
