#!/usr/bin/env python3
"""lib/metapatch.py <log> [note]: record the outcome lines of a seedall/seedbatch/retest log
("<name> DETECTED|MISSED|INCONCLUSIVE rc=2 :: <first violation line>") in seeded/<name>/meta.json
as "recheck" (the first-run result in "check_result" is kept as it was)."""
import json, os, re, sys
ROOT = os.path.dirname(os.path.dirname(os.path.abspath(__file__)))
note = sys.argv[2] if len(sys.argv) > 2 else ""
for line in open(sys.argv[1], errors="replace"):
    m = re.match(r"^(C\d\d-\S+) (DETECTED|MISSED|INCONCLUSIVE rc=\d+) :: ?(.*)$", line.rstrip("\n"))
    if not m:
        continue
    mf = os.path.join(ROOT, "seeded", m.group(1), "meta.json")
    if not os.path.exists(mf):
        continue
    meta = json.load(open(mf))
    meta["recheck"] = {"tier": "quick", "result": m.group(2), "first_line": m.group(3).strip()[:300]}
    if note:
        meta["recheck"]["after"] = note
    json.dump(meta, open(mf, "w"), indent=1)
    print("patched", m.group(1), m.group(2))
