#!/bin/bash
# Re-run every quick check on the unchanged /repo (VERIF_SEED=1) so that the committed evidence files
# describe a clean quick run; fails if any check does not exit 0.
cd "$(dirname "$0")/.."
export VERIF_SEED=1
rc=0
for i in $(seq -w 1 20); do ./check run C$i --tier quick | tail -1 | cut -c1-100 || rc=1; done
python3 - <<'PY'
import json,glob,sys
bad=[f for f in glob.glob('evidence/*.json') if (lambda e: e['violations']!=0 or e['tier']!='quick' or e['seed']!=1)(json.load(open(f)))]
print("evidence clean" if not bad else "NOT CLEAN: %s"%bad); sys.exit(1 if bad else 0)
PY
