#!/usr/bin/env python3
"""lib/reftest.py <refactor-dir>: a behaviour-preserving change (patch.diff + meta.json) must keep the
checks silent. Applies it in a scratch worktree, confirms build + existing tests, then runs the quick
check of the property and of the related properties through VERIF_REPO. Exit 0 = all silent."""
import json, os, shutil, subprocess, sys, tempfile
ROOT = os.path.dirname(os.path.dirname(os.path.abspath(__file__)))
REPO = "/repo"
ENV = dict(os.environ, GOFLAGS="-mod=mod", GOPROXY="off", GOSUMDB="off", GOTOOLCHAIN="local")
GROUPS = [{"C04", "C05", "C16", "C19"}, {"C03", "C09"}, {"C02", "C08", "C17"}, {"C01", "C07", "C18"}, {"C06", "C20"}, {"C11", "C12", "C13"}]

def sh(cmd, cwd=None, env=ENV, timeout=3600):
    p = subprocess.run(cmd, cwd=cwd, env=env, stdout=subprocess.PIPE, stderr=subprocess.STDOUT, timeout=timeout, shell=isinstance(cmd, str))
    return p.returncode, p.stdout.decode("utf-8", "replace")

def main():
    d = os.path.abspath(sys.argv[1])
    meta = json.load(open(os.path.join(d, "meta.json")))
    pid = meta["property"]
    props = [pid] + sorted(set().union(*[g for g in GROUPS if pid in g]) - {pid}) if any(pid in g for g in GROUPS) else [pid]
    if "--only" in sys.argv:
        props = [pid]
    wt = tempfile.mkdtemp(prefix="refrun-", dir="/tmp"); os.rmdir(wt)
    rc, out = sh(["git", "-C", REPO, "worktree", "add", "-q", "--detach", wt, "HEAD"])
    res = {}
    try:
        rc, out = sh(["git", "apply", os.path.join(d, "patch.diff")], cwd=wt)
        if rc != 0:
            print("PATCH-DOES-NOT-APPLY", out[-300:]); return 2
        rc, out = sh("go build ./... && go build -tags verif ./...", cwd=wt)
        if rc != 0:
            print("BUILD-FAILS", out[-400:]); return 2
        rc, out = (0, "") if "--fast" in sys.argv else sh("go test -vet=off -count=1 $(go list ./... | grep -v internal/wordlists)", cwd=wt)
        if rc != 0:
            print("EXISTING-TESTS-FAIL", out[-600:]); return 2
        env = dict(ENV, VERIF_REPO=wt)
        bad = 0
        for p in props:
            rc, out = sh([os.path.join(ROOT, "check"), "run", p, "--tier", "quick"], cwd=ROOT, env=env, timeout=7200)
            line = [l for l in out.splitlines() if l.startswith("VIOLATION") or l.startswith("  ") or "INCONCLUSIVE" in l or "] OK" in l]
            res[p] = rc
            print("%s rc=%s %s" % (p, rc, " | ".join(line[:3])[:400]))
            if rc != 0:
                bad += 1
        print("SILENT" if bad == 0 else "ALARM (%d)" % bad)
        return 0 if bad == 0 else 1
    finally:
        sh(["git", "-C", REPO, "worktree", "remove", "--force", wt]); shutil.rmtree(wt, ignore_errors=True)
        import hashlib  # only this run's build directory (other runs may be in progress)
        shutil.rmtree(os.path.join(ROOT, ".build", "alt-" + hashlib.sha1(wt.encode()).hexdigest()[:10]), ignore_errors=True)

if __name__ == "__main__":
    sys.exit(main())
