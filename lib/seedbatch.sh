#!/bin/bash
# lib/seedbatch.sh <ID>...  : confirm (4 in parallel) and then check (serial) all mutants of the given properties under /tmp/mut/<ID>.out/m*
cd "$(dirname "$0")/.."
dirs=()
for id in "$@"; do for d in /tmp/mut/$id.out/m*; do [ -f "$d/patch.diff" ] && dirs+=("$d"); done; done
printf '%s\n' "${dirs[@]}" | xargs -P 4 -I{} sh -c 'python3 lib/seedtest.py {} --confirm-only > {}/confirm.log 2>&1; tail -1 {}/confirm.log | sed "s|^|{} |"'
for d in "${dirs[@]}"; do
  id=$(basename $(dirname $d) .out); k=$(basename $d)
  if grep -q '"ok": true' $d/confirm.json 2>/dev/null; then
    python3 lib/seedtest.py $d --no-confirm --keep $id-$k > $d/check.log 2>&1
    echo "$id-$k $(tail -1 $d/check.log) :: $(grep -m1 '^  ' $d/check.log | cut -c1-160)"
  else
    echo "$id-$k NOT-CONFIRMED"
  fi
done
