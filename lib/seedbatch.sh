#!/bin/bash
# lib/seedbatch.sh <NAME>...  : NAME = C04 (round 1) or C04r2 (round 2); confirm (4 in parallel) and then check (serial,
# against a scratch worktree, /repo untouched) all mutants under /tmp/mut/<NAME>.out/m*
cd "$(dirname "$0")/.."
dirs=()
for id in "$@"; do for d in ${MUTROOT:-/tmp/mut}/$id.out/m*; do [ -f "$d/patch.diff" ] && [ -f "$d/meta.json" ] && dirs+=("$d"); done; done
printf '%s\n' "${dirs[@]}" | xargs -P 4 -I{} sh -c '[ -f {}/confirm.json ] || python3 lib/seedtest.py {} --confirm-only > {}/confirm.log 2>&1'
for d in "${dirs[@]}"; do
  name=$(basename $(dirname $d) .out); k=$(basename $d)
  keep=$(echo $name | sed 's/r[2-9]$//')-$(echo $name | grep -o 'r[2-9]$')$k
  if grep -q '"ok": true' $d/confirm.json 2>/dev/null; then
    python3 lib/seedtest.py $d --no-confirm --scratch --keep $keep > $d/check.log 2>&1
    echo "$keep $(tail -1 $d/check.log) :: $(grep -m1 '^  ' $d/check.log | cut -c1-170)"
  else
    echo "$keep NOT-CONFIRMED :: $(grep -o '"demo_with_change": "[^"]*"\|"existing_tests": "[^"]\{0,80\}\|"error": "[^"]\{0,120\}' $d/confirm.json | tr '\n' ' ')"
  fi
done
