#!/usr/bin/env python3
"""Confirm a seeded change independently and run the quick (optionally thorough) check against it.

  lib/seedtest.py <mutant-dir> [--tier quick|thorough] [--keep <name>] [--no-confirm]

<mutant-dir> holds patch.diff, demo_test.go (first line `// path: <intended path>`) and meta.json as
written by a sub-agent.  Steps:
  1. confirmation in a scratch git worktree of /repo (outside /repo and /verif, removed afterwards):
     patch applies, `go build ./...`, the existing tests pass (network-only wordlist tests excluded),
     the demonstration FAILS with the change and PASSES without it;
  2. `git -C /repo apply patch.diff`, run `./check run <ID>`, then `git -C /repo apply -R patch.diff`
     (the tree is verified to be back to its previous status);
  3. with --keep, copy patch, demo and an extended meta.json to /verif/seeded/<name>/.
Exit status: 0 detected, 1 missed, 2 could not confirm / infrastructure.
"""
import json
import os
import re
import shutil
import subprocess
import sys
import tempfile
import time

ROOT = os.path.dirname(os.path.dirname(os.path.abspath(__file__)))
REPO = "/repo"
ENV = dict(os.environ, GOFLAGS="-mod=mod", GOPROXY="off", GOSUMDB="off", GOTOOLCHAIN="local")


def sh(cmd, cwd=None, timeout=1800):
    p = subprocess.run(cmd, cwd=cwd, env=ENV, stdout=subprocess.PIPE, stderr=subprocess.STDOUT, timeout=timeout, shell=isinstance(cmd, str))
    return p.returncode, p.stdout.decode("utf-8", "replace")


def demo_path(mdir):
    for name in ("demo_test.go", "demo/main.go", "demo.go"):
        f = os.path.join(mdir, name)
        if os.path.exists(f):
            first = open(f).readline()
            m = re.search(r"path:\s*(\S+)", first)
            return f, (m.group(1) if m else None)
    return None, None


def confirm(mdir, meta):
    log = {}
    patch = os.path.join(mdir, "patch.diff")
    demo, dpath = demo_path(mdir)
    if demo is None or dpath is None:
        return False, {"error": "no demo with a `// path:` line"}
    wt = tempfile.mkdtemp(prefix="seedchk-", dir="/tmp")
    os.rmdir(wt)
    rc, out = sh(["git", "-C", REPO, "worktree", "add", "-q", "--detach", wt, "HEAD"])
    if rc != 0:
        return False, {"error": "worktree: " + out}
    try:
        rc, out = sh(["git", "apply", "--check", patch], cwd=wt)
        if rc != 0:
            return False, {"error": "patch does not apply to /repo HEAD: " + out[-400:]}
        target = os.path.join(wt, dpath)
        # demo passes without the change
        os.makedirs(os.path.dirname(target), exist_ok=True)
        shutil.copy(demo, target)
        pkg = "./" + os.path.dirname(dpath)
        race = ["-race"] if "-race" in json.dumps(meta) else []
        rc0, out0 = sh(["go", "test", "-vet=off", "-count=1"] + race + ["-run", "Demo|demo|C[0-9][0-9]", pkg], cwd=wt)
        log["demo_without_change"] = "pass" if rc0 == 0 else "FAIL: " + out0[-600:]
        os.remove(target)
        sh(["git", "apply", patch], cwd=wt)
        rc, out = sh("go build ./... ", cwd=wt)
        log["build"] = "ok" if rc == 0 else out[-600:]
        rc, out = sh("go test -vet=off -count=1 $(go list ./... | grep -v internal/wordlists)", cwd=wt, timeout=3000)
        log["existing_tests"] = "pass" if rc == 0 else "FAIL: " + out[-1200:]
        shutil.copy(demo, target)
        rc1, out1 = sh(["go", "test", "-vet=off", "-count=1"] + race + ["-run", "Demo|demo|C[0-9][0-9]", pkg], cwd=wt)
        log["demo_with_change"] = "fails (as intended)" if rc1 != 0 else "PASSES (change not demonstrated)"
        log["demo_failure_excerpt"] = out1[-500:] if rc1 != 0 else ""
        ok = rc0 == 0 and log["build"] == "ok" and log["existing_tests"] == "pass" and rc1 != 0
        return ok, log
    finally:
        sh(["git", "-C", REPO, "worktree", "remove", "--force", wt])
        shutil.rmtree(wt, ignore_errors=True)


def run_check_scratch(mdir, pid, tier):
    """Like run_check but against a scratch worktree (VERIF_REPO), leaving /repo untouched."""
    patch = os.path.join(mdir, "patch.diff")
    wt = tempfile.mkdtemp(prefix="seedrun-", dir="/tmp")
    os.rmdir(wt)
    rc, out = sh(["git", "-C", REPO, "worktree", "add", "-q", "--detach", wt, "HEAD"])
    if rc != 0:
        return None, "worktree: " + out
    try:
        rc, out = sh(["git", "apply", patch], cwd=wt)
        if rc != 0:
            return None, "patch does not apply: " + out
        env = dict(ENV, VERIF_REPO=wt)
        t0 = time.time()
        p = subprocess.run([os.path.join(ROOT, "check"), "run", pid, "--tier", tier], cwd=ROOT, env=env, stdout=subprocess.PIPE, stderr=subprocess.STDOUT, timeout=7200)
        return p.returncode, p.stdout.decode("utf-8", "replace") + "\n[wall %.1fs, scratch worktree]" % (time.time() - t0)
    finally:
        sh(["git", "-C", REPO, "worktree", "remove", "--force", wt])
        shutil.rmtree(wt, ignore_errors=True)
        import hashlib  # only this run's build directory (other sensitivity runs may be in progress)
        shutil.rmtree(os.path.join(ROOT, ".build", "alt-" + hashlib.sha1(wt.encode()).hexdigest()[:10]), ignore_errors=True)


def run_check(mdir, pid, tier):
    patch = os.path.join(mdir, "patch.diff")
    before = sh(["git", "-C", REPO, "status", "--porcelain"])[1]
    rc, out = sh(["git", "-C", REPO, "apply", patch])
    if rc != 0:
        return None, "patch does not apply to /repo: " + out
    evfile = os.path.join(ROOT, "evidence", pid + ".json")
    saved = open(evfile).read() if os.path.exists(evfile) else None
    try:
        t0 = time.time()
        rc, out = sh([os.path.join(ROOT, "check"), "run", pid, "--tier", tier], cwd=ROOT, timeout=7200)
        wall = time.time() - t0
    finally:
        sh(["git", "-C", REPO, "apply", "-R", patch])
        if saved is not None:  # the evidence of a run against a changed tree is not evidence for /repo
            open(evfile, "w").write(saved)
        after = sh(["git", "-C", REPO, "status", "--porcelain"])[1]
        if after != before:
            print("WARNING: /repo status changed!\n" + after)
    return rc, out + "\n[wall %.1fs]" % wall


def main():
    args = sys.argv[1:]
    if not args:
        print(__doc__)
        return 2
    mdir = os.path.abspath(args[0])
    tier = args[args.index("--tier") + 1] if "--tier" in args else "quick"
    keep = args[args.index("--keep") + 1] if "--keep" in args else None
    meta = json.load(open(os.path.join(mdir, "meta.json")))
    pid = meta["property"]
    if "--check-prop" in args:
        pid = args[args.index("--check-prop") + 1]
    cfile = os.path.join(mdir, "confirm.json")
    if "--no-confirm" in args and os.path.exists(cfile):
        cj = json.load(open(cfile))
        conf_ok, conf = cj["ok"], cj["log"]
    elif "--no-confirm" in args:
        conf_ok, conf = True, {"skipped": True}
    else:
        conf_ok, conf = confirm(mdir, meta)
        json.dump({"ok": conf_ok, "log": conf}, open(cfile, "w"), indent=1)
    print("confirmation:", json.dumps(conf, indent=1)[:1500])
    if not conf_ok:
        print("NOT CONFIRMED")
        return 2
    if "--confirm-only" in args:
        print("CONFIRMED")
        return 0
    rc, out = (run_check_scratch if "--scratch" in args else run_check)(mdir, pid, tier)
    viol = [l for l in out.splitlines() if l.startswith("VIOLATION") or l.startswith("  ")][:6]
    print("check rc=%s" % rc)
    print("\n".join(viol) if viol else out[-800:])
    detected = rc == 1
    if keep:
        dst = os.path.join(ROOT, "seeded", keep)
        os.makedirs(dst, exist_ok=True)
        demo, dpath = demo_path(mdir)
        if os.path.abspath(dst) != os.path.abspath(mdir):
            shutil.copy(os.path.join(mdir, "patch.diff"), dst)
            shutil.copy(demo, os.path.join(dst, os.path.basename(demo)))
        meta.update({
            "breaks_property": meta["property"],
            "confirmed": conf,
            "what_i_ran": [
                "scratch git worktree of /repo HEAD: git apply patch.diff; go build ./...; go test -vet=off -count=1 (all packages except the network-only internal/wordlists); demo placed at %s fails with the change and passes without it" % dpath,
                "git -C /repo apply patch.diff; ./check run %s --tier %s; git -C /repo apply -R patch.diff" % (pid, tier),
            ],
            "check_result": {"tier": tier, "exit": rc, "detected": detected, "violation_lines": viol[:4]},
        })
        json.dump(meta, open(os.path.join(dst, "meta.json"), "w"), indent=1)
    print("DETECTED" if detected else ("MISSED" if rc == 0 else "INCONCLUSIVE rc=%s" % rc))
    return 0 if detected else (1 if rc == 0 else 2)


if __name__ == "__main__":
    sys.exit(main())
