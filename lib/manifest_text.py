"""Per-property wording for MANIFEST.json."""
HOOK_COMMITS = ["d9be94b"]
NOT_APPLICABLE = {}

_PBT = "property-based testing with pgregory.net/rapid (sharded, shrunk replay files; call-mutate-call-again, reused-buffer and spare-capacity sequences inside each case; generated schedules: concurrent callers released from a spin barrier against expectations computed beforehand by the reference; constructed hostile inputs; coverage-guided go fuzzing over the same generators in the thorough tier)"

# additions of the strengthening rounds 3-5 (DESIGN.md 8.1-8.3), appended to the level text
EXTRA = {
    "C01": " Also: after every accepted triple the same bytes with the message/signature boundary moved are judged on their own; 2..16 goroutines verify their own triples concurrently. Messages up to 300000 bytes around multiples of 64 KiB. Signatures for the mirrored equations (S = ka-r, r-ka, -(r+ka)), built from the secret scalars.",
    "C02": " Also: toy curves that report invalid candidates with an error wrapping ErrInvalidKey; paths of 255..513 steps; 2..8 goroutines deriving children from one shared extended key. Pinned P-256 steps whose sum wraps n without carry (2^32 search, cmd/findwrap); toy curve with 98% invalid candidates; toy keys with HardenedOnly()=false; library sentinels as injected permanent errors; scalar validity and Shift through the curves' key API. The injected permanent error must come back as that error value (errors.Is), bare or wrapped.",
    "C03": " Also: sentences in which one word is replaced by a non-list string with the same 32-bit FNV hash (found by exhaustive search); concurrent first use of a freshly selected word list. Rejected SetWordList calls in between; denormalised word spellings (rejection or consistent normalisation accepted).",
    "C04": " Also: well-formed strings whose checksum belongs to another constant (Bech32m, 0, ...); prefixes constructed to leave the checksum register at 0; error values re-inspected after 13 further rejected calls; concurrent callers sharing a fresh prefix. Prefixes with non-ASCII runes and a checksum valid for their bytes; prefix and data part in different cases; case-bit flips of any character. Framing (line ends, blanks, NUL, Unicode spaces, BOM, quotes) before/after the string; insertions after the last character; well-known network prefixes.",
    "C05": " Also: 25 fresh, never-encoded prefixes per case, each first used by 2..8 goroutines at once. Every Encode call repeated twice.",
    "C06": " Also: caller-supplied dst slices (re-used while earlier results are held; adjacent windows of one buffer); 2..8 goroutines hashing with their own instances concurrently; a third build variant GOARCH=386 (32-bit words, 32 lanes). Reset followed by another batch size; absorbs of 32..100 blocks in one call; rejected Absorb on a squeezing instance and with a short lane.",
    "C07": " Also: crypto.Signer with plentiful / empty / failing random sources against crypto/ed25519 with the same arguments; a rejected Verify of every kind between signing calls; concurrent callers with different keys. Options values of other dynamic types with zero HashFunc; GenerateKey with six reader kinds against crypto/ed25519 on identical readers; messages around multiples of 64 KiB. Arguments passed as front parts of larger buffers; the empty message in four spellings; GenerateKey(nil) with a replaced crypto/rand.Reader.",
    "C08": " Also: sequences of shifts passed through one caller buffer that is refilled between calls (all public shifts first); concurrent non-hardened children of one shared parent. Shifts by +-lambda*k (cube root of unity mod n). One shared caller buffer for the private and the public shift, compared after each call.",
    "C09": " Also: pairs of valid (mnemonic, passphrase) inputs whose concatenations coincide although the split differs (word that is a prefix of a longer word; sentence that is a prefix of a longer sentence), computed alternately; hash-impostor words. Sentences of exactly 111..113 / 127..129 / 255..257 bytes; denormalised word spellings; parser inputs with 64 KiB+ tokens and 10000 words. Valid sentences of the registered list that is not selected.",
    "C10": " Also: the bytes returned by MarshalText are re-read after other paths were printed/marshalled and then overwritten by the caller. Regular-expression and format metacharacters as markers and noise; paths of 250..1025 components.",
    "C11": " Also: histories of 2..4 calls on one Worker mixing 64 KiB+ data and cancelled calls; 2..8 goroutines calling Mine on one shared Worker. Digest function as a drawn configuration value (pow.Hash); storms of pre-cancelled calls from 4..16 goroutines.",
    "C12": " Also: len*target up to 2^64 with lanes at the exact soundness boundary (smallest hash values whose difficulty is len*target-1) and at every magnitude above the target hash; concurrent callers on one shared Worker.",
    "C13": " Also: 2..5 calls issued back to back (uncancelled right after cancelled) under GOMAXPROCS 1..16; 300..600 successive successful calls in one process. Contexts ending by deadline; digest function as configuration value. Data of 100..5000 bytes. Context kinds: Background, a non-standard Context implementation (optionally yielding inside Done/Err), grandchild with values, cancel-with-cause.",
    "C14": " Also: first calls into the codecs made by 2..8 goroutines at once in 8 fresh child processes per case. Destinations of exactly DecodedLen bytes; 64..128 KiB inputs under GOMAXPROCS 1..16.",
    "C15": " Also: leaf counts 1000..9000 under GOMAXPROCS 1..32 (powers of two and others); 2..8 goroutines sharing one Hasher. All 17 linked hash functions; leaves marshalling to nil and through one shared scratch buffer. Leaf types that also implement io.WriterTo / io.Reader / Bytes / String / MarshalText / GobEncode / MarshalJSON with other content; the first leaf error must come back as that error (errors.As).",
    "C16": " Also: neighbours at distance <= 4 constructed (meet in the middle) to have the same 32-bit FNV-1a/FNV-1 hash and length as the valid string, decoded right after it; one goroutine decoding a corrupted copy while others decode valid strings of the same prefix; zero-register prefixes. Upper-case strings edited with the charset's own lower-case characters (while an upper-case letter remains); well-known network prefixes.",
    "C17": " Also: the endomorphism eigenvalues (points with equal y and different x, scalars lambda, lambda+-1, ...) as corners; corner scalars as bit prefixes of longer scalars; sequences that reuse one pair of coordinate objects and one scalar buffer in place.",
    "C18": " Also: hashes and marshalled proofs handed out earlier are re-read after other proofs were hashed. Proofs crafted with the secret scalar that Prove never emits: Gamma plus torsion and mixed-order keys with the nonce stepped until c*T = O (or not), chosen nonces 0, 1, L-1, -c0*x.",
    "C19": " Also: addresses whose checksum belongs to another constant (Bech32m, ...); concurrent callers of one network prefix. Prefix and data part in different cases; migration strings with an invalid group and a checksum matching a mishandled decoding. Framing before/after the string.",
    "C20": " Also: all four buffers placed (mmap MAP_FIXED_NOREPLACE) so that they straddle addresses whose low 32 bits are 0x80000000 / 0; a third build variant GOARCH=386 (portable code on 32-bit words) with a word-size generic hook check. States next to the all-zero state; 2^16+64 successive calls per build variant; four buffers exactly adjacent in memory; clone at the sponge level; a covered target that stops compiling is reported. Sponge-level squeezes in 1..4 successive calls with a second clone in between.",
}

TEXT = {
    "C01": dict(
        technique=_PBT + " + complete torsion/encoding grid + native fuzzing; oracle = literal ZIP-215 predicate on an independent big-integer Edwards25519 model (two-sided iff) + crypto/ed25519 (one-sided)",
        level="Triples are constructed from known scalars so that the accept set is reached on purpose (torsion-mixed keys and R in every canonical / non-canonical encoding, small-order points, S+jL) and then mutated; Verify must return exactly the boolean the model computes from the statement. The 8x8 torsion x encoding grid and S+jL for j=1..15 are enumerated completely. Sampling over keys/messages: no absence claim beyond the grids.",
        note="Trusted: harness/ref/ed (math/big, self-checked against RFC 8032 / published small-order points), crypto/sha512.",
    ),
    "C02": dict(
        technique=_PBT + " with pluggable toy curves and injected curve faults; oracle = own SLIP-0010 model (validated on all official vectors) with the same validity predicate; call-budget instead of timeouts",
        level="Generated (seed, curve, path) triples on the three real curves and on harness toy curves that reject 50% / 87.5% of candidates (so the master and child retry loops iterate in most cases) are compared at every path prefix with an independent SLIP-0010 model: private key, chain code, serialized public key, fingerprint, path API = step-wise, public-side derivation from a drawn step on. Undefined derivations must fail; injected permanent curve errors must be returned after exactly the expected number of curve calls. Exploration.",
        note="Trusted: harness/ref/slip10 + ref/secp + crypto/ed25519, crypto/hmac, sha512, ripemd160. Real-curve retries (probability 2^-127) are reached only through the toy curves, which exercise the same DeriveChild/NewMasterKey code.",
    ),
    "C03": dict(
        technique=_PBT + " + complete enumeration of both word lists + native fuzzing; oracle = independent bit-string BIP-39 codec over pinned official word lists (two-sided accept/reject, round trips)",
        level="Generated entropies of every size (weighted to leading/trailing zero bytes, all-zero, single bits) and generated/mutated word sequences are judged by an independent bit-string reference in both directions; all 2x2048 word indices are enumerated completely against the pinned lists. Exploration: sampled over 2^128..2^512 entropies, complete only over sizes, indices and error kinds.",
        note="Trusted: harness/ref/bip39 (self-checked on official vectors), crypto/sha256, the pinned word list files (English independently confirmed by its published digest; Japanese pinned to the commit).",
    ),
    "C04": dict(
        technique=_PBT + " + complete enumeration of padding patterns + native fuzzing; oracle = total BIP-173 reference decoder written from the BIP text (two-sided: accept iff, equal values, re-encode)",
        level="Every generated string (reference-encoded arbitrary symbol sequences with correct checksum, case variants, hostile edits incl. non-ASCII case-folding traps, random bytes) is decided by a total independent reference decoder and must get the same verdict and values; error offsets must lie inside the input; panics are failures. All (symbol count, last symbol) padding patterns enumerated completely. Exploration, not proof.",
        note="Trusted: harness/ref/bech32 (self-checked against BIP-173 vectors) as the definition of 'valid Bech32'; strings are byte strings.",
    ),
    "C05": dict(
        technique=_PBT + " + complete sweep of all (prefix length, data length) pairs; oracle = independent BIP-173 reference encoder + Decode round trip",
        level="Generated (hrp, data) pairs incl. upper/mixed case, bytes outside 33..126 and non-ASCII runes: Encode must equal the reference string exactly when the pair fits and fail otherwise; all 87x57 length pairs x 4 contents enumerated completely on both sides of the 90-character limit.",
        note="Trusted: harness/ref/bech32.",
    ),
    "C06": dict(
        technique="stateful (model-based) property-based testing with rapid: generated Absorb/Squeeze/Clone/Reset/rejected-call histories against 1..64 independent scalar Curl-P-81 sponges; invariant after every step on the decoded bit-sliced state; run under the default, the purego and the GOARCH=386 build; concurrent independent instances",
        level="Each generated history (up to 4 instances, batch sizes weighted to 1, 2, 63, 64, equal / nearly equal / all-different lanes, split absorbs, multi-block squeezes, clones, resets, rejected calls) is executed against the implementation and against one scalar reference sponge per lane; after every call the full 729-trit state of every lane and every squeezed block must agree, rejected calls must leave the state bit-identical. Sampled histories; the shrunk failing history is the replay file.",
        note="Trusted: harness/ref/curl (validated on pinned vectors). The state is observed through the public CopyState.",
    ),
    "C07": dict(
        technique=_PBT + " + complete enumeration of message lengths 0..300; differential oracle = crypto/ed25519 byte for byte",
        level="Differential testing against the standard library on generated seeds and messages (lengths weighted to every SHA-512 padding regime), plus crypto.Signer and GenerateKey behaviour. Sampled over seeds; complete over message lengths 0..300.",
        note="Trusted: crypto/ed25519 as the RFC 8032 implementation.",
    ),
    "C08": dict(
        technique=_PBT + " + complete corner grid; oracle = metamorphic (private-side vs public-side derivation must commute) + affine big-integer reference as third opinion",
        level="Generated parents and non-hardened indices: Public() of the private child must equal the child of the public parent (key, chain code, fingerprint). Shift level: generated scalars x shifts with all corner relations (0, k, n-k, n-k+-1, n, n+1, 2^256-1) enumerated completely on a grid and sampled randomly: both sides invalid or both valid and equal, no panic, equal to (k+b mod n)G.",
        note="Trusted: harness/ref/secp for the third opinion; the commutation check itself needs no reference.",
    ),
    "C09": dict(
        technique=_PBT + " + complete enumeration of the 25 White_Space separators; oracle = own PBKDF2-HMAC-SHA512 and a hand-made NFKD table cross-checked with x/text; metamorphic passphrase equivalence; parser idempotence",
        level="Seeds for generated valid mnemonics and passphrases (hand-built composed/compatibility/Hangul/kana/mis-ordered pieces whose NFKD is known by construction, plus arbitrary strings) must equal an independent PBKDF2; invalid mnemonics must give no seed; generated renderings with all Unicode white space and compatibility forms must parse to the canonical words. Exploration.",
        note="Trusted: crypto/hmac+sha512, golang.org/x/text NFKD for arbitrary passphrases (the hand table is independent), harness/ref/bip39 word lists.",
    ),
    "C10": dict(
        technique=_PBT + " + complete enumeration of short strings + native fuzzing; oracle = hand-written decimal recursive-descent reference parser (two-sided accept/reject + values) and print/parse round trip",
        level="Generated-input search: grammar-with-noise strings and []uint32 paths judged by an independent reference parser in both directions (accept iff, equal values), all 7381 strings of length <= 4 over the 9 significant characters enumerated completely, coverage-guided fuzzing in the thorough tier. Sampling of an infinite language: establishes no absence beyond the enumerated part.",
        note="Trusted: the hand-written reference parser in harness/c10 as the reading of the property's grammar; rapid's generators; Go's fmt for the reference printer.",
    ),
    "C11": dict(
        technique=_PBT + " + complete boundary grid; oracle = own score model (BLAKE2b -> b1t6 -> scalar Curl) and the literal soundness statement Score(data||nonce) >= target at targets exactly at / one ulp around 3^k/len; child-process execution for crash detection; cancelled-context soundness; hook-level bit-plane test",
        level="Targets are constructed at fl(3^k/len) and its floating-point neighbours (complete grid k = 0..4/7 x len = 9..72, plus generated data/worker counts), at the float quotient +-2 ulp, random, and trivially low (down to 0, negative, subnormal) in a child process; every returned nonce is judged by the statement. Score itself is compared with an independent reference within 2 ulp. With the hook, checkStateTrits is tested on constructed 64-lane bit planes.",
        note="Trusted: harness/ref/pow, ref/curl, ref/trit, x/crypto/blake2b. Hook (optional): VerifCheckStateTrits, VerifTrailingZeros.",
    ),
    "C12": dict(
        technique=_PBT + "; oracle = own big-integer difficulty/score model; exhaustive re-hash of every skipped nonce block (single worker) for completeness; cancelled-context soundness; hook-level lane test on constructed bit planes with hashes at / around the target hash",
        level="Mine is run on generated (data, target) with len*target at, just above and just below powers of three; the returned nonce must score >= target (soundness) and, with one worker, no earlier 64-block may contain a nonce whose reference difficulty exceeds len*target (every skipped nonce is re-hashed). With hooks, checkStateTrits / toInt / sufficientTrailingZeros / targetHash are compared with the reference on constructed planes whose lanes have exactly s-1 trailing zeros and integer values at, just below and just above the target hash, at lane 0, 63 and random.",
        note="Trusted: harness/ref/pow on math/big. Hooks: VerifCheckStateTrits, VerifToInt, VerifSufficientTrailingZeros, VerifTargetHash; without them only the Mine/Score part runs.",
    ),
    "C13": dict(
        technique=_PBT + " over configurations and cancellation instants, built with the Go race detector; oracle = result/error contract, bounded return after cancellation, goroutine accounting",
        level="Generated configurations (both PoW versions, 1..64 workers, GOMAXPROCS 1..16, targets from every-lane-qualifies to unattainable, cancellation before / during / racing with the find) are executed; the result contract, return within 45 s of cancellation, and the disappearance of every pkg/pow goroutine within 5 s are checked; the whole binary runs under -race. Schedules are sampled, not enumerated: a defect needing one specific interleaving can be missed.",
        note="Trusted: Go's race detector and runtime.Stack. Limits: see DESIGN.md section 6 (schedules).",
    ),
    "C14": dict(
        technique=_PBT + " + complete enumeration of all 256 bytes, 729 b1t6 groups / tryte pairs and 6561 b1t8 groups; oracle = integer-arithmetic reference codec (two-sided, error kind and decoded count)",
        level="The per-group behaviour is decided exhaustively (every byte, every possible group); multi-group behaviour (first fault wins, remainder handling, decoded count, re-encoding) on generated sequences against the reference.",
        note="Trusted: harness/ref/trit (TIP-5 arithmetic, self-checked on TIP-5 examples). Inputs outside {-1,0,1} / 9A-Z are documented as undefined and not generated.",
    ),
    "C15": dict(
        technique=_PBT + " + complete enumeration of every leaf count 0..N; oracle = iterative bottom-up (binary counter) root and RFC 9162 inclusion-proof verification; failing-leaf fault injection",
        level="Every leaf count 0..600 (quick) / 0..6000 (thorough) plus counts around powers of two up to 2^17 is checked against an independent non-recursive construction and RFC 9162 audit paths; random contents, four hash functions, failing leaves (first error by index), unmodified inputs, equal content via another leaf type.",
        note="Trusted: the standard-library / x/crypto hash functions; the reference construction and verifier in harness/c15.",
    ),
    "C16": dict(
        technique="exhaustive black-box syndrome enumeration (3 766 036 syndromes measured through the real Encode) + " + _PBT + " + complete weight<=2 enumeration per sampled code word + computed weight<=4 patterns for alternative checksum constants (Bech32m etc.); oracle = Decode must reject",
        level="The checksum's distance is settled completely at the syndrome level for every error pattern of weight <= 4 in the 89-symbol window (finite, enumerated), using only checksum differences observed through Encode plus checked linearity; the end-to-end half (Decode rejects) is sampled for weights 3-4 and enumerated completely for weights 1-2 on sampled code words.",
        note="Assumes Decode rejects exactly the non-zero syndromes (checked by C04/C05 and sampled here). Trusted: harness/ref/bech32 for building valid strings.",
    ),
    "C17": dict(
        technique=_PBT + " + complete corner grid; oracle = affine reference curve with explicit case analysis + algebraic group laws (commutativity, associativity, distributivity, k = k mod n)",
        level="Points are generated by their discrete log so that equal / opposite / identity pairs and corner scalars (0, n, n+1, 2n, 2^256-1, leading zeros, over-long) are reached on purpose; every operation of both copies of the curve is compared with an independent affine implementation, identity as (0,0), panics are failures; all 144 corner pairs and all corner scalars enumerated completely. IsOnCurve on roots, negated roots, neighbours, (0,0).",
        note="Trusted: harness/ref/secp (math/big affine arithmetic, self-checked). Coordinates outside [0,p) are outside the statement and not generated.",
    ),
    "C18": dict(
        technique=_PBT + " + complete enumeration of small-order / non-canonical key encodings + native fuzzing; oracle = own RFC 9381 prover and verifier on the big-integer curve model (byte-for-byte proofs, two-sided Verify, uniqueness of the hash)",
        level="Prove is compared byte for byte with an independent RFC 9381 implementation on generated (seed, alpha), incl. alphas needing several try-and-increment rounds; Verify's verdict and hash are compared on honest and structurally mutated (key, alpha, proof) triples; decoding succeeds iff the reference decoder does and only on self-re-encoding inputs; accepted proofs must give the honest hash.",
        note="Trusted: harness/ref/vrf + ref/ed (validated on the RFC 9381 examples), crypto/sha512.",
    ),
    "C19": dict(
        technique=_PBT + " + complete single-tryte substitution sweep per sampled address + native fuzzing; oracle = BIP-173 reference + (prefix, version, length) table + own migration codec (two-sided)",
        level="Constructor round trips for all prefixes and address kinds against an independent encoding; generated Bech32 strings with arbitrary version bytes / payload lengths / near-miss prefixes / hostile edits must be accepted exactly when the reference table says so and then re-encode to the lower-cased input; migration strings against an independent b1t6+BLAKE2b decoder incl. all 81x26 substitutions per sampled address.",
        note="Trusted: harness/ref/bech32, harness/ref/trit, x/crypto/blake2b.",
    ),
    "C20": dict(
        technique=_PBT + " directly on the two permutation routines (hook) with guard-page fault injection; oracle = differential (assembly vs portable, bit for bit) + scalar truth-table Curl-P-81 per lane + lane-independence metamorphic relation + concurrent first-use runs in fresh child processes (re-entrancy); buffers at 2^31/2^32 address boundaries; default, purego and GOARCH=386 builds",
        level="Generated bit-sliced states (valid 64-lane states, states with undefined pairs, arbitrary word patterns) are run through the build-selected transform and transformGeneric with all four buffers flush against PROT_NONE guard regions: outputs must agree bit for bit, equal 81 rounds of scalar Curl-P in every valid lane, never contain (0,0), keep lanes independent, and no access may fault or touch the canaries. States are sampled (2^93312 states cannot be enumerated); the memory-safety half covers every access of the routine as checked in because its addresses are input-independent.",
        note="Trusted: harness/ref/curl; Linux mmap/mprotect + debug.SetPanicOnFault as the out-of-bounds detector (accesses farther than 1 MiB away landing in mapped memory would be missed). Hooks: VerifTransform / VerifTransformGeneric under build tag verif; without the hook only the public sponge-level sub-check runs.",
    ),
}

for _k, _v in EXTRA.items():
    TEXT[_k]["level"] += _v
