"""Per-property wording for MANIFEST.json."""
HOOK_COMMITS = []
NOT_APPLICABLE = {}
TEXT = {
    "C10": dict(
        technique="property-based testing (rapid) + complete enumeration of short strings + native fuzzing; oracle = hand-written decimal recursive-descent reference parser (two-sided accept/reject + values) and print/parse round trip",
        level="Generated-input search: grammar-with-noise strings and []uint32 paths judged by an independent reference parser in both directions (accept iff, equal values), all 7381 strings of length <= 4 over the 9 significant characters enumerated completely, coverage-guided fuzzing in the thorough tier. Sampling of an infinite language: establishes no absence beyond the enumerated part.",
        note="Trusted: the hand-written reference parser in harness/c10 as the reading of the property's grammar; rapid's generators; Go's fmt for the reference printer.",
    ),
}
