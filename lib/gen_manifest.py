#!/usr/bin/env python3
"""Regenerates /verif/MANIFEST.json from lib/props.py + lib/manifest_text.py (run after editing either)."""
import json, os, sys
ROOT = os.path.dirname(os.path.dirname(os.path.abspath(__file__)))
sys.path.insert(0, os.path.join(ROOT, "lib"))
from props import PROPS
from manifest_text import TEXT, NOT_APPLICABLE, HOOK_COMMITS

BASE = json.load(open("/root/.vp/BASELINE.json"))["cmd"] if os.path.exists("/root/.vp/BASELINE.json") else ""
ALL = [json.loads(l)["id"] for l in open(os.path.join(ROOT, "properties.jsonl"))]
checks = []
for pid in ALL:
    if pid not in PROPS or pid not in TEXT:
        continue
    t = TEXT[pid]
    checks.append({
        "property_id": pid,
        "quick_cmd": "./check run %s --tier quick" % pid,
        "thorough_cmd": "./check run %s --tier thorough" % pid,
        "evidence_file": "/verif/evidence/%s.json" % pid,
        "replay_cmd_template": "./check replay {path}",
        "engine": "rapid-harness",
        "level_claimed": {"category": "exploration", "text": t["level"], "design_ref": t.get("design_ref", "DESIGN.md §4 " + pid)},
        "level_note": t["note"],
        "technique": t["technique"],
    })
na = [{"property_id": pid, "reason": NOT_APPLICABLE.get(pid, "check not built yet in this session (claimed in DESIGN.md; will be added)")} for pid in ALL if pid not in [c["property_id"] for c in checks]]
m = {
    "version": 1,
    "setup_cmd": "./check setup",
    "hooks": {
        "guard": "verif",
        "enable": "go build tag: the harness builds /repo (via a replace directive) with -tags verif; hook files are add-only *_verif.go files",
        "baseline_off_cmd": BASE,
        "source_commits": HOOK_COMMITS,
        "add_only": True,
    },
    "engines": [{
        "name": "rapid-harness",
        "path": "/verif/harness",
        "serves_properties": [c["property_id"] for c in checks],
        "kind_free_text": "Go test binaries (one per property) driven by pgregory.net/rapid v1.3.0 generators against independent reference oracles; sharded over processes by /verif/check; thorough tier adds count-bounded native go fuzzing; failures are shrunk and written as JSON replay files that re-run without rapid",
    }],
    "checks": checks,
    "notes": "Exit codes: 0 held, 1 VIOLATION, 2 inconclusive (infrastructure). VERIF_SEED selects the rapid seeds (shard i uses 1+1000003*seed+i). known_findings.json lists fixed/known defects; regress/ holds their replay files, run first on every check.",
    "not_applicable": na,
}
json.dump(m, open(os.path.join(ROOT, "MANIFEST.json"), "w"), indent=1)
print("claimed:", [c["property_id"] for c in checks], "unclaimed:", [x["property_id"] for x in na])
